"""
py2v -- a fail-closed translator from a subset of Python (the pure integer core
of fpy2's number library) to Gallina.

Every accepted function becomes one Gallina function over the dynamically typed
value universe of coq/Py/PyRt.v, in monadic style (``result val``; ``Err e``
models a raised exception).  The translation is syntax directed and keeps the
statement order of the source:

  x = e                  ->  LET v_x <- [e] IN rest
  a, b = e               ->  LET t <- [e] IN LET p <- py_unpack2 t IN let '(v_a, v_b) := p in rest
  x.f = e (x fresh)      ->  LET v_x <- py_setfield cls i v_x [e] IN rest
  if c: A else: B; rest  ->  IF [c] THEN [A; rest] ELSE [B; rest]      (continuation duplicated)
  match s: case P: A ... ->  a chain of IFs over the pattern tests, falling through to rest
  return e               ->  [e]
  raise E(...)           ->  Err <kind of E>
  assert c               ->  IF [c] THEN rest ELSE Err AssertErr

Anything outside the subset (loops, try, with, comprehensions, lambdas, unknown
names, attribute stores on objects that are not provably fresh, calls that do
not resolve to a translated function) raises ``Unsupported``: the translator
never guesses.  The only leniency is *declared* in the target table: for the
functions listed with ``partial_arms``, a ``match`` arm (or an ``if`` arm
guarded by an isinstance test) whose body is unsupported is emitted as
``unmodelled`` (= ``Err OtherErr``), i.e. the generated model is explicitly
partial there.

Usage:  py2v.translate(repo_root) -> Gallina source text (str)
"""
from __future__ import annotations

import ast
from pathlib import Path


class Unsupported(Exception):
    pass


# ---------------------------------------------------------------- what is translated
# (module path relative to the repo, class name or None, [function names]); order = definition order
# in the output is computed from the call graph.
TARGETS = [
    ('fpy2/utils/bits.py', None, ['bitmask', 'is_power_of_two']),
    ('fpy2/utils/ordering.py', 'Ordering', ['from_compare', 'reverse']),
    ('fpy2/number/round.py', 'RoundingMode', ['to_direction']),
    ('fpy2/number/number/flags.py', 'Flags',
     ['__init__', 'invalid', 'divzero', 'overflow', 'tiny_pre', 'tiny_post', 'inexact', 'carry']),
    ('fpy2/number/number/reals.py', 'RealFloat', [
        '__init__', '__neg__', '__pos__', '__abs__', '__lt__', '__le__', '__gt__', '__ge__',
        '__add__', '__sub__', '__mul__', '__pow__',
        'from_int', 'zero', 'one', 'power_of_2',
        'p', 'e', 'n', 'm', 's', 'exp', 'c',
        'is_zero', 'is_nonzero', 'is_positive', 'is_negative',
        'is_more_significant', 'is_integer', 'bit', 'normalize', 'split', 'compare', 'is_identical_to',
        '_extract_and_normalize', '_next_away', '_next_towards',
        'next_away_zero', 'next_towards_zero', 'next_up', 'next_down',
        '_round_params', '_round_increment_direction', '_round_increment',
        '_tiny_pre', '_tiny_post', '_round_at', '_round_at_stochastic', 'round_at', 'round',
    ]),
]

# enum classes whose members are needed as constants
ENUMS = [
    ('fpy2/utils/ordering.py', 'Ordering'),
    ('fpy2/number/round.py', 'RoundingDirection'),
    ('fpy2/number/round.py', 'RoundingMode'),
]

# functions in which an arm over a type the value universe does not contain may be left unmodelled
PARTIAL_ARMS = {'RealFloat.compare', 'RealFloat.__add__', 'RealFloat.__sub__', 'RealFloat.__mul__'}

# parameters without annotation whose modelled type is fixed here (documented restriction of the model)
PARAM_TYPES = {
    ('Ordering.from_compare', 'x'): 'int', ('Ordering.from_compare', 'y'): 'int',
}

# external effects modelled as oracles: (class, method) -> Gallina term taking the translated arguments.
# RealFloat._generate_randbits(rng, k): the drawn integer is the explicit argument `rng` of the model.
ORACLES = {
    ('RealFloat', '_generate_randbits'): 'oracle_randbits',
}

# classes outside the value universe: isinstance / class patterns on them are constantly false
FOREIGN_CLASSES = {'float', 'Fraction', 'str', 'complex'}

EXC_KIND = {
    'ValueError': 'ValueErr', 'TypeError': 'TypeErr', 'OverflowError': 'OverflowErr',
    'AssertionError': 'AssertErr', 'IndexError': 'IndexErr', 'NameError': 'NameErr',
}

BINOPS = {
    ast.Add: 'py_add', ast.Sub: 'py_sub', ast.Mult: 'py_mul', ast.Mod: 'py_mod', ast.FloorDiv: 'py_floordiv',
    ast.Pow: 'py_pow', ast.LShift: 'py_lshift', ast.RShift: 'py_rshift', ast.BitAnd: 'py_bitand',
    ast.BitOr: 'py_bitor', ast.BitXor: 'py_bitxor',
}
CMPOPS = {ast.Eq: 'py_eq', ast.NotEq: 'py_ne', ast.Lt: 'py_lt', ast.LtE: 'py_le', ast.Gt: 'py_gt', ast.GtE: 'py_ge'}
CMP_DUNDER = {ast.Eq: '__eq__', ast.NotEq: '__ne__', ast.Lt: '__lt__', ast.LtE: '__le__', ast.Gt: '__gt__', ast.GtE: '__ge__'}


class ClassInfo:
    def __init__(self, name, num):
        self.name = name
        self.num = num
        self.fields = []        # slot order
        self.methods = {}       # name -> FunctionDef
        self.props = set()
        self.static = set()
        self.is_enum = False
        self.members = {}       # enum member -> int value


class Translator:
    def __init__(self, repo):
        self.repo = Path(repo)
        self.classes = {}       # name -> ClassInfo
        self.modfuncs = {}      # name -> (FunctionDef, module consts)
        self.modconsts = {}     # module-level integer constants: name -> ast expr (per module, merged)
        self.funcs = {}         # qualified name -> (cls or None, FunctionDef)
        self.out = {}           # qualified name -> Gallina text
        self.deps = {}          # qualified name -> set of qualified names
        self.rettype = {}       # qualified name -> 'obj:<cls>' | None   (for freshness / operator dispatch)
        self.tmp = 0
        self._load()

    # ------------------------------------------------------------ loading
    def _load(self):
        num = 0
        trees = {}
        for path in {t[0] for t in TARGETS} | {e[0] for e in ENUMS}:
            trees[path] = ast.parse((self.repo / path).read_text())
        for path, cname in ENUMS:
            cd = self._find_class(trees[path], cname)
            num += 1
            ci = self.classes.setdefault(cname, ClassInfo(cname, num))
            ci.is_enum = True
            for st in cd.body:
                if isinstance(st, ast.Assign) and len(st.targets) == 1 and isinstance(st.targets[0], ast.Name):
                    v = st.value
                    if isinstance(v, ast.UnaryOp) and isinstance(v.op, ast.USub) and isinstance(v.operand, ast.Constant):
                        ci.members[st.targets[0].id] = -v.operand.value
                    elif isinstance(v, ast.Constant) and isinstance(v.value, int):
                        ci.members[st.targets[0].id] = v.value
                    else:
                        raise Unsupported(f'enum member {cname}.{st.targets[0].id}: value is not an integer literal')
        for path, cname, names in TARGETS:
            tree = trees[path]
            for st in tree.body:          # module-level integer constants (e.g. flags.py `_INVALID = 1 << 0`)
                if isinstance(st, ast.Assign) and len(st.targets) == 1 and isinstance(st.targets[0], ast.Name) \
                        and st.targets[0].id.startswith('_') and st.targets[0].id.isupper():
                    self.modconsts[st.targets[0].id] = st.value
            if cname is None:
                for st in tree.body:
                    if isinstance(st, ast.FunctionDef) and st.name in names:
                        self.funcs[st.name] = (None, st)
                missing = [n for n in names if n not in self.funcs]
                if missing:
                    raise Unsupported(f'{path}: functions not found: {missing}')
                continue
            cd = self._find_class(tree, cname)
            if cname not in self.classes:
                num += 1
                self.classes[cname] = ClassInfo(cname, num)
            ci = self.classes[cname]
            defs = {}
            for st in cd.body:
                if isinstance(st, ast.FunctionDef):
                    decos = [self._deco_name(d) for d in st.decorator_list]
                    if 'overload' in decos:
                        continue
                    if any(d.endswith('.setter') for d in decos):
                        continue
                    defs[st.name] = (st, decos)
            for n in names:
                if n not in defs:
                    raise Unsupported(f'{path}: {cname}.{n} not found')
                fd, decos = defs[n]
                extra = [d for d in decos if d not in ('property', 'staticmethod')]
                if extra:
                    raise Unsupported(f'{cname}.{n}: decorator {extra}')
                ci.methods[n] = fd
                if 'property' in decos:
                    ci.props.add(n)
                if 'staticmethod' in decos:
                    ci.static.add(n)
                self.funcs[f'{cname}.{n}'] = (cname, fd)
            # field order: assignment order of `self.<f> = ...` in __init__
            if '__init__' in ci.methods:
                for node in ast.walk(ci.methods['__init__']):
                    if isinstance(node, (ast.Assign, ast.AugAssign)):
                        tgts = node.targets if isinstance(node, ast.Assign) else [node.target]
                        for t in tgts:
                            if isinstance(t, ast.Attribute) and isinstance(t.value, ast.Name) and t.value.id == 'self' \
                                    and t.attr not in ci.fields:
                                ci.fields.append(t.attr)

    @staticmethod
    def _find_class(tree, cname):
        for st in tree.body:
            if isinstance(st, ast.ClassDef) and st.name == cname:
                return st
        raise Unsupported(f'class {cname} not found')

    @staticmethod
    def _deco_name(d):
        if isinstance(d, ast.Name):
            return d.id
        if isinstance(d, ast.Attribute):
            return (Translator._deco_name(d.value) + '.' + d.attr)
        return ast.dump(d)

    # ------------------------------------------------------------ naming
    @staticmethod
    def gname(q):
        return 'py_' + q.replace('.', '_')

    def fresh(self, base='t'):
        self.tmp += 1
        return f'{base}{self.tmp}'

    # ------------------------------------------------------------ lookup helpers
    def method_owner(self, name):
        owners = [c for c in self.classes.values() if name in c.methods]
        if len(owners) == 1:
            return owners[0]
        if not owners:
            return None
        raise Unsupported(f'method name {name} is defined by several translated classes')

    def field_owner(self, name, recv=None, env=None):
        owners = [c for c in self.classes.values() if name in c.fields]
        if len(owners) == 1:
            return owners[0]
        if not owners:
            return None
        # several classes have a field of this name: the receiver's class must be known
        ty = self.etype(recv, env) if recv is not None and env is not None else None
        if ty and ty.startswith('obj:') and self.classes[ty[4:]] in owners:
            return self.classes[ty[4:]]
        raise Unsupported(f'field name {name} is used by several translated classes and the receiver class is unknown')

    # ------------------------------------------------------------ expression typing (coarse; only to pick
    # between the int operator and the object's dunder method, and to decide freshness)
    def etype(self, e, env):
        if isinstance(e, ast.Name):
            return env.get(e.id, {}).get('type')
        if isinstance(e, ast.Constant):
            if isinstance(e.value, bool):
                return 'bool'
            if isinstance(e.value, int):
                return 'int'
            if e.value is None:
                return 'none'
        if isinstance(e, ast.Call):
            f = e.func
            if isinstance(f, ast.Name):
                if f.id in self.classes and not self.classes[f.id].is_enum:
                    return 'obj:' + f.id
                if f.id == 'abs' and len(e.args) == 1:
                    return self.etype(e.args[0], env)
                if f.id in ('max', 'min', 'len', 'int'):
                    return 'int'
                if f.id in self.funcs and self.funcs[f.id][0] is None:
                    return self.rettype.get(f.id)
            if isinstance(f, ast.Attribute):
                if f.attr == 'bit_length':
                    return 'int'
                ci = self.method_owner(f.attr)
                if ci is not None:
                    return self.rettype.get(f'{ci.name}.{f.attr}')
        if isinstance(e, ast.Attribute):
            ci = self.field_owner(e.attr, e.value, env)
            if ci is not None:
                return 'int?'      # a field: int or bool, never an object we dispatch on (flags aside)
            ci = self.method_owner(e.attr)
            if ci is not None and e.attr in ci.props:
                return self.rettype.get(f'{ci.name}.{e.attr}')
        if isinstance(e, ast.BinOp):
            return 'int'
        if isinstance(e, ast.UnaryOp):
            return 'bool' if isinstance(e.op, ast.Not) else self.etype(e.operand, env)
        if isinstance(e, (ast.Compare, ast.BoolOp)):
            return 'bool'
        if isinstance(e, ast.IfExp):
            a, b = self.etype(e.body, env), self.etype(e.orelse, env)
            return a if a == b else None
        return None

    def is_fresh(self, e, env):
        """Is the value of e an object no other name can refer to?"""
        if isinstance(e, ast.Call):
            f = e.func
            if isinstance(f, ast.Name) and f.id in self.classes:
                return True
            if isinstance(f, ast.Attribute):
                ci = self.method_owner(f.attr)
                if ci is not None and self.rettype.get(f'{ci.name}.{f.attr}:fresh'):
                    return True
        return False

    # ------------------------------------------------------------ expressions: returns Gallina term of type result val
    def pure(self, e, env):
        """A Gallina term of type val when e is a name / constant, else None."""
        if isinstance(e, ast.Name):
            if e.id in env:
                return env[e.id]['coq']
            return None
        if isinstance(e, ast.Constant):
            v = e.value
            if v is None:
                return 'VNone'
            if isinstance(v, bool):
                return '(VBool true)' if v else '(VBool false)'
            if isinstance(v, int):
                return f'(VInt ({v}))'
            return None
        if isinstance(e, ast.Attribute) and isinstance(e.value, ast.Name) and e.value.id in self.classes \
                and self.classes[e.value.id].is_enum and e.value.id not in env:
            ci = self.classes[e.value.id]
            if e.attr in ci.members:
                return f'{ci.name}_{e.attr}'
        return None

    def with_vals(self, exprs, env, k, deps):
        """Evaluate exprs left to right, binding non-pure ones to temporaries; k(list of val terms) -> term."""
        binds, terms = [], []
        for e in exprs:
            p = self.pure(e, env)
            if p is not None:
                terms.append(p)
            else:
                t = self.fresh()
                binds.append((t, self.expr(e, env, deps)))
                terms.append(t)
        body = k(terms)
        for t, tm in reversed(binds):
            body = f'(LET {t} <- {tm} IN {body})'
        return body

    def expr(self, e, env, deps):
        p = self.pure(e, env)
        if p is not None:
            return f'(Ok {p})'
        if isinstance(e, ast.Name):
            if e.id in self.modconsts:
                return self.expr(self.modconsts[e.id], {}, deps)
            if e.id in self.cur_locals:
                # a local that is not bound on this path: Python raises UnboundLocalError (a NameError)
                return '(Err NameErr)'
            raise Unsupported(f'unknown name {e.id} (line {e.lineno})')
        if isinstance(e, ast.BinOp):
            if type(e.op) not in BINOPS:
                raise Unsupported(f'operator {type(e.op).__name__} (line {e.lineno})')
            return self.with_vals([e.left, e.right], env, lambda t: f'({BINOPS[type(e.op)]} {t[0]} {t[1]})', deps)
        if isinstance(e, ast.UnaryOp):
            if isinstance(e.op, ast.Not):
                return self.with_vals([e.operand], env, lambda t: f'(py_not {t[0]})', deps)
            if isinstance(e.op, ast.USub):
                ty = self.etype(e.operand, env)
                if ty and ty.startswith('obj:'):
                    return self.call_method(ty[4:], '__neg__', [e.operand], env, deps, e)
                return self.with_vals([e.operand], env, lambda t: f'(py_neg {t[0]})', deps)
            raise Unsupported(f'unary operator {type(e.op).__name__} (line {e.lineno})')
        if isinstance(e, ast.BoolOp):
            kw = 'AND' if isinstance(e.op, ast.And) else 'OR'
            mid = 'THEN' if kw == 'AND' else 'ELSE'
            acc = self.expr(e.values[-1], env, deps)
            for v in reversed(e.values[:-1]):
                acc = f'({kw} {self.expr(v, env, deps)} {mid} {acc})'
            return acc
        if isinstance(e, ast.IfExp):
            return f'(IF {self.expr(e.test, env, deps)} THEN {self.expr(e.body, env, deps)} ELSE {self.expr(e.orelse, env, deps)})'
        if isinstance(e, ast.Compare):
            if len(e.ops) != 1:
                raise Unsupported(f'chained comparison (line {e.lineno})')
            op, l, r = e.ops[0], e.left, e.comparators[0]
            if isinstance(op, (ast.Is, ast.IsNot)):
                if not (isinstance(r, ast.Constant) and r.value is None):
                    raise Unsupported(f'`is` against something other than None (line {e.lineno})')
                fn = 'py_is_none' if isinstance(op, ast.Is) else 'py_is_not_none'
                return self.with_vals([l], env, lambda t: f'({fn} {t[0]})', deps)
            if type(op) not in CMPOPS:
                raise Unsupported(f'comparison {type(op).__name__} (line {e.lineno})')
            lt, rt = self.etype(l, env), self.etype(r, env)
            if (lt and lt.startswith('obj:')) or (rt and rt.startswith('obj:')):
                cls = (lt if lt and lt.startswith('obj:') else rt)[4:]
                if not (lt and lt.startswith('obj:')):
                    raise Unsupported(f'comparison with an object on the right only (line {e.lineno})')
                return self.call_method(cls, CMP_DUNDER[type(op)], [l, r], env, deps, e)
            return self.with_vals([l, r], env, lambda t: f'({CMPOPS[type(op)]} {t[0]} {t[1]})', deps)
        if isinstance(e, ast.Tuple):
            return self.with_vals(list(e.elts), env, lambda t: f'(Ok (VTup [{"; ".join(t)}]))', deps)
        if isinstance(e, ast.Attribute):
            return self.attribute(e, env, deps)
        if isinstance(e, ast.Call):
            return self.call(e, env, deps)
        raise Unsupported(f'expression {type(e).__name__} (line {getattr(e, "lineno", "?")})')

    def attribute(self, e, env, deps):
        # enum member handled in pure(); here: field or property of an object
        ci = self.field_owner(e.attr, e.value, env)
        if ci is not None:
            i = ci.fields.index(e.attr)
            return self.with_vals([e.value], env, lambda t: f'(py_getfield cls_{ci.name} fld_{ci.name}_{e.attr} {t[0]})', deps)
        ci = self.method_owner(e.attr)
        if ci is not None and e.attr in ci.props:
            return self.call_method(ci.name, e.attr, [e.value], env, deps, e)
        raise Unsupported(f'attribute .{e.attr} (line {e.lineno})')

    def bind_args(self, q, fd, skip_self, args, keywords, env, deps, k, node):
        """Match call arguments against the signature of fd; k(list of val terms in parameter order)."""
        a = fd.args
        if a.vararg or a.kwarg or a.posonlyargs:
            raise Unsupported(f'{q}: *args/**kwargs/positional-only parameters')
        pos = list(a.args)
        posdef = [None] * (len(pos) - len(a.defaults)) + list(a.defaults)
        params = [(p.arg, d) for p, d in zip(pos, posdef)] + [(p.arg, d) for p, d in zip(a.kwonlyargs, a.kw_defaults)]
        if skip_self:
            params = params[1:]
        npos = len(pos) - (1 if skip_self else 0)
        if len(args) > npos:
            raise Unsupported(f'{q}: too many positional arguments (line {node.lineno})')
        given = {}
        for (name, _), arg in zip(params, args):
            given[name] = arg
        for kw in keywords:
            if kw.arg is None or kw.arg in given or kw.arg not in [p[0] for p in params]:
                raise Unsupported(f'{q}: keyword argument {kw.arg} (line {node.lineno})')
            given[kw.arg] = kw.value
        # Python evaluates the given arguments in source order (positional, then keywords as written); do the same,
        # then hand the values over in parameter order.  Defaults are constants / enum members (pure).
        src = list(args) + [kw.value for kw in keywords]
        src_names = [n for (n, _), _a in zip(params, args)] + [kw.arg for kw in keywords]

        def k2(terms):
            got = dict(zip(src_names, terms))
            out = []
            for name, d in params:
                if name in got:
                    out.append(got[name])
                elif d is not None:
                    pd = self.pure(d, {})
                    if pd is None:
                        raise Unsupported(f'{q}: default value of {name} is not a constant')
                    out.append(pd)
                else:
                    raise Unsupported(f'{q}: missing argument {name} (line {node.lineno})')
            return k(out)
        return self.with_vals(src, env, k2, deps)

    def call_method(self, cname, mname, args, env, deps, node, keywords=()):
        """args[0] is the receiver expression."""
        q = f'{cname}.{mname}'
        if (cname, mname) in ORACLES:
            return self.with_vals(args, env, lambda t: f'({ORACLES[(cname, mname)]} {" ".join(t)})', deps)
        if q not in self.funcs:
            raise Unsupported(f'call of untranslated method {q} (line {node.lineno})')
        if q == self.cur_q:
            raise Unsupported(f'recursive call of {q} (line {node.lineno})')
        deps.add(q)
        fd = self.funcs[q][1]
        recv = args[0]
        return self.with_vals([recv], env, lambda r: self.bind_args(
            q, fd, True, args[1:], list(keywords), env, deps,
            lambda t: f'({self.gname(q)} {r[0]} {" ".join(t)})' if t else f'({self.gname(q)} {r[0]})', node), deps)

    def call(self, e, env, deps):
        f = e.func
        if isinstance(f, ast.Name):
            n = f.id
            if n in env:
                raise Unsupported(f'call of a local value {n} (line {e.lineno})')
            if n in self.classes and not self.classes[n].is_enum:
                q = f'{n}.__init__'
                if q not in self.funcs:
                    raise Unsupported(f'constructor of {n} not translated (line {e.lineno})')
                deps.add(q)
                return self.bind_args(q, self.funcs[q][1], True, e.args, e.keywords, env, deps,
                                      lambda t: f'({self.gname(q)} {" ".join(t)})', e)
            if n in self.funcs and self.funcs[n][0] is None:
                deps.add(n)
                return self.bind_args(n, self.funcs[n][1], False, e.args, e.keywords, env, deps,
                                      lambda t: f'({self.gname(n)} {" ".join(t)})', e)
            if e.keywords:
                raise Unsupported(f'keyword arguments to builtin {n} (line {e.lineno})')
            if n == 'isinstance' and len(e.args) == 2:
                return self.isinstance_(e.args[0], e.args[1], env, deps, e)
            if n in ('max', 'min') and len(e.args) == 2:
                return self.with_vals(e.args, env, lambda t: f'(py_{n} {t[0]} {t[1]})', deps)
            if n == 'abs' and len(e.args) == 1:
                ty = self.etype(e.args[0], env)
                if ty and ty.startswith('obj:'):
                    return self.call_method(ty[4:], '__abs__', [e.args[0]], env, deps, e)
                if ty in ('int', 'int?', 'bool'):
                    return self.with_vals(e.args, env, lambda t: f'(py_abs_int {t[0]})', deps)
                raise Unsupported(f'abs() of an operand of unknown type (line {e.lineno})')
            if n == 'bool' and len(e.args) == 1:
                return self.with_vals(e.args, env, lambda t: f'(py_bool {t[0]})', deps)
            raise Unsupported(f'call of {n} (line {e.lineno})')
        if isinstance(f, ast.Attribute):
            # ClassName.static_method(...)
            if isinstance(f.value, ast.Name) and f.value.id in self.classes and f.value.id not in env:
                ci = self.classes[f.value.id]
                q = f'{ci.name}.{f.attr}'
                if f.attr in ci.static and q in self.funcs:
                    deps.add(q)
                    return self.bind_args(q, self.funcs[q][1], False, e.args, e.keywords, env, deps,
                                          lambda t: f'({self.gname(q)} {" ".join(t)})', e)
                raise Unsupported(f'{q}: not a translated static method (line {e.lineno})')
            if f.attr == 'bit_length' and not e.args and not e.keywords:
                return self.with_vals([f.value], env, lambda t: f'(py_bit_length {t[0]})', deps)
            ci = self.method_owner(f.attr)
            if ci is None and any((c.name, f.attr) in ORACLES for c in self.classes.values()):
                ci = [c for c in self.classes.values() if (c.name, f.attr) in ORACLES][0]
                return self.call_method(ci.name, f.attr, [f.value] + list(e.args), env, deps, e)
            if ci is None:
                raise Unsupported(f'call of untranslated method .{f.attr} (line {e.lineno})')
            if f.attr in ci.props:
                raise Unsupported(f'call of a property .{f.attr} (line {e.lineno})')
            if f.attr in ci.static:
                raise Unsupported(f'static method {f.attr} called through an instance (line {e.lineno})')
            return self.call_method(ci.name, f.attr, [f.value] + list(e.args), env, deps, e, e.keywords)
        raise Unsupported(f'call (line {e.lineno})')

    def class_test(self, clsexpr, node):
        """Gallina function val -> result val testing membership in the class named by clsexpr."""
        if isinstance(clsexpr, ast.BinOp) and isinstance(clsexpr.op, ast.BitOr):
            raise Unsupported(f'union of classes in isinstance (line {node.lineno})')
        if not isinstance(clsexpr, ast.Name):
            raise Unsupported(f'isinstance against {ast.dump(clsexpr)} (line {node.lineno})')
        n = clsexpr.id
        if n == 'int':
            return 'py_isinstance_int'
        if n == 'bool':
            return 'py_isinstance_bool'
        if n in self.classes:
            return f'(py_isinstance_cls cls_{n})'
        if n in FOREIGN_CLASSES:
            return 'py_isinstance_never'
        raise Unsupported(f'isinstance against unknown class {n} (line {node.lineno})')

    def isinstance_(self, x, clsexpr, env, deps, node):
        t = self.class_test(clsexpr, node)
        return self.with_vals([x], env, lambda v: f'({t} {v[0]})', deps)

    # ------------------------------------------------------------ patterns
    def pattern(self, pat, subj, node):
        """Gallina term of type result val (a bool) testing val term `subj` against pat; no captures."""
        if isinstance(pat, ast.MatchAs):
            if pat.pattern is None and pat.name is None:
                return '(Ok (VBool true))'
            raise Unsupported(f'capture pattern (line {pat.lineno})')
        if isinstance(pat, ast.MatchSingleton):
            v = 'VNone' if pat.value is None else ('(VBool true)' if pat.value else '(VBool false)')
            if pat.value is None:
                return f'(py_is_none {subj})'
            # `case True:` matches by identity: only the bool
            return f'(match {subj} with VBool b => Ok (VBool (Bool.eqb b {"true" if pat.value else "false"})) | _ => Ok (VBool false) end)'
        if isinstance(pat, ast.MatchValue):
            p = self.pure(pat.value, {})
            if p is None:
                raise Unsupported(f'value pattern (line {pat.lineno})')
            if p.startswith('(VInt') or '_' in p and not p.startswith('('):
                # ints compare by ==; enum members by ==
                return f'(match {subj} with VObj _ _ | VTup _ => Ok (VBool false) | _ => py_eq {subj} {p} end)'
            raise Unsupported(f'value pattern (line {pat.lineno})')
        if isinstance(pat, ast.MatchClass):
            if pat.patterns or pat.kwd_patterns:
                raise Unsupported(f'class pattern with sub-patterns (line {pat.lineno})')
            return f'({self.class_test(pat.cls, pat)} {subj})'
        if isinstance(pat, ast.MatchSequence):
            n = len(pat.patterns)
            names = [self.fresh('m') for _ in range(n)]
            tests = [self.pattern(p, nm, node) for p, nm in zip(pat.patterns, names)]
            acc = tests[-1] if tests else '(Ok (VBool true))'
            for t in reversed(tests[:-1]):
                acc = f'(AND {t} THEN {acc})'
            return (f'(match {subj} with VTup [{"; ".join(names)}] => {acc} | _ => Ok (VBool false) end)')
        if isinstance(pat, ast.MatchOr):
            tests = [self.pattern(p, subj, node) for p in pat.patterns]
            acc = tests[-1]
            for t in reversed(tests[:-1]):
                acc = f'(OR {t} ELSE {acc})'
            return acc
        raise Unsupported(f'pattern {type(pat).__name__} (line {pat.lineno})')

    # ------------------------------------------------------------ statements
    def block(self, stmts, env, F):
        """Translate the statement list (with everything after it already appended) to a term."""
        if not stmts:
            if 'end_envs' in F:
                F['end_envs'].append(env)
            return F['fallthrough']
        st, rest = stmts[0], stmts[1:]
        deps = F['deps']
        if isinstance(st, ast.Expr):
            if isinstance(st.value, ast.Constant):
                return self.block(rest, env, F)        # docstring
            raise Unsupported(f'expression statement (line {st.lineno})')
        if isinstance(st, ast.Pass):
            return self.block(rest, env, F)
        if isinstance(st, ast.Return):
            if st.value is None:
                return '(Ok VNone)'
            F['returns'].append((st.value, dict(env)))
            return self.expr(st.value, env, deps)
        if isinstance(st, ast.Raise):
            exc = st.exc
            name = None
            if isinstance(exc, ast.Call) and isinstance(exc.func, ast.Name):
                name = exc.func.id
            elif isinstance(exc, ast.Name):
                name = exc.id
            if name is None:
                raise Unsupported(f'raise (line {st.lineno})')
            return f'(Err {EXC_KIND.get(name, "OtherErr")})'
        if isinstance(st, ast.Assert):
            return f'(IF {self.expr(st.test, env, deps)} THEN {self.block(rest, env, F)} ELSE (Err AssertErr))'
        if isinstance(st, ast.AnnAssign):
            if st.value is None:
                return self.block(rest, env, F)
            st = ast.Assign(targets=[st.target], value=st.value, lineno=st.lineno)
        if isinstance(st, ast.AugAssign):
            if type(st.op) not in BINOPS:
                raise Unsupported(f'augmented operator (line {st.lineno})')
            load = ast.copy_location(ast.fix_missing_locations(
                ast.parse(ast.unparse(st.target), mode='eval').body), st)
            val = ast.BinOp(left=load, op=st.op, right=st.value, lineno=st.lineno)
            st = ast.Assign(targets=[st.target], value=val, lineno=st.lineno)
        if isinstance(st, ast.Assign):
            if len(st.targets) != 1:
                raise Unsupported(f'chained assignment (line {st.lineno})')
            tgt = st.targets[0]
            if isinstance(tgt, ast.Name):
                ty = self.etype(st.value, env)
                fresh = self.is_fresh(st.value, env)
                if isinstance(st.value, ast.Name) and st.value.id in env:
                    # alias of another name: neither is fresh any more
                    env = dict(env)
                    env[st.value.id] = dict(env[st.value.id], fresh=False)
                tm = self.expr(st.value, env, deps)
                env2 = dict(env)
                cn = 'v_' + tgt.id
                env2[tgt.id] = {'coq': cn, 'type': ty, 'fresh': fresh}
                return f'(LET {cn} <- {tm} IN {self.block(rest, env2, F)})'
            if isinstance(tgt, ast.Tuple):
                if not all(isinstance(x, ast.Name) for x in tgt.elts) or len(tgt.elts) not in (2, 3):
                    raise Unsupported(f'tuple target (line {st.lineno})')
                tm = self.expr(st.value, env, deps)
                tys = self.tuple_types(st.value, env, len(tgt.elts))
                env2 = dict(env)
                names = []
                for x, (ty, fr) in zip(tgt.elts, tys):
                    cn = '_' if x.id == '_' else 'v_' + x.id
                    names.append(cn)
                    if x.id != '_':
                        env2[x.id] = {'coq': cn, 'type': ty, 'fresh': fr}
                t, p = self.fresh(), self.fresh('p')
                n = len(names)
                patt = "'(" + ', '.join(names) + ')'
                return (f'(LET {t} <- {tm} IN LET {p} <- py_unpack{n} {t} IN let {patt} := {p} in '
                        f'{self.block(rest, env2, F)})')
            if isinstance(tgt, ast.Attribute) and isinstance(tgt.value, ast.Name):
                obj = tgt.value.id
                if obj not in env:
                    raise Unsupported(f'attribute store on unknown name {obj} (line {st.lineno})')
                if not env[obj].get('fresh'):
                    raise Unsupported(f'attribute store on {obj}, which is not provably a fresh object (line {st.lineno})')
                ci = self.field_owner(tgt.attr, tgt.value, env)
                if ci is None:
                    raise Unsupported(f'store to unknown field {tgt.attr} (line {st.lineno})')
                i = ci.fields.index(tgt.attr)
                cn = env[obj]['coq']
                body = self.with_vals([st.value], env,
                                      lambda t: f'(py_setfield cls_{ci.name} fld_{ci.name}_{tgt.attr} {cn} {t[0]})', deps)
                return f'(LET {cn} <- {body} IN {self.block(rest, env, F)})'
            raise Unsupported(f'assignment target (line {st.lineno})')
        if isinstance(st, ast.If) and rest and not any(isinstance(n, ast.Return) for a in (st.body, st.orelse)
                                                     for x in a for n in ast.walk(x)):
            j = self.join_if(st, rest, env, F)
            if j is not None:
                return j
        if isinstance(st, ast.If):
            c = self.expr(st.test, env, deps)
            a = self.arm(st.body + rest, env, F, st.test)
            b = self.arm(st.orelse + rest, env, F, None)
            return f'(IF {c} THEN {a} ELSE {b})'
        if isinstance(st, ast.Match):
            subj = self.fresh('s')
            subj_tm = self.expr(st.subject, env, deps)
            cases = list(st.cases)
            if cases and isinstance(cases[-1].pattern, ast.MatchAs) and cases[-1].pattern.pattern is None \
                    and cases[-1].pattern.name is None and cases[-1].guard is None:
                acc = self.arm(cases[-1].body + rest, env, F, None)     # irrefutable last case
                cases = cases[:-1]
            else:
                acc = self.block(rest, env, F)          # no case matched: fall through
            for case in reversed(cases):
                if case.guard is not None:
                    raise Unsupported(f'guarded case (line {case.pattern.lineno})')
                test = self.pattern(case.pattern, subj, st)
                body = self.arm(case.body + rest, env, F, case.pattern)
                acc = f'(IF {test} THEN {body} ELSE {acc})'
            return f'(LET {subj} <- {subj_tm} IN {acc})'
        raise Unsupported(f'statement {type(st).__name__} (line {st.lineno})')

    def join_if(self, st, rest, env, F):
        """`if` whose arms cannot return: translate the arms once, joining the variables they (re)bind, instead of
        duplicating the continuation.  Returns None when some joined variable is unbound at the end of an arm
        (then the caller falls back to duplication, which models the UnboundLocalError exactly)."""
        names = []
        for a in (st.body, st.orelse):
            for x in a:
                for n in ast.walk(x):
                    if isinstance(n, ast.Name) and isinstance(n.ctx, ast.Store) and n.id != '_' and n.id not in names:
                        names.append(n.id)
                    if isinstance(n, ast.Attribute) and isinstance(n.ctx, ast.Store) and isinstance(n.value, ast.Name) \
                            and n.value.id not in names:
                        names.append(n.value.id)
        if not names:
            return None
        names.sort()
        coq = ['v_' + n for n in names]
        tup = f'(Ok (VTup [{"; ".join(coq)}]))' if len(names) > 1 else f'(Ok {coq[0]})'
        F2 = dict(F, fallthrough=tup, end_envs=[])
        c = self.expr(st.test, env, F['deps'])
        try:
            a = self.block(list(st.body), env, F2)
            b = self.block(list(st.orelse), env, F2)
        except Unsupported:
            return None
        ends = F2['end_envs']
        if not ends or any(n not in e for e in ends for n in names):
            return None
        env2 = dict(env)
        for n in names:
            tys = {e[n].get('type') for e in ends}
            env2[n] = {'coq': 'v_' + n, 'type': tys.pop() if len(tys) == 1 else None,
                       'fresh': all(e[n].get('fresh') for e in ends)}
        k = self.block(rest, env2, F)
        j = self.fresh('j')
        ite = f'(IF {c} THEN {a} ELSE {b})'
        if len(names) == 1:
            return f'(LET {coq[0]} <- {ite} IN {k})'
        return (f'(LET {j} <- {ite} IN match {j} with VTup [{"; ".join(coq)}] => {k} | _ => Err TypeErr end)')

    def arm(self, stmts, env, F, guard):
        """An arm of an if/match; in the functions of PARTIAL_ARMS an arm guarded by a class test over a type
        the universe does not model may be left explicitly unmodelled."""
        try:
            return self.block(stmts, env, F)
        except Unsupported as ex:
            if F['q'] in PARTIAL_ARMS and guard is not None and self.is_class_guard(guard):
                F['unmodelled'].append(str(ex))
                return 'unmodelled'
            raise

    @staticmethod
    def is_class_guard(g):
        if isinstance(g, ast.MatchClass):
            return True
        if isinstance(g, ast.Call) and isinstance(g.func, ast.Name) and g.func.id == 'isinstance':
            return True
        return False

    def tuple_types(self, e, env, n):
        if isinstance(e, ast.Tuple) and len(e.elts) == n:
            return [(self.etype(x, env), self.is_fresh(x, env)) for x in e.elts]
        if isinstance(e, ast.Call) and isinstance(e.func, ast.Attribute):
            ci = self.method_owner(e.func.attr)
            if ci is not None:
                tt = self.rettype.get(f'{ci.name}.{e.func.attr}:tuple')
                if tt and len(tt) == n:
                    return tt
        return [(None, False)] * n

    # ------------------------------------------------------------ functions
    def function(self, q):
        cname, fd = self.funcs[q]
        a = fd.args
        if a.vararg or a.kwarg or a.posonlyargs:
            raise Unsupported(f'{q}: *args/**kwargs')
        env = {}
        params = []
        is_init = cname is not None and fd.name == '__init__'
        is_static = cname is not None and fd.name in self.classes[cname].static
        for i, p in enumerate(list(a.args) + list(a.kwonlyargs)):
            cn = 'v_' + p.arg
            ty = None
            if i == 0 and cname is not None and not is_static:
                ty = ('enum:' if self.classes[cname].is_enum else 'obj:') + cname
            elif (q, p.arg) in PARAM_TYPES:
                ty = PARAM_TYPES[(q, p.arg)]
            elif p.annotation is not None:
                s = ast.unparse(p.annotation)
                if s in ('int', 'int | None'):
                    ty = 'int'
                elif s in ('bool', 'bool | None'):
                    ty = 'bool'
                elif s.strip("'") in self.classes and not self.classes[s.strip("'")].is_enum:
                    ty = 'obj:' + s.strip("'")
                elif s in ('Self', 'Self | None') and cname:
                    ty = 'obj:' + cname
            env[p.arg] = {'coq': cn, 'type': ty, 'fresh': False}
            if not (is_init and i == 0):
                params.append(cn)
        F = {'q': q, 'deps': set(), 'returns': [], 'unmodelled': [], 'fallthrough': '(Ok VNone)'}
        pre = ''
        if is_init:
            ci = self.classes[cname]
            env['self'] = {'coq': 'v_self', 'type': 'obj:' + cname, 'fresh': True}
            F['fallthrough'] = '(Ok v_self)'
            init = f'(VObj {ci.num} [{"; ".join(["VNone"] * len(ci.fields))}])'
            pre = f'let v_self := {init} in '
        self.tmp = 0
        self.cur_q = q
        self.cur_locals = {n.id for n in ast.walk(fd) if isinstance(n, ast.Name) and isinstance(n.ctx, ast.Store)}
        body = self.block(list(fd.body), env, F)
        self.deps[q] = F['deps'] - {q}
        if q in F['deps']:
            raise Unsupported(f'{q}: recursive')
        # return type summary
        if is_init:
            self.rettype[q] = 'obj:' + cname
        else:
            tys = {self.etype(e, en) for e, en in F['returns']}
            if len(tys) == 1:
                self.rettype[q] = tys.pop()
            fr = [self.is_fresh(e, en) or (isinstance(e, ast.Name) and en.get(e.id, {}).get('fresh', False))
                  for e, en in F['returns']]
            if fr and all(fr):
                self.rettype[q + ':fresh'] = True
            tup = []
            for e, en in F['returns']:
                if isinstance(e, ast.Tuple):
                    tup.append([(self.etype(x, en), self.is_fresh(x, en) or
                                 (isinstance(x, ast.Name) and en.get(x.id, {}).get('fresh', False))) for x in e.elts])
                else:
                    tup = None
                    break
            if tup:
                n = len(tup[0])
                if all(len(t) == n for t in tup):
                    self.rettype[q + ':tuple'] = [
                        (tup[0][i][0] if all(t[i][0] == tup[0][i][0] for t in tup) else None,
                         all(t[i][1] for t in tup)) for i in range(n)]
        args = ' '.join(f'({p} : val)' for p in params)
        note = ''
        if F['unmodelled']:
            note = '(* arms left unmodelled: ' + ' | '.join(sorted(set(F['unmodelled']))).replace('*)', '* )') + ' *)\n'
        src = f'{self.funcs[q][1].lineno}'
        self.out[q] = (f'(* {q} (source line {src}) *)\n{note}'
                       f'Definition {self.gname(q)} {args} : result val :=\n  {pre}{body}.\n')

    def order(self):
        """Definition order: dependencies first; translation itself discovers dependencies, so iterate."""
        done, order = set(), []

        def visit(q, stack):
            if q in done:
                return
            if q in stack:
                raise Unsupported(f'recursion through {q}')
            # translate with the return types known so far; dependencies are discovered by translating
            for _ in range(4):
                self.function(q)
                missing = [d for d in self.deps[q] if d not in done]
                if not missing:
                    break
                for d in missing:
                    visit(d, stack | {q})
            done.add(q)
            order.append(q)

        for q in list(self.funcs):
            visit(q, set())
        return order

    def translate(self):
        order = self.order()
        lines = ['(* GENERATED by /verif/translate/py2v.py from the working tree of the repository -- do not edit. *)',
                 'From Coq Require Import ZArith List Bool.',
                 'From FpyV Require Import Num.RealFloat Py.PyRt.',
                 'Import ListNotations.', 'Open Scope Z_scope.', '']
        for c in self.classes.values():
            lines.append(f'Definition cls_{c.name} : Z := {c.num}.')
            if c.is_enum:
                for m, v in c.members.items():
                    lines.append(f'Definition {c.name}_{m} : val := VEnum {c.num} ({v}).')
            if c.fields:
                for i, f in enumerate(c.fields):
                    lines.append(f'Definition fld_{c.name}_{f} : nat := {i}%nat.')
                srt = sorted(c.fields)
                lines.append(f'Definition mk_{c.name} ' + ' '.join(f'(f{f} : val)' for f in srt) + ' : val := '
                             f'VObj {c.num} [' + '; '.join(f'f{f}' for f in c.fields) + '].')
        lines.append('')
        lines.append('(* oracle: RealFloat._generate_randbits(rng, k) -- the drawn integer is the model argument `rng` *)')
        lines.append('Definition oracle_randbits (self rng k : val) : result val := '
                     'match rng with VInt _ => Ok rng | _ => Err TypeErr end.')
        lines.append('')
        for q in order:
            lines.append(self.out[q])
        return '\n'.join(lines)


def translate(repo):
    return Translator(repo).translate()


if __name__ == '__main__':
    import sys
    print(translate(sys.argv[1] if len(sys.argv) > 1 else '/repo'))
