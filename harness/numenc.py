"""Wire encoders (flat integer lists, see coq/Num/Decode.v) for number values,
contexts and rounding outcomes; and constructors of fpy2 contexts from the same
descriptors."""
from fractions import Fraction

RM = ['RNE', 'RNA', 'RTP', 'RTN', 'RTZ', 'RAZ', 'RTO', 'RTE']
OVM = ['OVERFLOW', 'SATURATE', 'WRAP', 'ASSERT']
NK = ['IEEE_754', 'MAX_VAL', 'NEG_ZERO', 'NONE']
ERRC = {'ValueError': 0, 'OverflowError': 1, 'TypeError': 2, 'IndexError': 3, 'AssertionError': 4,
        'NameError': 5, 'KeyError': 5}


def e_bool(b):
    return [1 if b else 0]


def e_opt(x, f=lambda v: [v]):
    return [0] if x is None else [1] + f(x)


def e_rf3(s, exp, c):
    return [1 if s else 0, exp, c]


def e_rf(x):
    return e_rf3(x._s, x._exp, x._c)


def e_fl(x):
    """fpy2 Float (or a (tag, s, exp, c) tuple)."""
    if isinstance(x, tuple):
        t = x[0]
        if t == 'fin':
            return [0] + e_rf3(x[1], x[2], x[3])
        return [1 if t == 'inf' else 2, 1 if x[1] else 0]
    if x.isnan:
        return [2, 1 if x.s else 0]
    if x.isinf:
        return [1, 1 if x.s else 0]
    return [0] + e_rf3(x.s, x.exp, x.c)


def e_flags(f):
    return [int(bool(v)) for v in (f.invalid, f.divzero, f.overflow, f.tiny_pre, f.tiny_post, f.inexact, f.carry)]


def e_err(e):
    return [1, ERRC.get(type(e).__name__, 6)]


def e_float_result(r):
    """Float result with its flags, or an exception."""
    if isinstance(r, BaseException):
        return e_err(r)
    return [0] + e_fl(r) + e_flags(r._real._flags)


def e_real_result(r):
    if isinstance(r, BaseException):
        return e_err(r)
    return [0] + e_rf(r) + e_flags(r._flags)


def e_sp(d):
    return (e_bool(d.get('enable_nan', True)) + e_bool(d.get('enable_inf', True)) +
            e_opt(d.get('nan_value'), e_fl) + e_opt(d.get('inf_value'), e_fl))


def e_ctx(d):
    """Context descriptor (dict) -> wire list."""
    k = d['kind']
    rm = [RM.index(d.get('rm', 'RNE'))]
    ov = [OVM.index(d.get('ov', 'OVERFLOW'))]
    kb = e_opt(d.get('k', 0))
    if k == 'real':
        return [0]
    if k == 'mpfloat':
        return [1, d['p']] + rm + kb + e_sp(d)
    if k == 'mpsfloat':
        return [2, d['p'], d['emin']] + rm + kb + e_sp(d)
    if k == 'mpbfloat':
        pm = d['maxval']
        nm = d.get('neg_maxval') or (True, pm[1], pm[2])
        return [3, d['p'], d['emin']] + e_rf3(*pm) + e_rf3(*nm) + rm + ov + kb + e_sp(d)
    if k == 'efloat':
        return ([4, d['es'], d['nbits']] + e_bool(d['enable_inf']) + [NK.index(d['nk']), d['eoffset']] + rm + ov + kb +
                e_opt(d.get('nan_value'), e_fl) + e_opt(d.get('inf_value'), e_fl))
    if k == 'mpfixed':
        sp = dict(d)
        sp.setdefault('enable_nan', False)
        sp.setdefault('enable_inf', False)
        return [5, d['nmin']] + rm + kb + e_sp(sp) + e_bool(d.get('neg_zero', True))
    if k == 'mpbfixed':
        sp = dict(d)
        sp.setdefault('enable_nan', False)
        sp.setdefault('enable_inf', False)
        pm = d['maxval']
        nm = d.get('neg_maxval') or (True, pm[1], pm[2])
        return [6, d['nmin']] + e_rf3(*pm) + e_rf3(*nm) + rm + ov + kb + e_sp(sp) + e_bool(d.get('neg_zero', True))
    if k == 'fixed':
        return ([7] + e_bool(d['signed']) + [d['scale'], d['nbits']] + rm + ov + kb +
                e_opt(d.get('nan_value'), e_fl) + e_opt(d.get('inf_value'), e_fl))
    if k == 'smfixed':
        return ([8, d['scale'], d['nbits']] + rm + ov + kb +
                e_opt(d.get('nan_value'), e_fl) + e_opt(d.get('inf_value'), e_fl))
    if k == 'exp':
        return [9, d['nbits'], d['eoffset']] + rm + ov + e_opt(d.get('inf_value'), e_fl)
    raise ValueError(k)


def mk_float(t):
    """(tag, s, exp, c) -> fpy2 Float"""
    from fpy2.number import Float
    if t is None:
        return None
    if t[0] == 'fin':
        return Float(s=t[1], exp=t[2], c=t[3])
    if t[0] == 'inf':
        return Float(isinf=True, s=t[1])
    return Float(isnan=True, s=t[1])


def mk_ctx(d, rng=None):
    """Context descriptor -> fpy2 context object (may raise: invalid combination)."""
    import fpy2 as fp
    from fpy2.number import RealFloat
    from fpy2.number import RM as FRM, OV as FOV
    k = d['kind']
    rm = getattr(FRM, d.get('rm', 'RNE'))
    ov = getattr(FOV, d.get('ov', 'OVERFLOW'))
    kb = d.get('k', 0)
    nv, iv = mk_float(d.get('nan_value')), mk_float(d.get('inf_value'))
    if k == 'real':
        return fp.RealContext()
    if k == 'mpfloat':
        return fp.MPFloatContext(d['p'], rm, kb, rng=rng, enable_nan=d.get('enable_nan', True),
                                 enable_inf=d.get('enable_inf', True), nan_value=nv, inf_value=iv)
    if k == 'mpsfloat':
        return fp.MPSFloatContext(d['p'], d['emin'], rm, kb, rng=rng, enable_nan=d.get('enable_nan', True),
                                  enable_inf=d.get('enable_inf', True), nan_value=nv, inf_value=iv)
    if k == 'mpbfloat':
        pm = RealFloat(*d['maxval'])
        nm = RealFloat(*d['neg_maxval']) if d.get('neg_maxval') else None
        return fp.MPBFloatContext(d['p'], d['emin'], pm, rm, ov, kb, neg_maxval=nm, rng=rng,
                                  enable_nan=d.get('enable_nan', True), enable_inf=d.get('enable_inf', True),
                                  nan_value=nv, inf_value=iv)
    if k == 'efloat':
        from fpy2.number.context.efloat import EFloatNanKind
        return fp.EFloatContext(d['es'], d['nbits'], d['enable_inf'], getattr(EFloatNanKind, d['nk']), d['eoffset'],
                                rm, ov, kb, rng=rng, nan_value=nv, inf_value=iv)
    if k == 'mpfixed':
        return fp.MPFixedContext(d['nmin'], rm, kb, rng=rng, enable_nan=d.get('enable_nan', False),
                                 enable_inf=d.get('enable_inf', False), enable_neg_zero=d.get('neg_zero', True),
                                 nan_value=nv, inf_value=iv)
    if k == 'mpbfixed':
        pm = RealFloat(*d['maxval'])
        nm = RealFloat(*d['neg_maxval']) if d.get('neg_maxval') else None
        return fp.MPBFixedContext(d['nmin'], pm, rm, ov, kb, neg_maxval=nm, rng=rng,
                                  enable_nan=d.get('enable_nan', False), enable_inf=d.get('enable_inf', False),
                                  enable_neg_zero=d.get('neg_zero', True), nan_value=nv, inf_value=iv)
    if k == 'fixed':
        return fp.FixedContext(d['signed'], d['scale'], d['nbits'], rm, ov, kb, rng=rng, nan_value=nv, inf_value=iv)
    if k == 'smfixed':
        return fp.SMFixedContext(d['scale'], d['nbits'], rm, ov, kb, rng=rng, nan_value=nv, inf_value=iv)
    if k == 'exp':
        return fp.ExpContext(d['nbits'], d['eoffset'], rm, ov, inf_value=iv)
    raise ValueError(k)


def rto_dyadic(q: Fraction, bits: int):
    """Round-to-odd of the rational q to `bits` significant digits: (s, exp, c) exactly
    (testing-side helper; the model-side justification is theorem N2)."""
    s = q < 0
    a = abs(q)
    if a == 0:
        return (s, 0, 0)
    # find e with 2^e <= a < 2^(e+1)
    e = a.numerator.bit_length() - a.denominator.bit_length()
    if Fraction(2) ** e > a:
        e -= 1
    elif Fraction(2) ** (e + 1) <= a:
        e += 1
    exp = e - bits + 1
    scaled = a / (Fraction(2) ** exp)
    c = scaled.numerator // scaled.denominator
    if c * scaled.denominator != scaled.numerator:
        c |= 1
    return (s, exp, c)
