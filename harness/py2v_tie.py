"""
Tie A: the Gallina model of the pure integer core of fpy2's number library is REGENERATED from the
Python source of the working tree on every run (translate/py2v.py), and the bridge lemmas
(coq/dyn/BridgeReals.v:  generated (inj args) = inj (hand-written model args), for all arguments)
are re-proved against it.  The property theorems are about the hand-written model (Num/RealFloat.v);
with the bridge they are statements about what the source says now.

A source change outside the translated subset makes the translator fail closed; a change of behaviour
breaks a bridge lemma.  Either is reported through ck.broken (-> VIOLATION ... no-failing-input-found
unless the correspondence streams of the check find a concrete failing input).
"""
from __future__ import annotations

import re
import sys
import time

from .common import COQ, REPO, ROOT, count_statements

sys.path.insert(0, str(ROOT / 'translate'))

# bridge lemma -> what it ties
BRIDGED = {
    'round_br': 'RealFloat.round (num_randbits=0) = rf_round',
    'round_at_pub_br': 'RealFloat.round_at (num_randbits=0) = rf_round_at',
    'round_at_br': 'RealFloat._round_at = round_at',
    'round_at_stoch_br': 'RealFloat._round_at_stochastic = round_at_stoch (drawn integer explicit)',
    'round_incr_br': 'RealFloat._round_increment = round_incr',
    'tiny_post_br': 'RealFloat._tiny_post = tiny_post',
    'to_direction_br': 'RoundingMode.to_direction = to_direction',
    'split_br': 'RealFloat.split = split',
    'compare_br': 'RealFloat.compare (RealFloat operand) = rf_compare',
    'add_br': 'RealFloat.__add__ (RealFloat operand) = rf_add',
    'mul_br': 'RealFloat.__mul__ (RealFloat operand) = rf_mul',
    'neg_br': 'RealFloat.__neg__ = rf_neg', 'abs_br': 'RealFloat.__abs__ = rf_abs', 'pos_br': 'RealFloat.__pos__ = rf_pos',
    'is_more_significant_br': 'RealFloat.is_more_significant', 'bit_br': 'RealFloat.bit',
    'normalize_br': 'RealFloat.normalize = normalize', 'next_away_br': 'RealFloat._next_away = next_away',
    'next_towards_br': 'RealFloat._next_towards = next_towards (c = 0 raises ValueError through the constructor)',
    'rf_init_sec': 'RealFloat.__init__(s, exp, c)', 'flags_init_spec': 'Flags.__init__',
}


class _Rec:
    """Collects what the tie would add to the Check, so that the compilation can run in a background thread."""
    def __init__(self, ck):
        self.ck = ck
        self.broken, self.trusted, self.cmds, self.extra = [], [], [], {}
        self.obligations = self.discharged = 0
        self.out = {}

    def dyn_theory(self, name, text=None, src=None, timeout=900, count=True):
        from .common import forbidden_tokens
        ok, out = self.ck.coqc_dyn(name, text=text, src=src, timeout=timeout)
        p = self.ck.dir / f'{name}.v'
        n = count_statements([p]) if count else 0
        self.obligations += n
        bad = forbidden_tokens([p])
        if bad:
            ok = False
            self.broken.append('forbidden-token audit: ' + '; '.join(bad[:5]))
        if ok:
            self.discharged += n
        else:
            m = re.search(r'File "([^"]+)", line (\d+)[^\n]*\n(Error:[^\n]*(?:\n[^\n]+){0,6})', out)
            which = ''
            if m:
                # name the lemma / theorem that no longer checks and what it ties
                src = p.read_text().splitlines()[:int(m.group(2))]
                names = [mm.group(2) for ln in src for mm in [re.match(r'\s*(Lemma|Theorem)\s+([A-Za-z0-9_\']+)', ln)] if mm]
                if names:
                    which = f' [no longer checks: {names[-1]}' + (f' -- {BRIDGED[names[-1]]}' if names[-1] in BRIDGED else '') + ']'
            self.broken.append(f'tie A, dyn theory {name}{which}: ' + (m.group(0)[:600] if m else out[-600:]))
        self.cmds.append(f'coqc -Q coq FpyV -Q . Dyn build/{self.ck.pid}/{name}.v')
        return ok, out


def start(ck):
    """Run the tie in a background thread; call the returned function to join and account for it."""
    import threading
    rec = _Rec(ck)
    res = {}

    def work():
        try:
            res['ok'] = _run(rec)
        except Exception as ex:  # noqa: BLE001
            rec.broken.append(f'tie A crashed: {type(ex).__name__}: {ex}')
            res['ok'] = False
    th = threading.Thread(target=work, daemon=True)
    th.start()

    def join():
        th.join()
        ck.broken += rec.broken
        ck.trusted += rec.trusted
        ck.checker_cmds += rec.cmds
        ck.obligations += rec.obligations
        ck.discharged += rec.discharged
        ck.extra.update(rec.extra)
        for names, out in rec.out.get('audit', []):
            aok, sets = ck.audit_props(out, names)
            if len(sets) != len(names):
                ck.broken.append(f'tie A: {len(names)} Print Assumptions commands in BridgeReals.v, {len(sets)} answers')
        for c in rec.out.get('concrete', [])[:6]:
            ck.violation('the source no longer computes what the proved model computes (found through the regenerated model)', c)
        ck.log(rec.out.get('log', 'tie A: no result'))
        return bool(res.get('ok')) and not rec.broken
    return join


def run(ck):
    return start(ck)()


def _run(ck):
    """Regenerate, compile, re-prove (ck is a _Rec).  Returns True when the whole tie checks."""
    t0 = time.time()
    import py2v
    try:
        tr = py2v.Translator(REPO)
        text = tr.translate()
    except py2v.Unsupported as ex:
        ck.broken.append(f'tie A (py2v): the source left the translated subset, model cannot be regenerated: {ex}')
        ck.extra['py2v'] = {'translated': 0, 'error': str(ex)}
        return False
    except Exception as ex:  # noqa: BLE001  (a source the translator cannot even load)
        ck.broken.append(f'tie A (py2v): translator failed: {type(ex).__name__}: {ex}')
        ck.extra['py2v'] = {'translated': 0, 'error': str(ex)}
        return False
    nfun = len(tr.out)
    from .common import coq_make
    mk, mout = coq_make(['Py/PyRt.vo', 'Num/RealFloatProofs.vo', 'Num/CtxProofs.vo', 'Num/StochProofs.vo'], timeout=2400)
    if not mk:
        ck.broken.append('tie A: static theories the bridge depends on do not build: ' + mout[-400:])
        return False
    ok, out = ck.dyn_theory('GenReals', text=text, timeout=600, count=False)
    if not ok:
        ck.extra['py2v'] = {'translated': nfun, 'error': 'generated model does not compile'}
        return False
    ok, out = ck.dyn_theory('BridgeDefs', src=COQ / 'dyn' / 'BridgeDefs.v', timeout=300, count=False)
    if not ok:
        ck.extra['py2v'] = {'translated': nfun, 'error': 'bridge definitions do not compile against the generated model'}
        return False
    ok, out = ck.dyn_theory('BridgeReals', src=COQ / 'dyn' / 'BridgeReals.v', timeout=1200, count=True)
    names = re.findall(r'Print Assumptions\s+([A-Za-z0-9_\']+)\s*\.', (COQ / 'dyn' / 'BridgeReals.v').read_text())
    if ok:
        ck.out.setdefault('audit', []).append((names, out))
        # end-to-end theorems about the regenerated functions (bridge o property theorems of the hand-written model)
        ok, out2 = ck.dyn_theory('GenTheorems', src=COQ / 'dyn' / 'GenTheorems.v', timeout=600, count=True)
        if ok:
            names2 = re.findall(r'Print Assumptions\s+([A-Za-z0-9_\']+)\s*\.', (COQ / 'dyn' / 'GenTheorems.v').read_text())
            ck.out['audit'].append((names2, out2))
            ck.extra['py2v_theorems'] = names2
    if not ok:
        _search(ck)
    unm = sorted({m for t in tr.out.values() for m in re.findall(r'arms left unmodelled: (.*?) \*\)', t)})
    ck.extra['py2v'] = {
        'translated_functions': nfun,
        'functions': sorted(tr.out),
        'bridge_lemmas': count_statements([COQ / 'dyn' / 'BridgeReals.v']),
        'bridged': BRIDGED,
        'explicitly_unmodelled_arms': unm,
        'seconds': round(time.time() - t0, 1),
        'ok': bool(ok),
    }
    ck.trusted.append('tie A: translate/py2v.py (fail-closed Python-ast -> Gallina translator), coq/Py/PyRt.v (run-time '
                      'semantics of the translated operators), the oracle for RealFloat._generate_randbits (drawn integer '
                      '= explicit argument), match/isinstance arms over float/Fraction operands left explicitly unmodelled')
    ck.out['log'] = (f'tie A: {nfun} functions regenerated from the source, bridge '
                     f'{"re-proved" if ok else "BROKEN"} ({time.time() - t0:.0f}s)')
    return ok


def _search(ck):
    """A bridge lemma no longer re-proves: look for a concrete input on which the regenerated model and the proved
    model disagree (coq/dyn/GenSearch.v, vm_compute over a grid) and replay it on the implementation."""
    ok, out = ck.ck.coqc_dyn('GenSearch', src=COQ / 'dyn' / 'GenSearch.v', timeout=900)
    if not ok:
        ck.broken.append('tie A: the search for a concrete disagreement did not compile: ' + out[-300:])
        return
    flat = ' '.join(out.split())
    found = {}
    for m in re.finditer(r'\("([A-Z]+)"%string, (\d+)%nat, \[(.*?)\]\) : string', flat):
        kind, n, body = m.group(1), int(m.group(2)), m.group(3)
        rows = [[int(z.replace('%Z', '').strip('() ')) for z in r.split(';') if z.strip()] for r in re.findall(r'\[([^\[\]]*)\]', body)]
        found[kind] = (n, rows)
    ck.extra['py2v_search'] = {k: {'disagreements': v[0], 'first': v[1][:3]} for k, v in found.items()}
    from fpy2.number import RealFloat, RM
    import random
    modes = ['RNE', 'RNA', 'RTP', 'RTN', 'RTZ', 'RAZ', 'RTO', 'RTE']

    class Scripted(random.Random):
        def __init__(self, v):
            super().__init__(0)
            self.v = v

        def getrandbits(self, k):
            return self.v
    concrete = []
    for kind, (n, rows) in found.items():
        for r in rows:
            try:
                if kind == 'ROUND':
                    x = RealFloat(bool(r[0]), r[1], r[2])
                    p = r[4] if r[3] else None
                    nn = r[6] if r[5] else None
                    want = r[8:]
                    try:
                        y = x.round(p, nn, getattr(RM, modes[r[7]]))
                        got = [1, int(y.s), y.exp, y.c, int(y.inexact)]
                    except Exception:  # noqa: BLE001
                        got = [0, 0, 0, 0, 0]
                    desc = f'RealFloat(s={bool(r[0])}, exp={r[1]}, c={r[2]}).round({p}, {nn}, RM.{modes[r[7]]})'
                elif kind == 'STOCH':
                    x = RealFloat(bool(r[0]), r[1], r[2])
                    want = r[7:]
                    try:
                        y = x.round(None, r[3], getattr(RM, modes[r[6]]), r[4], rng=Scripted(r[5]))
                        got = [1, int(y.s), y.exp, y.c, int(y.inexact)]
                    except Exception:  # noqa: BLE001
                        got = [0, 0, 0, 0, 0]
                    desc = (f'RealFloat(s={bool(r[0])}, exp={r[1]}, c={r[2]}).round(None, {r[3]}, RM.{modes[r[6]]}, '
                            f'num_randbits={r[4]}, rng=<getrandbits -> {r[5]}>)')
                elif kind in ('ADD', 'MUL'):
                    x, y2 = RealFloat(bool(r[0]), r[1], r[2]), RealFloat(bool(r[3]), r[4], r[5])
                    z = x + y2 if kind == 'ADD' else x * y2
                    got, want = [int(z.s), z.exp, z.c], r[6:9]
                    desc = f'{x!r} {"+" if kind == "ADD" else "*"} {y2!r}'
                elif kind == 'CMP':
                    x, y2 = RealFloat(bool(r[0]), r[1], r[2]), RealFloat(bool(r[3]), r[4], r[5])
                    c = x.compare(y2)
                    got, want = [{'LESS': -1, 'EQUAL': 0, 'GREATER': 1}[c.name]], r[6:7]
                    desc = f'{x!r}.compare({y2!r})'
                else:
                    continue
            except Exception as ex:  # noqa: BLE001
                got, want, desc = f'raised {type(ex).__name__}', r, f'{kind} {r}'
            if got != want:
                concrete.append({'call': desc, 'implementation': got, 'proved_model': want,
                                 'encoding': 'round/stochastic: [ok, s, exp, c, inexact]; add/mul: [s, exp, c]; compare: -1/0/1'})
    ck.out['concrete'] = concrete
