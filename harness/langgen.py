"""
Typed random generator of well-formed FPy programs over harness/lang.py nodes
(used by C04; reusable by the transform checks).

    g = ProgGen(rng, malformed=False, ops=('add','sub','mul','div',...))
    prog, sig = g.program()      # lang.Program (helpers first, entry `main` last), sig = parameter kinds of main
    g.args(sig)                  # one argument tuple (generator-side values: lang.N / list of N)

Programs pass fpy2's SyntaxCheck and Reachability (every variable defined on
all paths before use, variables introduced in a branch / loop body are not
used after it, the last statement returns, nothing follows a `return`), and
terminate (while loops are counter loops with a literal bound <= 3; every
context used has precision >= 2 so the counters are exact).

Types tracked: 'R' real, 'I' small non-negative integer-valued real (usable
as index / constructor argument), 'B' bool, ('L', n) list of reals of known
length n (n = None: unknown, at least 2), 'C' context.
With malformed=True a few constructs are perturbed so that the run raises a
specific exception (bad index, negative index, bad slice, ragged zip, ...).
"""
from __future__ import annotations

from fractions import Fraction as F

from .lang import CtxSpec, Func, N, Node, Program

V = lambda x: Node('var', x)          # noqa: E731
PV = lambda x: Node('pvar', x)        # noqa: E731


def lit(q):
    return Node('num', N.fin(q))


LITS = [0, 1, 2, 3, 5, 7, -1, -2, F(1, 2), F(3, 8), F(5, 4), F(1, 10), F(3, 10), F(7, 5), F(1, 3), F(-2, 3), F(22, 7)]
RMODES = ['RNE', 'RNA', 'RTP', 'RTN', 'RTZ', 'RAZ', 'RTO', 'RTE']


def basic_ctx(r, allow_real=False) -> CtxSpec:
    """MPFloat / MPSFloat / IEEE only (what the provisional instance NumInst.v supports)."""
    k = r.random()
    if allow_real and k < 0.08:
        return CtxSpec('REAL')
    rm = r.choice(RMODES) if r.random() < 0.6 else 'RNE'
    if k < 0.5:
        return CtxSpec('MPFloat', p=r.randint(2, 6), rm=rm)
    if k < 0.75:
        return CtxSpec('MPSFloat', p=r.randint(2, 5), emin=r.randint(-4, 1), rm=rm)
    es = r.randint(2, 4)
    return CtxSpec('IEEE', es=es, nbits=es + r.randint(2, 5), rm=rm, ov=('SATURATE' if r.random() < 0.15 else 'OVERFLOW'))


def small_ctx(r, allow_real=False, safe=False) -> CtxSpec:
    """A small rounding context of any supported family.  safe=True: only contexts in which the
    integers 0..3 are representable and x + 1 is exact for x <= 2 (plain loop counters terminate)."""
    k = r.random()
    if allow_real and k < 0.07:
        return CtxSpec('REAL')
    rm = r.choice(RMODES) if r.random() < 0.6 else 'RNE'
    ovf = 'SATURATE' if r.random() < 0.25 else 'OVERFLOW'
    if k < 0.3:
        return CtxSpec('MPFloat', p=r.randint(2, 6), rm=rm)
    if k < 0.42:
        return CtxSpec('MPSFloat', p=r.randint(2, 5), emin=r.randint(-4, 1), rm=rm)
    if k < 0.54:
        es = r.randint(2, 4)
        return CtxSpec('IEEE', es=es, nbits=es + r.randint(2, 5), rm=rm, ov=ovf)
    if k < 0.64:
        es = r.randint(3, 4) if safe else r.randint(2, 4)
        nk = r.choice(['IEEE_754', 'MAX_VAL', 'NEG_ZERO', 'NONE'])
        return CtxSpec('EFloat', es=es, nbits=es + r.randint(2, 4), enable_inf=(r.random() < 0.5), nk=nk,
                       eoffset=(0 if safe else r.randint(-1, 1)), rm=rm, ov=ovf)
    if k < 0.72:
        p = r.randint(2, 4)
        mc = r.randint(2 ** (p - 1), 2 ** p - 1)
        mexp = r.randint(3 - p + 1, 4) if safe else r.randint(-1, 4)
        return CtxSpec('MPBFloat', p=p, emin=r.randint(-3, 0), mexp=mexp, mc=mc, rm=rm, ov=ovf)
    if k < 0.8:
        return CtxSpec('MPFixed', nmin=(r.randint(-5, -1) if safe else r.randint(-5, 1)), rm=rm)
    ov = r.choice(['WRAP', 'SATURATE'])
    if k < 0.92:
        signed = r.random() < 0.6
        scale = r.randint(-3, 0) if safe else r.randint(-3, 1)
        lo = (3 - scale) if safe else 2       # enough integer bits for 0..3 (+ sign)
        return CtxSpec('Fixed', signed=signed, scale=scale, nbits=r.randint(lo, lo + 3), rm=rm, ov=ov)
    scale = r.randint(-3, 0) if safe else r.randint(-3, 1)
    lo = (3 - scale) if safe else 2
    return CtxSpec('SMFixed', scale=scale, nbits=r.randint(lo, lo + 3), rm=rm, ov=ov)


class ProgGen:
    def __init__(self, rng, malformed=False,
                 ops2=('add', 'sub', 'mul', 'div'), ops1=('neg', 'fabs', 'round', 'floor', 'ceil', 'trunc', 'roundint'),
                 use_fma=True, use_copysign=True, rare_ops2=(), rare_ops1=(), families='basic'):
        self.r = rng
        self.malformed = malformed
        self.bad_done = False
        self.ops2, self.ops1 = list(ops2), list(ops1)
        # operations only the MPFR engine serves (NotImplementedError under REAL / with a Fraction operand): used sparingly
        self.rare_ops2, self.rare_ops1 = list(rare_ops2), list(rare_ops1)
        self.families = families      # 'basic': MPFloat/MPSFloat/IEEE only; 'all': every family of small_ctx
        # safe: every context of the program keeps small loop counters exact; otherwise counters are incremented under REAL
        self.safe = (rng.random() < 0.5) if families == 'all' else True
        self.use_fma, self.use_copysign = use_fma, use_copysign
        self.counter = 0
        self.helpers = []          # (Func, kind, nparams)
        self.ctxconsts = {}
        self.features = set()

    # ------------------------------------------------------------ utilities
    def fresh(self, base):
        self.counter += 1
        return f'{base}{self.counter}'

    def bad(self, p=0.25):
        """Decide to inject one malformed construct (at most a couple per program)."""
        if self.malformed and self.r.random() < p:
            self.bad_done = True
            return True
        return False

    def vars_of(self, scope, pred):
        return [x for x, t in scope.items() if pred(t)]

    def pick_ctx(self, allow_real=False):
        if self.families == 'all':
            return small_ctx(self.r, allow_real=allow_real, safe=self.safe)
        return basic_ctx(self.r, allow_real=allow_real)

    def ctx_const(self):
        spec = self.pick_ctx(allow_real=True)
        if spec.kind == 'REAL':
            return Node('ctxval', 'fp.REAL', spec)
        for name, s in self.ctxconsts.items():
            if s.key() == spec.key():
                return Node('ctxval', name, s)
        name = f'CTX{len(self.ctxconsts)}'
        self.ctxconsts[name] = spec
        return Node('ctxval', name, spec)

    # ------------------------------------------------------------ expressions
    def leaf_R(self, scope):
        vs = self.vars_of(scope, lambda t: t in ('R', 'I'))
        if vs and self.r.random() < 0.7:
            return V(self.r.choice(vs))
        return lit(self.r.choice(LITS))

    def expr_I(self, scope):
        """A small non-negative integer-valued expression (exact under every context used)."""
        vs = self.vars_of(scope, lambda t: t == 'I')
        if vs and self.r.random() < 0.6:
            return V(self.r.choice(vs))
        return lit(self.r.randint(0, 3))

    def index(self, scope, n):
        """An in-range index for a list of length n (n None: at least 2)."""
        m = 2 if n is None else n
        if self.bad(0.3):
            self.features.add('bad-index')
            return self.r.choice([lit(m if n is not None else 99), lit(-1), lit(F(1, 2)), Node('bool', True)])
        if m <= 0:
            return lit(0)
        return lit(self.r.randint(0, m - 1))

    def list_leaf(self, scope, need_nonempty=False):
        vs = [(x, t[1]) for x, t in scope.items() if isinstance(t, tuple) and t[0] == 'L'
              and not (need_nonempty and t[1] == 0)]
        if vs:
            x, n = self.r.choice(vs)
            return V(x), n
        k = self.r.randint(1, 3)
        return Node('list', [self.leaf_R(scope) for _ in range(k)]), k

    def expr_L(self, scope, d, need_nonempty=False):
        """-> (node, length or None)"""
        r = self.r
        c = r.random()
        if d <= 0 or c < 0.3:
            return self.list_leaf(scope, need_nonempty)
        if c < 0.45:
            k = r.randint(1 if need_nonempty else 0, 3)
            self.features.add('list-literal')
            return Node('list', [self.expr_R(scope, d - 1) for _ in range(k)]), k
        if c < 0.6:
            a, n = self.expr_L(scope, d - 1)
            m = 2 if n is None else n
            lo = r.randint(0, m)
            hi = r.randint(lo, m)
            if need_nonempty and hi == lo:
                lo, hi = 0, max(m, 0)
                if m == 0:
                    return self.list_leaf(scope, True)
            self.features.add('slice')
            if self.bad(0.3):
                self.features.add('bad-slice')
                lo_e, hi_e = r.choice([(lit(m + 1), None), (None, lit(m + 2)), (lit(2), lit(1)), (lit(-1), None), (lit(F(1, 2)), None)])
                return Node('slice', a, lo_e, hi_e), None
            lo_e = None if (lo == 0 and r.random() < 0.5) else lit(lo)
            hi_e = None if (n is not None and hi == m and r.random() < 0.5) else lit(hi)
            if n is None:
                # only shapes valid for every length >= 2
                lo_e, hi_e, ln = r.choice([(None, None, None), (lit(1), None, None), (None, lit(2), 2), (lit(1), lit(2), 1), (lit(0), lit(1), 1)])
                return Node('slice', a, lo_e, hi_e), ln
            return Node('slice', a, lo_e, hi_e), hi - lo
        if c < 0.85:
            return self.comp(scope, d, 'R')
        k = r.randint(1 if need_nonempty else 0, 3)
        self.features.add('range')
        if r.random() < 0.3:
            return Node('range', [lit(1), lit(1 + k)]), k
        if r.random() < 0.2:
            return Node('range', [lit(0), lit(2 * k), lit(2)]), k
        return Node('range', [lit(k)]), k

    def comp(self, scope, d, elt_ty):
        """A comprehension with 1-2 generators whose element has type elt_ty ('R' or 'B')."""
        r = self.r
        gens, sc, total = [], dict(scope), 1
        for gi in range(2 if r.random() < 0.35 else 1):
            kind = r.random()
            if kind < 0.55:
                it, n = self.expr_L(sc, d - 1)
                x = self.fresh('e')
                gens.append((PV(x), it))
                sc[x] = 'R'
            elif kind < 0.75:
                a, n = self.list_leaf(sc)
                i, x = self.fresh('i'), self.fresh('e')
                gens.append((Node('ptuple', [PV(i), PV(x)]), Node('enumerate', a)))
                sc[i], sc[x] = 'R', 'R'
                self.features.add('enumerate')
            else:
                a, n = self.list_leaf(sc)
                b, m = self.zip_partner(sc, n)
                x, y = self.fresh('e'), self.fresh('e')
                gens.append((Node('ptuple', [PV(x), PV(y)]), Node('zip', [a, b])))
                sc[x], sc[y] = 'R', 'R'
                self.features.add('zip')
                if m != n:
                    n = None
            total = None if (total is None or n is None) else total * n
        if len(gens) > 1:
            self.features.add('comp-multi')
        self.features.add('comp')
        elt = self.expr_R(sc, d - 1) if elt_ty == 'R' else self.expr_B(sc, d - 1)
        return Node('comp', gens, elt), total

    def zip_partner(self, scope, n):
        """A list expression of the same length as one of length n (or a ragged one when malformed)."""
        r = self.r
        if self.bad(0.3) and n is not None:
            self.features.add('ragged-zip')
            return Node('range', [lit(n + 1)]), n + 1
        same = [x for x, t in scope.items() if isinstance(t, tuple) and t[0] == 'L' and t[1] == n and n is not None]
        if same and r.random() < 0.7:
            return V(r.choice(same)), n
        if n is None:
            a, _ = self.list_leaf(scope)
            if a.k == 'var':
                return a, None
            return Node('range', [lit(2)]), 2   # may be ragged; only reached when no list variable exists
        return Node('range', [lit(n)]), n

    def expr_R(self, scope, d):
        r = self.r
        if d <= 0 or r.random() < 0.22:
            return self.leaf_R(scope)
        c = r.random()
        if c < 0.42:
            o = r.choice(self.rare_ops2) if (self.rare_ops2 and r.random() < 0.12) else r.choice(self.ops2)
            return Node('op2', o, self.expr_R(scope, d - 1), self.expr_R(scope, d - 1))
        if c < 0.52:
            o = r.choice(self.rare_ops1) if (self.rare_ops1 and r.random() < 0.15) else r.choice(self.ops1)
            a = self.expr_R(scope, d - 1)
            if o == 'neg' and a.k == 'num':
                o = 'fabs'
            return Node('op1', o, a)
        if c < 0.56 and self.use_fma:
            return Node('op3', 'fma', self.expr_R(scope, d - 1), self.expr_R(scope, d - 1), self.expr_R(scope, d - 1))
        if c < 0.59 and self.use_copysign:
            return Node('op2', 'copysign', self.expr_R(scope, d - 1), self.expr_R(scope, d - 1))
        if c < 0.66:
            self.features.add('minmax')
            return Node(r.choice(['min', 'max']), [self.expr_R(scope, d - 1) for _ in range(r.randint(2, 3))])
        if c < 0.74:
            a, n = self.list_leaf(scope, need_nonempty=True)
            self.features.add('listref')
            return Node('ref', a, self.index(scope, n))
        if c < 0.82:
            self.features.add('reduction')
            k = r.choice(['sum', 'sum', 'amin', 'amax', 'len'])
            a, n = self.expr_L(scope, d - 1, need_nonempty=(k in ('amin', 'amax')))
            if k in ('amin', 'amax') and n == 0:
                k = 'sum'
            return Node(k, a)
        if c < 0.89:
            return Node('ife', self.expr_B(scope, d - 1), self.expr_R(scope, d - 1), self.expr_R(scope, d - 1))
        hs = [h for h in self.helpers if h[1] in ('pure', 'mut', 'with', 'early')]
        if hs:
            f, kind, _ = r.choice(hs)
            self.features.add('call-' + kind)
            if kind == 'pure':
                return Node('call', f.name, [self.expr_R(scope, d - 1), self.expr_R(scope, d - 1)])
            if kind == 'with':
                return Node('call', f.name, [self.expr_R(scope, d - 1)])
            lv = self.vars_of(scope, lambda t: isinstance(t, tuple) and t[0] == 'L' and (t[1] is None or t[1] >= 2))
            if lv:
                return Node('call', f.name, [V(r.choice(lv)), self.expr_R(scope, d - 1)])
        return self.leaf_R(scope)

    def expr_B(self, scope, d):
        r = self.r
        c = r.random()
        bs = self.vars_of(scope, lambda t: t == 'B')
        if d <= 0:
            if bs and r.random() < 0.4:
                return V(r.choice(bs))
            return Node('cmp', [r.choice(['<', '<=', '>', '>=', '==', '!='])], [self.leaf_R(scope), self.leaf_R(scope)])
        if c < 0.35:
            return Node('cmp', [r.choice(['<', '<=', '>', '>=', '==', '!='])], [self.expr_R(scope, d - 1), self.expr_R(scope, d - 1)])
        if c < 0.55:
            k = r.randint(2, 3)
            self.features.add('cmp-chain')
            return Node('cmp', [r.choice(['<', '<=', '>', '>=', '==', '!=']) for _ in range(k)],
                        [self.expr_R(scope, d - 1) for _ in range(k + 1)])
        if c < 0.7:
            self.features.add('boolop')
            return Node(r.choice(['and', 'or']), [self.expr_B(scope, d - 1) for _ in range(r.randint(2, 3))])
        if c < 0.76:
            return Node('not', self.expr_B(scope, d - 1))
        if c < 0.84:
            self.features.add('pred')
            return Node('pred', r.choice(['isnan', 'isinf', 'isfinite', 'signbit']), self.expr_R(scope, d - 1))
        if c < 0.92:
            self.features.add('anyall')
            cnode, _ = self.comp(scope, d, 'B')
            return Node(r.choice(['any', 'all']), cnode)
        if c < 0.96:
            self.features.add('struct-eq')
            a, _ = self.list_leaf(scope)
            b, _ = self.list_leaf(scope)
            if r.random() < 0.5:
                return Node('cmp', [r.choice(['==', '!='])], [a, b])
            return Node('cmp', [r.choice(['==', '!='])],
                        [Node('tuple', [self.leaf_R(scope), self.leaf_R(scope)]), Node('tuple', [self.leaf_R(scope), self.leaf_R(scope)])])
        return Node('bool', r.random() < 0.5)

    def ctx_expr(self, scope):
        r = self.r
        c = r.random()
        cv = self.vars_of(scope, lambda t: t == 'C')
        if cv and c < 0.15:
            self.features.add('with-ctxvar')
            return V(r.choice(cv))
        if c < 0.4:
            self.features.add('with-const')
            return self.ctx_const()
        rm = r.choice(RMODES) if r.random() < 0.5 else 'RNE'
        iv = self.vars_of(scope, lambda t: t == 'I')
        computed = bool(iv) and r.random() < 0.6
        if computed:
            self.features.add('with-computed-ctor')

        def prec():
            # >= 2, and different when rounded under a 2-3 digit ambient context
            if computed:
                v = V(r.choice(iv))
                return r.choice([Node('op2', 'add', v, lit(r.choice([2, 4, 5]))),
                                 Node('op2', 'add', Node('op2', 'mul', v, lit(2)), lit(r.choice([1, 3])))])
            return lit(r.randint(2, 7))
        k = r.random()
        if self.families == 'all' and k < 0.3:
            # fixed-point constructors; in a `safe` program they keep 0..3 exact
            ov = r.choice(['WRAP', 'SATURATE'])
            scale = r.randint(-3, 0) if self.safe else r.randint(-3, 1)
            if computed:
                v = V(r.choice(iv))
                nbits = Node('op2', 'add', v, lit(3 - scale + r.randint(0, 2)))      # n >= 1
                sc = lit(scale)
            else:
                nbits, sc = lit((3 - scale if self.safe else 2) + r.randint(0, 3)), lit(scale)
            self.features.add('with-fixed-ctor')
            if k < 0.1:
                return Node('ctor', 'MPFixed', rm, None, [lit(r.randint(-5, -1) if self.safe else r.randint(-5, 1))])
            if k < 0.2:
                return Node('ctor', r.choice(['FixedS', 'FixedS', 'FixedU']), rm, ov, [sc, nbits])
            return Node('ctor', 'SMFixed', rm, ov, [sc, nbits])
        if k < 0.55:
            return Node('ctor', 'MPFloat', rm, None, [prec()])
        if k < 0.8:
            return Node('ctor', 'MPSFloat', rm, None, [prec(), lit(r.randint(-4, 1))])
        es = r.randint(2, 4)
        nb = Node('op2', 'add', lit(es), prec()) if computed else lit(es + r.randint(2, 6))
        ov = r.choice(['OVERFLOW', 'OVERFLOW', 'SATURATE']) if self.families == 'all' else 'OVERFLOW'
        return Node('ctor', 'IEEE', rm, ov, [lit(es), nb])

    # ------------------------------------------------------------ statements
    def ret_value(self, scope):
        r = self.r
        items = []
        names = list(scope)
        r.shuffle(names)
        for x in names[:r.randint(2, 6)]:
            items.append(V(x))
        if not items or r.random() < 0.5:
            items.append(self.expr_R(scope, 1))
        if len(items) == 1:
            return items[0]
        return Node('tuple', items)

    def stmts(self, scope, d, k, in_loop=False, protect=()):
        """k statements; mutates scope with the variables that are visible afterwards."""
        out = []
        for _ in range(k):
            out += self.stmt(scope, d, in_loop, protect)
        return out

    def stmt(self, scope, d, in_loop, protect):
        r = self.r
        c = r.random()
        rv = [x for x in self.vars_of(scope, lambda t: t == 'R') if x not in protect]
        lv = self.vars_of(scope, lambda t: isinstance(t, tuple) and t[0] == 'L')
        if c < 0.2:
            x = self.fresh('t')
            e = self.expr_R(scope, 2)
            scope[x] = 'R'
            return [Node('assign', PV(x), e)]
        if c < 0.3 and rv:
            x = r.choice(rv)
            e = Node('op2', r.choice(self.ops2), V(x), self.expr_R(scope, 2))
            self.features.add('reassign')
            return [Node('assign', PV(x), e)]
        if c < 0.36:
            x = self.fresh('b')
            e = self.expr_B(scope, 2)
            scope[x] = 'B'
            return [Node('assign', PV(x), e)]
        if c < 0.44:
            x = self.fresh('l')
            if lv and r.random() < 0.4:
                y = r.choice(lv)
                self.features.add('alias')
                scope[x] = scope[y]
                return [Node('assign', PV(x), V(y))]
            hs = [h for h in self.helpers if h[1] == 'id']
            if lv and hs and r.random() < 0.3:
                y = r.choice(lv)
                self.features.add('alias-via-call')
                scope[x] = scope[y]
                return [Node('assign', PV(x), Node('call', hs[0][0].name, [V(y)]))]
            e, n = self.expr_L(scope, 2)
            scope[x] = ('L', n)
            return [Node('assign', PV(x), e)]
        if c < 0.53 and lv:
            cand = [x for x in lv if scope[x][1] is None or scope[x][1] > 0]
            if cand:
                x = r.choice(cand)
                self.features.add('list-mutation')
                return [Node('iassign', x, [self.index(scope, scope[x][1])], self.expr_R(scope, 2))]
        if c < 0.58:
            a, b = self.fresh('t'), self.fresh('t')
            self.features.add('tuple-destructure')
            if self.bad(0.2):
                self.features.add('bad-unpack')
                st = Node('assign', Node('ptuple', [PV(a), PV(b)]), Node('tuple', [self.expr_R(scope, 1) for _ in range(3)]))
                scope[a] = scope[b] = 'R'
                return [st]
            if r.random() < 0.4:
                cc = self.fresh('t')
                st = Node('assign', Node('ptuple', [Node('ptuple', [PV(a), PV(b)]), PV(cc)]),
                          Node('tuple', [Node('tuple', [self.expr_R(scope, 1), self.expr_R(scope, 1)]), self.expr_R(scope, 1)]))
                scope[a] = scope[b] = scope[cc] = 'R'
                return [st]
            st = Node('assign', Node('ptuple', [PV(a), PV(b)]), Node('tuple', [self.expr_R(scope, 2), self.expr_R(scope, 2)]))
            scope[a] = scope[b] = 'R'
            return [st]
        if c < 0.66 and d > 0:
            cond = self.expr_B(scope, 2)
            if r.random() < 0.5:
                inner = dict(scope)
                body = self.stmts(inner, d - 1, r.randint(1, 3), in_loop, protect)
                self.features.add('if1')
                return [Node('if1', cond, body)]
            s1, s2 = dict(scope), dict(scope)
            b1 = self.stmts(s1, d - 1, r.randint(1, 3), in_loop, protect)
            b2 = self.stmts(s2, d - 1, r.randint(1, 3), in_loop, protect)
            # a fresh variable defined in both branches with the same type is visible afterwards
            x = self.fresh('m')
            b1.append(Node('assign', PV(x), self.expr_R(s1, 1)))
            b2.append(Node('assign', PV(x), self.expr_R(s2, 1)))
            scope[x] = 'R'
            self.features.add('if')
            return [Node('if', cond, b1, b2)]
        if c < 0.72 and d > 0:
            i = self.fresh('k')
            bound = r.randint(1, 3)
            inner = dict(scope)
            inner[i] = 'I'
            body = self.stmts(inner, d - 1, r.randint(1, 3), True, protect + (i,))
            incr = Node('assign', PV(i), Node('op2', 'add', V(i), lit(1)))
            if self.safe or self.families != 'all':
                body.append(incr)
            else:
                # some context of this program may not represent the counter: increment it exactly
                body.append(Node('with', None, Node('ctxval', 'fp.REAL', CtxSpec('REAL')), [incr]))
            self.features.add('while')
            return [Node('assign', PV(i), lit(0)), Node('while', Node('cmp', ['<'], [V(i), lit(bound)]), body)]
        if c < 0.82 and d > 0:
            inner = dict(scope)
            kind = r.random()
            if kind < 0.4:
                it, n = self.expr_L(scope, 1)
                x = self.fresh('x')
                inner[x] = 'R'
                tgt = PV(x)
                self.features.add('for-list')
            elif kind < 0.6 and lv:
                y = r.choice(lv)
                it = Node('range', [Node('len', V(y))])
                x = self.fresh('i')
                inner[x] = 'R'
                tgt = PV(x)
                self.features.add('for-range-len')
                body = [Node('iassign', y, [V(x)], Node('op2', r.choice(self.ops2), Node('ref', V(y), V(x)), self.expr_R(inner, 1)))]
                body += self.stmts(inner, d - 1, r.randint(0, 2), True, protect + (x,))
                return [Node('for', tgt, it, body)]
            elif kind < 0.8:
                a, n = self.list_leaf(scope)
                i, x = self.fresh('i'), self.fresh('x')
                inner[i], inner[x] = 'R', 'R'
                tgt = Node('ptuple', [PV(i), PV(x)])
                it = Node('enumerate', a)
                self.features.add('for-enumerate')
            else:
                a, n = self.list_leaf(scope)
                b, m = self.zip_partner(scope, n)
                x, y = self.fresh('x'), self.fresh('y')
                inner[x], inner[y] = 'R', 'R'
                tgt = Node('ptuple', [PV(x), PV(y)])
                it = Node('zip', [a, b])
                self.features.add('for-zip')
            body = self.stmts(inner, d - 1, r.randint(1, 3), True, protect + tuple(n.a[0] for n in ([tgt] if tgt.k == 'pvar' else tgt.a[0])))
            return [Node('for', tgt, it, body)]
        if c < 0.93 and d > 0:
            e = self.ctx_expr(scope)
            name = None
            if r.random() < 0.3:
                name = self.fresh('c')
            inner = scope   # a `with` block does not open a scope
            if name:
                inner[name] = 'C'
            body = self.stmts(inner, d - 1, r.randint(1, 4), in_loop, protect)
            self.features.add('with' + ('-in-loop' if in_loop else ''))
            return [Node('with', name, e, body)]
        if c < 0.95:
            self.features.add('early-return' + ('-in-loop' if in_loop else ''))
            return [Node('if1', self.expr_B(scope, 2), [Node('return', self.ret_value(scope))])]
        if c < 0.97:
            hs = [h for h in self.helpers if h[1] == 'mut']
            cand = [x for x in lv if scope[x][1] is None or scope[x][1] >= 2]
            if hs and cand:
                self.features.add('effect-call')
                return [Node('effect', Node('call', hs[0][0].name, [V(r.choice(cand)), self.expr_R(scope, 1)]))]
        if c < 0.985:
            self.features.add('assert')
            if self.bad(0.5):
                return [Node('assert', Node('bool', False))]
            return [Node('assert', Node('or', [self.expr_B(scope, 1), Node('bool', True)]))]
        return [Node('pass')]

    # ------------------------------------------------------------ functions
    def helper(self, kind):
        r = self.r
        name = self.fresh({'pure': 'hp', 'mut': 'hm', 'id': 'hi', 'with': 'hw', 'early': 'he'}[kind])
        ctx = self.pick_ctx() if r.random() < 0.45 else None
        if ctx is not None:
            self.features.add('callee-declared-ctx')
        else:
            self.features.add('callee-inherits-ctx')
        if kind == 'pure':
            sc = {'a': 'R', 'b': 'R'}
            body = self.stmts(sc, 1, r.randint(0, 2))
            body.append(Node('return', self.expr_R(sc, 2)))
            f = Func(name, ['a', 'b'], ctx, body)
        elif kind == 'mut':
            sc = {'zs': ('L', None), 'v': 'R'}
            body = [Node('iassign', 'zs', [lit(r.randint(0, 1))], Node('op2', r.choice(self.ops2), Node('ref', V('zs'), lit(0)), V('v')))]
            body += self.stmts(sc, 1, r.randint(0, 1))
            body.append(Node('return', self.expr_R(sc, 2)))
            f = Func(name, ['zs', 'v'], ctx, body)
        elif kind == 'id':
            f = Func(name, ['zs'], ctx, [Node('return', V('zs'))])
        elif kind == 'with':
            sc = {'a': 'R'}
            body = [Node('with', None, self.ctx_expr(sc), self.stmts(sc, 1, r.randint(1, 2)))]
            body.append(Node('return', self.expr_R(sc, 2)))
            f = Func(name, ['a'], ctx, body)
        else:  # early: return from inside `with` inside a loop
            sc = {'zs': ('L', None), 'v': 'R'}
            inner = dict(sc)
            inner['z'] = 'R'
            wbody = self.stmts(inner, 0, r.randint(0, 1))
            wbody.append(Node('if1', Node('cmp', [r.choice(['<', '>', '>='])], [V('z'), V('v')]),
                              [Node('return', self.expr_R(inner, 2))]))
            loop = Node('for', PV('z'), V('zs'), [Node('with', None, self.ctx_expr(sc), wbody)])
            f = Func(name, ['zs', 'v'], ctx, [loop, Node('return', self.expr_R(sc, 2))])
        self.helpers.append((f, kind, len(f.params)))
        return f

    def program(self):
        r = self.r
        kinds = [k for k in ('pure', 'mut', 'id', 'with', 'early') if r.random() < 0.5]
        for k in kinds:
            self.helper(k)
        nx, ny = r.randint(2, 4), None
        ny = nx if r.random() < 0.7 else r.randint(2, 4)
        scope = {'x': 'R', 'y': 'R', 'n': 'I', 'xs': ('L', nx), 'ys': ('L', ny)}
        ctx = self.pick_ctx() if r.random() < 0.2 else None
        body = self.stmts(scope, 3, r.randint(4, 9))
        body.append(Node('return', self.ret_value(scope)))
        main = Func('main', ['x', 'y', 'n', 'xs', 'ys'], ctx, body)
        prog = Program([h[0] for h in self.helpers] + [main])
        return prog, {'nx': nx, 'ny': ny}

    # ------------------------------------------------------------ arguments
    FINITE = [0, 1, -1, 2, 3, 5, 7, 0.5, -0.75, 1.7, 0.1, 3.14159, 1e10, -2.5e-7, 2.0 ** -20, 123456789, 1e-3, -6.25, 100, 0.3, F(1, 3), F(-7, 5)]
    SPECIAL = [0.0, -0.0, float('inf'), float('-inf'), float('nan')]

    def number(self, p_special=0.2):
        r = self.r
        if r.random() < p_special:
            return N.of(r.choice(self.SPECIAL))
        return N.of(r.choice(self.FINITE))

    def args(self, sig, p_special=0.2):
        r = self.r
        return [self.number(p_special), self.number(p_special), N.of(r.randint(1, 3)),
                [self.number(p_special * 0.6) for _ in range(sig['nx'])], [self.number(p_special * 0.6) for _ in range(sig['ny'])]]
