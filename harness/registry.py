"""Which properties are claimed, at what level (source of MANIFEST.json).
Each harness/props/cXX.py defines MANIFEST = {'text':..., 'note':..., 'technique':...}."""
import importlib
import pkgutil
from pathlib import Path

STD_NOTE = ('Trusted: Coq 8.16.1 kernel (vm_compute used, no native_compute), Flocq, the standard-library axioms '
            'reported by Print Assumptions (listed in the evidence file), the hand-written Gallina model and the '
            'correspondence harness that ties it to /repo by differential execution on every run.')

ENABLED = set((Path(__file__).parent / 'enabled.txt').read_text().split())

CHECKS = {}
for f in sorted((Path(__file__).parent / 'props').glob('c[0-9][0-9].py')):
    if f.stem.upper() not in ENABLED:
        continue
    mod = importlib.import_module(f'harness.props.{f.stem}')
    m = getattr(mod, 'MANIFEST', None)
    if m and f.stem.upper() in ENABLED:
        m.setdefault('note', STD_NOTE)
        CHECKS[f.stem.upper()] = m

_ALL = ['C%02d' % i for i in range(1, 21)]
NA_REASONS = {}
NOT_APPLICABLE = {p: NA_REASONS.get(p, 'check not built yet in this round (work in progress; see DESIGN.md section 10)')
                  for p in _ALL if p not in CHECKS}
