"""Which properties are claimed, at what level (source of MANIFEST.json)."""

STD_NOTE = ('Trusted: Coq 8.16.1 kernel (vm_compute used, no native_compute), Flocq, the standard-library axioms '
            'reported by Print Assumptions (listed in the evidence file), the hand-written Gallina model and the '
            'correspondence harness that ties it to /repo by differential execution on every run.')

CHECKS = {
    'C05': {
        'text': 'Coq proof that the model of RealFloat/Float arithmetic (+,-,*,**,neg,pos,abs,compare,split,normalize,int) '
                'denotes the real operations for all encodings (unbounded); tied to /repo by running every operation on all '
                'pairs of small encodings and random wide values on both fpy2 and the model.',
        'note': STD_NOTE,
        'technique': 'machine-checked proof in Coq (Flocq reals) + model/implementation correspondence by vm_compute',
    },
}

_ALL = ['C%02d' % i for i in range(1, 21)]
NOT_APPLICABLE = {p: 'check not built yet in this round (work in progress; see DESIGN.md section 10)' for p in _ALL if p not in CHECKS}
