"""C14 part (b): program-level support by testing (NOT a proof).

Small FPy programs are generated (scalar arithmetic under float / fixed / REAL
contexts, branches, loops with accumulators), FormatInfer is run with a pinned
caller context and pinned argument formats, and each program is executed with a
tracing interpreter (a BytecodeCompiler subclass living here -- no hook in
/repo) that reports the run-time value of every expression.  Every value must
be a member of the format inferred for that expression; the function result
must be a member of fn_fmt.ret_fmt; every AssignDef's value must be a member of
by_def.

The theorems of coq/Props/C14.v cover the abstract arithmetic these results
are built from; the inference itself (joins at phi nodes, widening, branch
refinement) is only tested here.
"""
import ast as pyast
import importlib
import sys
import types
from fractions import Fraction

K_NEG = 'neg_has_neg_zero'
K_MULZ = 'mul_has_neg_zero'
K_ABS = 'abs_asymmetric_bound'
K_OVL = 'bound_if_fits_overlap_drops_specials'
K_SEL = 'exact_select_infinite_operand'
K_WRAP = 'overlap_bounds_under_wrap'
K_ZSET = 'zero_only_materialization_drops_specials'
K_LE = 'le_finite_prec_unbounded_exp'


# ---------------------------------------------------------------- tracing interpreter
def make_tracer(fp):
    from fpy2.interpret.byte import BytecodeCompiler, BytecodeInterpreter
    from fpy2.ast.fpyast import Expr

    class TracingCompiler(BytecodeCompiler):
        """wraps every compiled expression e as __verif_trace(<index of e>, <code of e>)"""

        def __init__(self, func, env, sites):
            super().__init__(func, env)
            self.sites = sites

        def _visit_expr(self, e, ctx):
            code = super()._visit_expr(e, ctx)
            if not isinstance(e, Expr) or not isinstance(code, pyast.expr):
                return code
            idx = len(self.sites)
            self.sites.append(e)
            attrs = self._location_to_attributes(e.loc)
            fn = pyast.Name(id='__verif_trace', ctx=pyast.Load(), **attrs)
            return pyast.Call(func=fn, args=[pyast.Constant(value=idx, kind=None, **attrs), code], keywords=[], **attrs)

    class TracingInterpreter(BytecodeInterpreter):
        def __init__(self):
            super().__init__()
            self.sites = {}
            self.sink = None

        def eval(self, func, args, ctx=None, *, convert=True):
            from fpy2.interpret.value import to_value, from_value
            key = func.ast
            if key not in self.func_cache:
                sites = []
                comp = TracingCompiler(func.ast, func.env, sites)
                fn = comp.compile()
                fn.__globals__['__verif_trace'] = self._trace
                self.func_cache[key] = fn
                self.sites[key] = sites
            fn = self.func_cache[key]
            self.cur = self.sites[key]
            ctx = self._func_ctx(func.ast, ctx)
            if convert:
                args = tuple(to_value(a) for a in args)
            res = fn(*args, __ctx__=ctx)
            return from_value(res) if convert else res

        def _trace(self, idx, value):
            if self.sink is not None:
                self.sink(self.cur[idx], value)
            return value

    return TracingInterpreter


# ---------------------------------------------------------------- membership of a run-time value in a FormatBound
def bound_violation(fp, bound, value):
    """None when `value` is described by the FormatBound `bound`, else a reason string."""
    from fpy2.analysis.format_infer import SetFormat, TupleFormat, ListFormat
    from fpy2.analysis.format_infer.analysis import NEG_ZERO, Special
    from fpy2.number import Float, RealFloat
    from fpy2.number.format import Format, REAL_FORMAT
    if bound is None:
        return None if not isinstance(value, (Float, RealFloat, Fraction)) else None
    if isinstance(bound, TupleFormat):
        if not isinstance(value, tuple) or len(value) != len(bound.elts):
            return 'shape'
        for b, v in zip(bound.elts, value):
            r = bound_violation(fp, b, v)
            if r:
                return r
        return None
    if isinstance(bound, ListFormat):
        if not isinstance(value, list):
            return 'shape'
        for v in value:
            r = bound_violation(fp, bound.elt, v)
            if r:
                return r
        return None
    if isinstance(value, (bool, tuple, list)) or value is None:
        return None
    if isinstance(value, int):
        value = Fraction(value)
    if isinstance(bound, SetFormat):
        if isinstance(value, Fraction):
            return None if value in bound.values else 'not in set'
        if isinstance(value, RealFloat):
            value = Float.from_real(value)
        if not isinstance(value, Float):
            return None
        if value.isnan:
            return None if Special.NAN in bound.values else 'nan not in set'
        if value.isinf:
            return None if (Special.NEG_INF if value.s else Special.POS_INF) in bound.values else 'inf not in set'
        if value.is_zero():
            if value.s:
                return None if NEG_ZERO in bound.values else 'negzero'
            return None if Fraction(0) in bound.values else 'not in set'
        return None if value.as_rational() in bound.values else 'not in set'
    if isinstance(bound, Format):
        if bound == REAL_FORMAT:
            return None
        if isinstance(value, Fraction):
            d = value.denominator
            if d & (d - 1):
                return 'non-dyadic'
            value = RealFloat.from_rational(value)
        if not isinstance(value, (Float, RealFloat)):
            return None
        if bound.representable_in(value):
            return None
        if isinstance(value, Float) and not value.isnan and not value.isinf and value.is_zero() and value.s:
            return 'negzero'
        return 'not representable'
    return None


# ---------------------------------------------------------------- program generator
CTX_EXPRS = [
    'fp.REAL', 'fp.FP32', 'fp.FP16', 'fp.SINT8', 'fp.SINT16', 'fp.UINT8', 'fp.INTEGER',
    'fp.IEEEContext(3, 8, fp.RM.RTZ)', 'fp.IEEEContext(4, 8, fp.RM.RTP)', 'fp.FixedContext(True, -2, 8, fp.RM.RTN, fp.OV.SATURATE)',
    'fp.MPFixedContext(-3, fp.RM.RNE)', 'fp.MPFloatContext(5, fp.RM.RNA)', 'fp.FP64',
]


class Gen:
    def __init__(self, rng, nargs):
        self.rng = rng
        self.vars = [f'a{i}' for i in range(nargs)]
        self.n = 0
        self.lines = []

    def fresh(self):
        self.n += 1
        return f't{self.n}'

    def atom(self):
        r = self.rng
        if r.random() < 0.75:
            return r.choice(self.vars)
        return r.choice(['0', '1', '2', '0.5', '-1', '3', '0.25', '-0.0', '1.5', '100'])

    def expr(self, depth=0):
        r = self.rng
        k = r.random()
        if depth > 1 or k < 0.25:
            return self.atom()
        if k < 0.5:
            return f'({self.expr(depth + 1)} {r.choice(["+", "-", "*"])} {self.expr(depth + 1)})'
        if k < 0.6:
            return f'(-{self.expr(depth + 1)})'
        if k < 0.7:
            return f'abs({self.expr(depth + 1)})'
        if k < 0.78:
            return f'({self.expr(depth + 1)} / {self.atom()})'
        if k < 0.84:
            return f'fp.sqrt(abs({self.expr(depth + 1)}))'
        if k < 0.9:
            return f'fp.round({self.expr(depth + 1)})'
        if k < 0.95:
            return f'{r.choice(["min", "max"])}({self.expr(depth + 1)}, {self.atom()})'
        return f'({self.expr(depth + 1)} if {self.atom()} < {self.atom()} else {self.expr(depth + 1)})'

    def block(self, ind, budget, depth=0):
        r = self.rng
        nst = r.randint(1, 3)
        for _ in range(nst):
            k = r.random()
            pad = '    ' * ind
            if k < 0.5 or depth >= 2 or budget <= 0:
                v = self.fresh()
                self.lines.append(f'{pad}{v} = {self.expr()}')
                self.vars.append(v)
            elif k < 0.65:
                self.lines.append(f'{pad}with {r.choice(CTX_EXPRS)}:')
                nv = len(self.vars)
                self.block(ind + 1, budget - 1, depth + 1)
                # definitions made inside the block stay visible (no new scope for names)
            elif k < 0.8:
                v = self.fresh()
                c = r.choice(['0', '1', '0.5', '-2', '4', '100'])
                a = self.atom()
                op_ = r.choice(["<", "<=", ">", ">=", "==", "!="])
                self.lines.append(f'{pad}if {a} {op_} {c}:' if r.random() < 0.5 else f'{pad}if {c} {op_} {a}:')
                self.lines.append(f'{pad}    {v} = {self.expr()}')
                self.lines.append(f'{pad}else:')
                self.lines.append(f'{pad}    {v} = {self.expr()}')
                self.vars.append(v)
            elif k < 0.92:
                acc = self.fresh()
                self.lines.append(f'{pad}{acc} = {self.atom()}')
                i = self.fresh()
                self.lines.append(f'{pad}for {i} in range({r.choice([0, 1, 2, 3, 5])}):')
                body = r.choice([f'{acc} {r.choice(["+", "*", "-"])} {self.atom()}', f'{self.atom()} - {acc}', f'-{acc}',
                                 f'{acc} + {i}'])
                self.lines.append(f'{pad}    {acc} = {body}')
                self.vars.append(acc)
            else:
                acc, i = self.fresh(), self.fresh()
                self.lines.append(f'{pad}{acc} = {self.atom()}')
                self.lines.append(f'{pad}{i} = 0')
                self.lines.append(f'{pad}while {i} < {r.choice([1, 2, 4])}:')
                self.lines.append(f'{pad}    {acc} = {acc} {r.choice(["+", "*", "-"])} {self.atom()}')
                self.lines.append(f'{pad}    {i} = {i} + 1')
                self.vars.append(acc)


def gen_program(rng, name, nargs):
    g = Gen(rng, nargs)
    g.block(1, 3)
    rets = rng.sample(g.vars, min(len(g.vars), rng.choice([1, 1, 2])))
    args = ', '.join(f'a{i}: fp.Real' for i in range(nargs))
    src = ['@fp.fpy', f'def {name}({args}):'] + g.lines + [f'    return {", ".join(rets)}', '']
    return '\n'.join(src)


FIXED_PROGRAMS = '''
@fp.fpy
def k_neg(a0: fp.Real):
    with fp.REAL:
        t1 = -a0
    return t1

@fp.fpy
def k_abs(a0: fp.Real):
    with fp.REAL:
        t1 = abs(a0)
    return t1

@fp.fpy
def k_mul(a0: fp.Real, a1: fp.Real):
    with fp.REAL:
        t1 = a0 * a1
    return t1

@fp.fpy
def k_acc(a0: fp.Real, a1: fp.Real):
    with fp.REAL:
        t1 = a0
        for t2 in range(3):
            t1 = t1 + a1
    return t1

@fp.fpy
def k_branch(a0: fp.Real, a1: fp.Real):
    if a0 < 4:
        with fp.REAL:
            t1 = a0 * a0
    else:
        t1 = a1 - a0
    return t1

@fp.fpy
def k_while(a0: fp.Real):
    t1 = a0
    t2 = 0
    while t2 < 4:
        with fp.REAL:
            t1 = t1 * 2
        t2 = t2 + 1
    return t1
'''


GUARD_OPS = ['<', '<=', '>', '>=', '==', '!=']
GUARD_LITS = ['-8', '65536', '0.5', '0']


def guard_programs():
    """branch refinement: every comparison operator, the literal on either side, negative / positive / fractional / zero
    literals; the guarded variable is read (and used in exact arithmetic) in BOTH arms"""
    out = []
    k = 0
    for op in GUARD_OPS:
        for lit in GUARD_LITS:
            for lit_left in (False, True):
                cond = f'{lit} {op} a0' if lit_left else f'a0 {op} {lit}'
                name = f'gd{k}'
                src = f'''
@fp.fpy
def {name}(a0: fp.Real):
    if {cond}:
        t1 = a0
        with fp.REAL:
            t2 = a0 + a0
    else:
        t1 = a0
        with fp.REAL:
            t2 = a0 - 1
    return t1, t2
'''
                out.append((name, src, lit))
                k += 1
    return out


RANGE_FIXED = [(0, 100, 3), (5, 200, 7), (-1, -100, -4), (0, 100, 1), (10, -90, -6), (3, 1000, 37), (-50, 51, 5), (100, 0, -3),
               (-7, 120, 9), (0, 1100000, 60000), (0, 17, 1), (2, 36, 2), (-3, -60, -3), (0, 16, 1), (1, -1000, -59)]


def range_programs(rng, count):
    """concrete ranges of more than 16 elements (the bounded-integer element format, past the set threshold): strided,
    descending, span not divisible by the stride -- walked by a for loop and by a comprehension, in the 1-, 2- and
    3-argument spellings; plus small / divisible controls"""
    triples = list(RANGE_FIXED)
    while len(triples) < count:
        step = rng.choice([-1, 1]) * rng.randint(2, 40)
        n = rng.randint(17, 45)
        start = rng.randint(-200, 200)
        stop = start + step * (n - 1) + (1 if step > 0 else -1) * rng.randint(1, abs(step))
        triples.append((start, stop, step))
    out = []
    for k, (a, b, c) in enumerate(triples[:count]):
        if c == 1 and a == 0 and k % 2 == 0:
            rg = f'range({b})'
        elif c == 1:
            rg = f'range({a}, {b})'
        else:
            rg = f'range({a}, {b}, {c})'
        name = f'rg{k}'
        out.append((name, f'''
@fp.fpy
def {name}():
    s = 0
    last = 0
    for i in {rg}:
        s = s + i
        last = i
    xs = [j for j in {rg}]
    ys = [j * 2 for j in {rg}]
    return s, last, xs, ys
'''))
    return out


def run_programs(ck, rng, thorough):
    import fpy2 as fp
    from fpy2.analysis.format_infer import FormatInfer, FunctionFormat, SetFormat
    from fpy2.analysis.format_infer.analysis import NEG_ZERO
    from fpy2.analysis.reaching_defs import AssignDef
    from fpy2.ast.fpyast import Neg, Mul, Abs, Var, Assign
    from fpy2.number import Float, RealFloat

    nprog = 160 if thorough else 36
    srcs = ['import fpy2 as fp', FIXED_PROGRAMS]
    names = [('k_neg', 1), ('k_abs', 1), ('k_mul', 2), ('k_acc', 2), ('k_branch', 2), ('k_while', 1)]
    guard_lit = {}
    for gname, gsrc, glit in guard_programs():
        srcs.append(gsrc)
        names.append((gname, 1))
        guard_lit[gname] = Fraction(glit)
    for i in range(nprog):
        nargs = rng.choice([1, 2, 2, 3])
        srcs.append(gen_program(rng, f'g{i}', nargs))
        names.append((f'g{i}', nargs))
    for rname, rsrc in range_programs(rng, 40 if thorough else 24):
        srcs.append(rsrc)
        names.append((rname, 0))
    modname = f'c14_generated_{ck.seed}'
    path = ck.dir / f'{modname}.py'
    path.write_text('\n'.join(srcs))
    sys.path.insert(0, str(ck.dir))
    try:
        # functions that the front end rejects are dropped one by one: compile each in its own module text
        funcs = {}
        rejected = 0
        header = 'import fpy2 as fp\n'
        chunks = ('\n'.join(srcs[1:])).split('@fp.fpy')
        for n, chunk in enumerate(c for c in chunks if c.strip()):
            mname = f'{modname}_{n}'
            (ck.dir / f'{mname}.py').write_text(header + '@fp.fpy' + chunk)
            try:
                mod = importlib.import_module(mname)
            except Exception as e:  # noqa  (front-end rejection of a generated program: not a C14 matter)
                rejected += 1
                continue
            for nm, _ in names:
                if hasattr(mod, nm):
                    funcs[nm] = getattr(mod, nm)
    finally:
        sys.path.remove(str(ck.dir))
    ck.count('programs generated', len(names))
    ck.count('programs rejected by the front end', rejected)

    Tracer = make_tracer(fp)
    arg_ctxs = [fp.SINT8, fp.UINT8, fp.FP16, fp.FP32, fp.IEEEContext(3, 8, fp.RM.RNE), fp.FixedContext(True, -2, 8),
                fp.SINT16, fp.MPFixedContext(-2), fp.INTEGER]
    outer_ctxs = [fp.FP64, fp.FP32, fp.FP16, fp.REAL, fp.SINT16]

    def sample_arg(c):
        """a value representable in c's format"""
        k = rng.random()
        try:
            if k < 0.15:
                return c.round(0)
            if k < 0.25:
                z = c.round(0)
                nz = Float(s=True, exp=0, c=0)
                return nz if c.format().representable_in(nz) else z
            if k < 0.35 and hasattr(c, 'maxval'):
                return c.maxval(rng.random() < .5) if c is not fp.UINT8 else c.maxval()
            if k < 0.42 and c.format().representable_in(Float(isinf=True)):
                return Float(isinf=True, s=rng.random() < .5)
            if k < 0.46 and c.format().representable_in(Float(isnan=True)):
                return Float(isnan=True)
        except Exception:  # noqa
            pass
        q = Fraction(rng.randint(-2000, 2000), rng.choice([1, 2, 4, 8, 16, 3]))
        if rng.random() < .3:
            q = Fraction(rng.randint(-12, 12), rng.choice([1, 2, 4]))
        with_sat = c
        try:
            v = with_sat.round(q)
        except Exception:  # noqa
            v = c.round(0)
        if not c.format().representable_in(v):
            v = c.round(0)
        return v

    def holds_nonfinite(b):
        from fpy2.number.format import Format
        try:
            return isinstance(b, Format) and (b.representable_in(Float(isinf=True)) or b.representable_in(Float(isinf=True, s=True))
                                              or b.representable_in(Float(isnan=True)))
        except Exception:  # noqa
            return False

    def special(v):
        return isinstance(v, Float) and (v.isnan or v.isinf or (v.is_zero() and v.s))

    guard_ctxs = [fp.SINT32, fp.FP32, fp.MPFixedContext(-2), fp.FP16]

    def guard_values(c, lit):
        """arguments on both sides of, next to and at the literal (and its mirror image), representable in c"""
        out = []
        for q in (lit - 1, lit - Fraction(1, 4), lit, lit + Fraction(1, 4), lit + 1, -lit, -lit - 1, -lit + 1, Fraction(0), lit * 3 + 2, -lit * 3 - 2):
            try:
                v = c.round(q)
            except Exception:  # noqa
                continue
            if c.format().representable_in(v) and not any(v == w and v.s == w.s for w in out):
                out.append(v)
        nz = Float(s=True, exp=0, c=0)
        if c.format().representable_in(nz):
            out.append(nz)
        return out

    runs = checks = 0
    n_analysis_err = n_run_err = 0
    root_hist = {}
    per = 10 if thorough else 5
    for nm, nargs in names:
        f = funcs.get(nm)
        if f is None:
            continue
        for cfg in range((4 if nm in guard_lit else 3) if thorough else 2):
            octx = rng.choice(outer_ctxs)
            actx = [rng.choice(arg_ctxs) for _ in range(nargs)]
            if nm.startswith('k_') and cfg == 0:
                octx, actx = fp.FP64, [fp.SINT8] * nargs
            if nm in guard_lit:
                octx, actx = fp.FP64, [guard_ctxs[(int(nm[2:]) + cfg) % len(guard_ctxs)]]
            if nm.startswith('rg'):
                octx = [fp.FP64, fp.REAL, fp.SINT32, fp.FP32][cfg % 4]
            afmts = tuple(c.format() for c in actx)
            try:
                info = FormatInfer.analyze(f.ast, fn_fmt=FunctionFormat(ctx=octx, arg_fmts=afmts, ret_fmt=None))
            except Exception as e:  # noqa
                n_analysis_err += 1
                ck.count(f'analysis raised {type(e).__name__}')
                continue
            def_fmt = {}
            for d, b in info.by_def.items():
                if isinstance(d, AssignDef) and isinstance(d.site, Assign):
                    def_fmt[id(d.site.expr)] = (d, b)
            gvals = guard_values(actx[0], guard_lit[nm]) if nm in guard_lit else None
            for _ in range(len(gvals) if gvals is not None else (1 if nargs == 0 else per)):
                args = [gvals[_]] if gvals is not None else [sample_arg(c) for c in actx]
                if nm.startswith('k_') and cfg == 0 and _ == 0:
                    args = {'k_neg': [0], 'k_abs': [-128], 'k_mul': [-2, 0]}.get(nm, args)
                interp = Tracer()
                first = []
                negzero_from = [None]

                def mpfloat_involved(e, v, info=info, octx=octx):
                    from fpy2.number.context.mp_float import MPFloatFormat
                    try:
                        c = info.ctx_use.find_scope_from_use(e).ctx if e is not None else None
                    except Exception:  # noqa
                        c = None
                    return (isinstance(info.by_expr.get(e), MPFloatFormat) or isinstance(getattr(v, 'ctx', None), fp.MPFloatContext)
                            or isinstance(c, fp.MPFloatContext))

                def wrapped(e, v, info=info, octx=octx):
                    try:
                        c = info.ctx_use.find_scope_from_use(e).ctx
                        c = c if isinstance(c, fp.Context) else octx
                        return getattr(c, 'overflow', None) is fp.OV.WRAP and bool(v.overflow)
                    except Exception:  # noqa
                        return False

                def scope_holds(e, v, info=info, octx=octx):
                    try:
                        c = info.ctx_use.find_scope_from_use(e).ctx
                        c = c if isinstance(c, fp.Context) else octx
                    except Exception:  # noqa  (a Var is not a context-use site: the value was rounded where it was computed)
                        c = getattr(v, 'ctx', None) or octx
                    try:
                        return c.format().representable_in(v)
                    except Exception:  # noqa
                        return False

                def sink(e, value, info=info, first=first, def_fmt=def_fmt):
                    nonlocal checks
                    if first:
                        return
                    if isinstance(value, Float) and not value.isnan and not value.isinf and value.is_zero() and value.s \
                            and type(e).__name__ in ('Neg', 'Mul'):
                        negzero_from[0] = type(e).__name__      # provenance of the latest -0 (known has_neg_zero findings)
                    if e not in info.by_expr:
                        return
                    checks += 1
                    why = bound_violation(fp, info.by_expr[e], value)
                    where = 'by_expr'
                    if not why and id(e) in def_fmt:
                        checks += 1
                        why = bound_violation(fp, def_fmt[id(e)][1], value)
                        where = 'by_def'
                    if why:
                        first.append((e, value, why, where))

                interp.sink = sink
                try:
                    res = interp.eval(f, args, octx)
                except Exception as e:  # noqa  (run-time errors of a generated program: overflow errors, asserts ...)
                    n_run_err += 1
                    res = None
                runs += 1
                if not first and res is not None:
                    checks += 1
                    why = bound_violation(fp, info.fn_fmt.ret_fmt, res)
                    if why:
                        first.append((None, res, why, 'ret_fmt'))
                if first:
                    e, value, why, where = first[0]
                    kind = type(e).__name__ if e is not None else 'return'
                    key = None
                    scope_real = False
                    if e is not None:
                        try:
                            scope_real = info.ctx_use.find_scope_from_use(e).ctx is fp.REAL
                        except Exception:  # noqa
                            scope_real = False
                    if why == 'negzero' and (kind == 'Neg' or (kind not in ('Neg', 'Mul') and negzero_from[0] == 'Neg')):
                        key = K_NEG
                    elif why == 'negzero' and (kind == 'Mul' or (kind not in ('Neg', 'Mul') and negzero_from[0] == 'Mul')):
                        key = K_MULZ
                    elif kind == 'Abs' and why in ('not representable', 'not in set') and not special(value) and wrapped(e, value):
                        # abs(999) under SINT8 wraps to -25: the clipped interval of the mixed-overlap branch misses it
                        key = K_WRAP
                    elif kind == 'Abs' and why in ('not representable', 'not in set') and not special(value):
                        key = K_ABS
                    elif kind in ('Min', 'Max') and not special(value) and why in ('not representable', 'not in set') \
                            and any(holds_nonfinite(info.by_expr.get(a)) for a in e.args):
                        # an operand that may be an infinity / NaN was allowed to bound the selection
                        key = K_SEL
                    elif special(value) and isinstance(info.by_expr.get(e), SetFormat) and \
                            all(v == 0 or v == NEG_ZERO for v in info.by_expr[e].values):
                        # the zero-only shortcut of _materialize_in_scope forgot the special values
                        key = K_ZSET
                    elif kind in ('Add', 'Sub', 'Mul', 'Neg', 'Abs', 'Round', 'Cast', 'Sum') and not special(value) \
                            and why in ('not representable', 'not in set') and wrapped(e, value):
                        # the value overflowed a WRAP context and landed outside the clipped interval
                        key = K_WRAP
                    elif not special(value) and why == 'not representable' and mpfloat_involved(e, value):
                        # rounding into an MPFloatContext (finite precision, unbounded exponent) is reported an identity by
                        # round_is_identity because AbstractFormat.__le__ skips the precision test (C14_le_sound_refuted)
                        key = K_LE
                    elif kind in ('Add', 'Sub', 'Mul', 'Neg', 'Abs', 'Round', 'Cast', 'Sum', 'Var') and special(value) \
                            and why in ('not representable', 'negzero') and scope_holds(e, value):
                        # the rounded operation yields an infinity (overflow), a NaN or a -0 the active
                        # context represents, but the inferred format has lost the special-value flags
                        key = K_OVL
                    root_hist[(kind, why, key)] = root_hist.get((kind, why, key), 0) + 1
                    ck.violation('a run-time value is not a member of the format FormatInfer reports (first such expression of the run)',
                                 {'function': nm, 'source_file': str(ck.dir / (modname + '.py')), 'outer_ctx': repr(octx),
                                  'arg_formats': [repr(a) for a in afmts], 'args': [repr(a) for a in args],
                                  'expression': e.format() if e is not None and hasattr(e, 'format') else kind,
                                  'where': where, 'value': repr(value),
                                  'inferred': repr(info.by_expr.get(e) if e is not None else info.fn_fmt.ret_fmt), 'why': why},
                                 key=key)
    ck.count('program runs (traced)', runs)
    ck.count('traced membership checks (program level, testing)', checks)
    ck.count('program runs ending in a run-time error', n_run_err)
    ck.evaluations += checks
    ck.extra['program_level'] = {
        'note': 'testing-level support only: FormatInfer is not modelled; the theorems cover the abstract arithmetic it is built from',
        'programs': len(funcs), 'runs': runs, 'membership_checks': checks, 'analysis_errors': n_analysis_err,
        'root_failures_by_class': {f'{k}/{w}/{key}': n for (k, w, key), n in sorted(root_hist.items(), key=str)},
    }
    ck.log(f'program level: {len(funcs)} programs, {runs} runs, {checks} membership checks, analysis errors {n_analysis_err}, '
           f'run errors {n_run_err}, root failures {ck.extra["program_level"]["root_failures_by_class"]}')
