"""C10 helpers: enumeration of source contexts, generation of real FPy modules
`def q(x): with C: y = fp.round(x); return y`, application of the real
lowering strategies and of every prefix of the documented chains, operand grids,
exact comparison of results, and recovery of the contexts a lowered program
rounds under (for the structural half of the tie).

Runs inside worker processes too (see harness/props/c10.py), so everything here
is importable without the Check object."""
import importlib.util
import itertools
import sys
from fractions import Fraction
from pathlib import Path

RM = ['RNE', 'RNA', 'RTP', 'RTN', 'RTZ', 'RAZ', 'RTO', 'RTE']

# ---------------------------------------------------------------- transforms
# name -> index used on the wire (coq/Cases/C10Cases.v)
T_SPECIAL, T_OVERFLOW, T_OVERFLOW_EARLY, T_NEGZERO, T_F2F, T_RESCALE = range(6)
TNAMES = ['unfold_special', 'unfold_overflow', 'unfold_overflow(early_check)', 'unfold_neg_zero',
          'float_to_fixed', 'rescale_fixed']

# the documented chains (docs/todos/native-lowering-roadmap.md "A recipe",
# docs/todos/rounding-operator-basis.md) and the chain of the property text
CHAINS = {
    'float-recipe': [T_SPECIAL, T_OVERFLOW, T_F2F, T_RESCALE],
    'fixed-recipe': [T_SPECIAL, T_NEGZERO, T_OVERFLOW, T_RESCALE],
    'property-chain': [T_SPECIAL, T_OVERFLOW, T_NEGZERO, T_F2F, T_RESCALE],
    'early-chain': [T_OVERFLOW_EARLY, T_F2F, T_RESCALE],
    'negzero-first': [T_NEGZERO, T_OVERFLOW, T_RESCALE],
}


def apply_T(t, f):
    from fpy2 import strategies as S
    if t == T_SPECIAL:
        return S.unfold_special(f)
    if t == T_OVERFLOW:
        return S.unfold_overflow(f)
    if t == T_OVERFLOW_EARLY:
        return S.unfold_overflow(f, early_check=True)
    if t == T_NEGZERO:
        return S.unfold_neg_zero(f)
    if t == T_F2F:
        return S.float_to_fixed(f)
    if t == T_RESCALE:
        return S.rescale_fixed(f)
    raise ValueError(t)


def refusals_T(t, f):
    """[(cursor, reason)] for the rounding blocks of f the rewrite refuses."""
    from fpy2 import transform as X
    if t == T_SPECIAL:
        return X.UnfoldSpecial.refusals(f.ast)
    if t in (T_OVERFLOW, T_OVERFLOW_EARLY):
        return X.UnfoldOverflow.refusals(f.ast)
    if t == T_NEGZERO:
        return X.UnfoldNegZero.refusals(f.ast)
    if t == T_F2F:
        return X.FloatToFixed.refusals(f.ast)
    if t == T_RESCALE:
        return X.RescaleFixed.refusals(f.ast)
    raise ValueError(t)


def sites_T(t, f):
    from fpy2 import transform as X
    if t == T_SPECIAL:
        return X.UnfoldSpecial.sites(f.ast)
    if t in (T_OVERFLOW, T_OVERFLOW_EARLY):
        return X.UnfoldOverflow.sites(f.ast)
    if t == T_NEGZERO:
        return X.UnfoldNegZero.sites(f.ast)
    if t == T_F2F:
        return X.FloatToFixed.sites(f.ast)
    if t == T_RESCALE:
        return X.RescaleFixed.sites(f.ast)
    raise ValueError(t)


# ---------------------------------------------------------------- descriptors
def fin(s, e, c):
    return ('fin', bool(s), e, c)


def mk_ctx10(d):
    """descriptor -> fpy2 context; adds kind 'ieee' (the IEEEContext class) to numenc.mk_ctx."""
    from .numenc import mk_ctx
    if d['kind'] == 'ieee':
        import fpy2 as fp
        from fpy2.number import RM as FRM, OV as FOV
        return fp.IEEEContext(d['es'], d['nbits'], getattr(FRM, d.get('rm', 'RNE')), getattr(FOV, d.get('ov', 'OVERFLOW')))
    return mk_ctx(d)


def e_ctx10(d):
    from .numenc import e_ctx
    if d['kind'] == 'ieee':
        d = dict(d, kind='efloat', enable_inf=True, nk='IEEE_754', eoffset=0)
    return e_ctx(d)


def float_params(d):
    """(p, emin, emax_hint) of a float descriptor (for the grid), or None."""
    k = d['kind']
    if k == 'mpfloat':
        return d['p'], None, None
    if k == 'mpsfloat':
        return d['p'], d['emin'], None
    if k == 'mpbfloat':
        mv = d['maxval']
        return d['p'], d['emin'], mv[1] + mv[2].bit_length() - 1
    if k in ('efloat', 'ieee'):
        es, nbits = d['es'], d['nbits']
        p = nbits - es
        eoff = d.get('eoffset', 0)
        ebias = 0 if es == 0 else 2 ** (es - 1) - 1
        emax = (-1 if es == 0 else ebias) + eoff + 1
        emin = 1 - ebias + eoff
        return p, emin, emax
    return None


def grid(lsb, kmax):
    """all k * 2^lsb, 0 <= k <= kmax, both signs (both zeros)"""
    out = []
    for k in range(0, kmax + 1):
        out.append(('fin', False, lsb, k))
        out.append(('fin', True, lsb, k))
    return out


SPECIALS = [('inf', False), ('inf', True), ('nan', False), ('nan', True)]


def operands_for(d, cap=900):
    """the eighth-ulp grid of the context up to past twice its bound, both zeros, +-inf, +-NaN,
    plus a few far operands (huge / tiny)."""
    k = d['kind']
    fp_ = float_params(d)
    ops = []
    if fp_ is not None:
        p, emin, emax = fp_
        if emin is None:
            for e in (-3, 0):
                ops += grid(e - p - 2, 2 ** (p + 4))
            far = [4, 40]
        else:
            nmin = emin - p
            top = (emax if emax is not None else emin + 2) + 2
            kmax = min(2 ** (top - (nmin - 3)), cap)
            ops += grid(nmin - 3, kmax)
            # coarser sweep up to past the bound when the fine grid was capped
            if 2 ** (top - (nmin - 3)) > cap:
                step = nmin - 3
                while 2 ** (top - step) > cap:
                    step += 1
                ops += grid(step, cap)
            far = [top + 3, top + 70]
        for e in far:
            for c in (1, 3, 5, 7):
                ops += [('fin', False, e, c), ('fin', True, e, c)]
        ops += [('fin', False, -90, 1), ('fin', True, -90, 3)]
    else:
        if k in ('mpfixed', 'mpbfixed'):
            lsb = d['nmin'] + 1
        elif k in ('fixed', 'smfixed'):
            lsb = d['scale']
        else:
            lsb = 0
        if k == 'mpbfixed':
            mv = d['maxval']
            bound = (mv[2] << (mv[1] - lsb)) if mv[1] >= lsb else mv[2]
            nm = d.get('neg_maxval')
            if nm:
                bound = max(bound, (nm[2] << (nm[1] - lsb)) if nm[1] >= lsb else nm[2])
        elif k in ('fixed', 'smfixed'):
            bound = 2 ** d['nbits']
        else:
            bound = 6
        kmax = min(8 * (2 * bound + 3), cap)
        ops += grid(lsb - 3, kmax)
        for e in (lsb + 7, lsb + 66, lsb + 70):
            for c in (1, 3, 5, 7, 11):
                ops += [('fin', False, e, c), ('fin', True, e, c)]
        ops += [('fin', False, lsb - 60, 1), ('fin', True, lsb - 60, 3)]
    return ops + SPECIALS


def mk_operand(op):
    from fpy2.number import Float
    if op[0] == 'fin':
        return Float(s=op[1], exp=op[2], c=op[3])
    if op[0] == 'inf':
        return Float(isinf=True, s=op[1])
    return Float(isnan=True, s=op[1])


# ---------------------------------------------------------------- context enumeration
def sp_variants_float(extra):
    """special-value options of the float families: (enable_nan, enable_inf, nan_value, inf_value)"""
    vs = [dict()]
    vs += [dict(enable_nan=False), dict(enable_inf=False), dict(enable_nan=False, enable_inf=False)]
    for v in extra:
        vs += [dict(enable_nan=False, nan_value=v), dict(enable_inf=False, inf_value=v),
               dict(enable_nan=False, enable_inf=False, nan_value=v, inf_value=v)]
    vs += [dict(enable_nan=False, nan_value=('inf', True)), dict(enable_inf=False, inf_value=('nan', False)),
           dict(enable_nan=True, nan_value=fin(0, 0, 1)), dict(enable_inf=True, inf_value=fin(0, 0, 0))]
    return vs


def enumerate_contexts(thorough=False):
    """List of descriptors.  Small parameters, every mode, overflow mode, NaN/inf option, substitute value.
    The quick tier keeps every family, mode, overflow mode and option but crosses fewer of them."""
    out = []
    modes = RM
    some_modes = RM if thorough else ['RNE', 'RTZ', 'RTP', 'RTO']
    few_modes = RM if thorough else ['RNE', 'RTZ', 'RTN']

    def add(d):
        out.append(d)

    # --- MPFloat
    for p in ((1, 2, 3) if not thorough else (1, 2, 3, 4)):
        for rm in modes:
            add({'kind': 'mpfloat', 'p': p, 'rm': rm})
    for sp in sp_variants_float([fin(0, 0, 1), fin(1, -1, 3), fin(0, 0, 0), fin(1, 0, 0)]):
        for rm in (('RNE', 'RTZ') if thorough else ('RNE',)):
            add(dict({'kind': 'mpfloat', 'p': 2, 'rm': rm}, **sp))
    # --- MPSFloat
    for p, emin in ([(1, 0), (2, -1), (3, -2)] if not thorough else [(p, em) for p in (1, 2, 3, 4) for em in (-2, 0, 1)]):
        for rm in modes:
            add({'kind': 'mpsfloat', 'p': p, 'emin': emin, 'rm': rm})
    for sp in sp_variants_float([fin(0, 0, 1), fin(1, 0, 0)]):
        add(dict({'kind': 'mpsfloat', 'p': 2, 'emin': -1, 'rm': 'RNA'}, **sp))
    # --- MPBFloat
    mpb = []
    for p, emin in ([(2, -1), (3, 0)] if not thorough else [(1, 0), (2, -1), (3, 0), (3, -2), (4, 0)]):
        top = emin + 2
        for c in range(2 ** (p - 1), 2 ** p):
            mpb.append((p, emin, (False, top - p + 1, c), None, c == 2 ** p - 1))
        mpb.append((p, emin, (False, top - p + 1, 2 ** p - 1), (True, top - p, 2 ** p - 1), True))   # asymmetric
        mpb.append((p, emin, (False, top, 1), None, p == 3))                                   # bound written unnormalised
        mpb.append((p, emin, (False, emin - p + 1, 1), None, p == 3))                         # bound = smallest subnormal
    for (p, emin, mv, nmv, full) in mpb:
        for rm in (modes if full or thorough else few_modes):
            for ov in ('OVERFLOW', 'SATURATE', 'ASSERT'):
                add({'kind': 'mpbfloat', 'p': p, 'emin': emin, 'maxval': mv, 'neg_maxval': nmv, 'rm': rm, 'ov': ov})
        if mv[2] == 2 ** p - 1 and nmv is None or thorough:
            for sp in sp_variants_float([fin(0, mv[1], mv[2]), fin(0, 0, 0), fin(1, 0, 0)]):
                for rm in (('RNE', 'RTP', 'RTZ') if thorough else ('RNE', 'RTZ')):
                    if sp:
                        add(dict({'kind': 'mpbfloat', 'p': p, 'emin': emin, 'maxval': mv, 'neg_maxval': nmv, 'rm': rm,
                                  'ov': 'OVERFLOW'}, **sp))
    # --- EFloat / IEEE
    nb_max = 4 if not thorough else 5
    for nbits in range(1, nb_max + 1):
        for es in range(0, nbits + 1):
            p = nbits - es
            if p < 1:
                continue
            for einf in (True, False):
                for nk in ('IEEE_754', 'MAX_VAL', 'NEG_ZERO', 'NONE'):
                    for eoff in ((0, 2) if nbits <= (2 if not thorough else 3) else (0, -1) if thorough else (0,)):
                        for rm in (modes if (nbits < nb_max and eoff == 0) or thorough else some_modes if eoff == 0 else ('RNE', 'RTZ')):
                            for ov in (('OVERFLOW', 'SATURATE') if rm in ('RNE', 'RTZ') or thorough and rm == 'RTN' else ('OVERFLOW',)):
                                add({'kind': 'efloat', 'es': es, 'nbits': nbits, 'enable_inf': einf, 'nk': nk, 'eoffset': eoff,
                                     'rm': rm, 'ov': ov})
                        for nv, iv in [(fin(0, 0, 0), fin(0, 0, 0)), (None, fin(1, 0, 1)), (fin(0, 0, 1), None)]:
                            if eoff == 0 and (thorough or (nbits >= 3 and nk in ('IEEE_754', 'NONE'))):
                                add({'kind': 'efloat', 'es': es, 'nbits': nbits, 'enable_inf': einf, 'nk': nk, 'eoffset': eoff,
                                     'rm': 'RNE', 'ov': 'OVERFLOW', 'nan_value': nv, 'inf_value': iv})
    for es, nbits in ((2, 4), (2, 5), (3, 5)):
        for rm in (modes if nbits == 4 or thorough else some_modes):
            for ov in ('OVERFLOW', 'SATURATE'):
                add({'kind': 'ieee', 'es': es, 'nbits': nbits, 'rm': rm, 'ov': ov})
    # --- MPFixed
    for nmin in (-2, 0, 1):
        for rm in modes:
            add({'kind': 'mpfixed', 'nmin': nmin, 'rm': rm})
            add({'kind': 'mpfixed', 'nmin': nmin, 'rm': rm, 'neg_zero': False, 'enable_nan': True, 'enable_inf': True})
        subs = [None, fin(0, nmin + 1, 3), fin(0, 0, 0), fin(1, 0, 0), ('inf', True), ('nan', True)]
        if nmin != -2 and not thorough:
            subs = [None, fin(0, nmin + 1, 3), ('inf', True)]
        for en, ei, nz in itertools.product((True, False), (True, False), (True, False)):
            for nv, iv in itertools.product(subs, subs):
                if not thorough and nv is not None and iv is not None and nv != iv:
                    continue
                add({'kind': 'mpfixed', 'nmin': nmin, 'rm': 'RTN', 'enable_nan': en, 'enable_inf': ei, 'neg_zero': nz,
                     'nan_value': nv, 'inf_value': iv})
    # --- MPBFixed
    for nmin in (-2, 0):
        lsb = nmin + 1
        bounds = [((False, lsb, 5), None, True), ((False, lsb, 6), (True, lsb, 3), False), ((False, lsb, 3), (False, 0, 0), True),
                  ((False, lsb, 3), (True, 0, 0), False), ((False, lsb, 3), None, True), ((False, lsb + 1, 1), None, False),
                  ((False, 0, 0), None, False)]
        for mv, nmv, full in bounds:
            for rm in (modes if full or thorough else few_modes):
                for ov in ('OVERFLOW', 'SATURATE', 'WRAP', 'ASSERT'):
                    for nz in (True, False):
                        if not thorough and nz is False and rm not in ('RNE', 'RTZ', 'RTN'):
                            continue
                        add({'kind': 'mpbfixed', 'nmin': nmin, 'maxval': mv, 'neg_maxval': nmv, 'rm': rm, 'ov': ov, 'neg_zero': nz})
            if not thorough and not (nmin == -2 and mv[2] == 3 and (nmv is None or nmv == (False, 0, 0))):
                continue
            subs = [None, fin(0, lsb, 2), fin(0, 0, 0), fin(1, 0, 0), ('inf', False), ('nan', False)]
            for en, ei in itertools.product((True, False), (True, False)):
                for nv, iv in itertools.product(subs, subs):
                    if not thorough and nv is not None and iv is not None and nv != iv:
                        continue
                    for rm, ov in (('RNE', 'OVERFLOW'), ('RTZ', 'OVERFLOW'), ('RTP', 'OVERFLOW'), ('RNE', 'SATURATE')):
                        if not thorough and (rm, ov) not in (('RNE', 'OVERFLOW'), ('RTZ', 'OVERFLOW')):
                            continue
                        add({'kind': 'mpbfixed', 'nmin': nmin, 'maxval': mv, 'neg_maxval': nmv, 'rm': rm, 'ov': ov,
                             'enable_nan': en, 'enable_inf': ei, 'nan_value': nv, 'inf_value': iv})
    # --- Fixed / SMFixed
    for signed in (True, False):
        for nbits, scale in ([(2, 0), (3, -1), (3, 2)] if not thorough else [(n, s_) for n in (1, 2, 3, 4) for s_ in (-1, 0, 2)]):
            for rm in modes:
                for ov in ('WRAP', 'SATURATE', 'OVERFLOW', 'ASSERT'):
                    add({'kind': 'fixed', 'signed': signed, 'scale': scale, 'nbits': nbits, 'rm': rm, 'ov': ov})
            for nv, iv in [(fin(0, scale, 1), fin(0, scale, 1)), (fin(0, 0, 0), None), (None, fin(1, scale, 1)), (('nan', False), ('inf', False))]:
                for ov in ('SATURATE', 'OVERFLOW'):
                    add({'kind': 'fixed', 'signed': signed, 'scale': scale, 'nbits': nbits, 'rm': 'RNE', 'ov': ov,
                         'nan_value': nv, 'inf_value': iv})
    for nbits, scale in ([(2, 0), (3, -1), (3, 1), (4, 0)] if not thorough else [(n, s_) for n in (2, 3, 4, 5, 7) for s_ in (-1, 0, 1)]):
        for rm in modes:
            for ov in ('WRAP', 'SATURATE', 'OVERFLOW', 'ASSERT'):
                add({'kind': 'smfixed', 'scale': scale, 'nbits': nbits, 'rm': rm, 'ov': ov})
        for nv, iv in [(fin(0, scale, 1), fin(1, scale, 1)), (fin(0, 0, 0), fin(0, 0, 0))]:
            add({'kind': 'smfixed', 'scale': scale, 'nbits': nbits, 'rm': 'RNE', 'ov': 'OVERFLOW', 'nan_value': nv, 'inf_value': iv})
    # --- families no lowering applies to (refusal only), and stochastic contexts
    for rm in ('RNE', 'RTZ'):
        add({'kind': 'exp', 'nbits': 3, 'eoffset': 0, 'rm': rm, 'ov': 'OVERFLOW'})
    add({'kind': 'real'})
    for k in (2, None):
        add({'kind': 'mpsfloat', 'p': 3, 'emin': -2, 'rm': 'RNE', 'k': k})
        add({'kind': 'mpbfloat', 'p': 3, 'emin': 0, 'maxval': (False, 0, 7), 'rm': 'RNE', 'ov': 'OVERFLOW', 'k': k})
        add({'kind': 'mpfixed', 'nmin': -2, 'rm': 'RNE', 'k': k})
        add({'kind': 'mpbfixed', 'nmin': -2, 'maxval': (False, -1, 5), 'rm': 'RNE', 'ov': 'SATURATE', 'k': k})
        add({'kind': 'fixed', 'signed': True, 'scale': -1, 'nbits': 3, 'rm': 'RNE', 'ov': 'SATURATE', 'k': k})
    return out


def is_stochastic(d):
    return d.get('k', 0) != 0


# ---------------------------------------------------------------- modules
def module_source(descs, modname):
    lines = ['import fpy2 as fp', 'from harness.c10lib import mk_ctx10', '']
    for i, d in enumerate(descs):
        lines.append(f'C{i} = mk_ctx10({d!r})')
        lines.append('')
        lines.append('@fp.fpy(ctx=fp.REAL)')
        if i % 3 == 2:
            # the returned-round shape of the candidate block
            lines += [f'def q{i}(x):', f'    with C{i}:', '        return fp.round(x)', '']
        else:
            lines += [f'def q{i}(x):', f'    with C{i}:', '        y = fp.round(x)', '    return y', '']
    return '\n'.join(lines) + '\n'


def load_module(dirpath, modname, text):
    d = Path(dirpath)
    d.mkdir(parents=True, exist_ok=True)
    p = d / f'{modname}.py'
    p.write_text(text)
    spec = importlib.util.spec_from_file_location(modname, p)
    mod = importlib.util.module_from_spec(spec)
    sys.modules[modname] = mod
    spec.loader.exec_module(mod)
    return mod


# ---------------------------------------------------------------- results
def run_fn(f, x):
    """('ok', Float) | ('err', exception type name)"""
    try:
        r = f(x)
    except Exception as e:  # noqa
        return ('err', type(e).__name__)
    return ('ok', r)


def res_key(r):
    """exact comparison key: class, sign (zeros and NaN too), exact value"""
    if r[0] == 'err':
        return r
    v = r[1]
    if type(v).__name__ != 'Float':
        return ('other', repr(v))
    if v.isnan:
        return ('nan', v.s)
    if v.isinf:
        return ('inf', v.s)
    return ('fin', v.s, Fraction(v.c) * Fraction(2) ** v.exp)


def e_res(r):
    """wire: 0 fl | 1 err"""
    from .numenc import ERRC, e_fl
    if r[0] == 'err':
        return [1, ERRC.get(r[1], 6)]
    return [0] + e_fl(r[1])


def show_res(r):
    if r[0] == 'err':
        return r[1]
    return repr(res_key(r))


# ---------------------------------------------------------------- contexts a program rounds under
def block_ctxs(func):
    """statically known contexts of the `with` blocks of a Function, in visit order"""
    from fpy2.analysis import PartialEval
    from fpy2.ast import ContextStmt
    from fpy2.ast.visitor import DefaultVisitor
    eval_info = PartialEval.apply(func.ast)
    found = []

    class _C(DefaultVisitor):
        def _visit_context(self, stmt: ContextStmt, ctx):
            value = eval_info.by_expr.get(stmt.ctx)
            found.append(value)
            super()._visit_context(stmt, ctx)

    _C()._visit_function(func.ast, None)
    return found


def tup_of_float(v):
    if v is None:
        return None
    if v.isnan:
        return ('nan', bool(v.s))
    if v.isinf:
        return ('inf', bool(v.s))
    return ('fin', bool(v.s), v.exp, v.c)


def desc_of_ctx(c):
    """fpy2 context object -> descriptor (inverse of mk_ctx10), or None for a class without one"""
    import fpy2 as fp
    n = type(c).__name__
    rf3 = lambda r: (bool(r.s), r.exp, r.c)
    if n == 'RealContext':
        return {'kind': 'real'}
    base = {'rm': c.rm.name, 'k': c.num_randbits} if hasattr(c, 'num_randbits') else {}
    if n == 'MPFloatContext':
        return dict(base, kind='mpfloat', p=c.pmax, enable_nan=c.enable_nan, enable_inf=c.enable_inf,
                    nan_value=tup_of_float(c.nan_value), inf_value=tup_of_float(c.inf_value))
    if n == 'MPSFloatContext':
        return dict(base, kind='mpsfloat', p=c.pmax, emin=c.emin, enable_nan=c.enable_nan, enable_inf=c.enable_inf,
                    nan_value=tup_of_float(c.nan_value), inf_value=tup_of_float(c.inf_value))
    if n == 'MPBFloatContext':
        return dict(base, kind='mpbfloat', p=c.pmax, emin=c.emin, maxval=rf3(c.pos_maxval), neg_maxval=rf3(c.neg_maxval),
                    ov=c.overflow.name, enable_nan=c.enable_nan, enable_inf=c.enable_inf,
                    nan_value=tup_of_float(c.nan_value), inf_value=tup_of_float(c.inf_value))
    if n == 'MPFixedContext':
        return dict(base, kind='mpfixed', nmin=c.nmin, enable_nan=c.enable_nan, enable_inf=c.enable_inf,
                    neg_zero=c.enable_neg_zero, nan_value=tup_of_float(c.nan_value), inf_value=tup_of_float(c.inf_value))
    if n == 'MPBFixedContext':
        return dict(base, kind='mpbfixed', nmin=c.nmin, maxval=rf3(c.pos_maxval), neg_maxval=rf3(c.neg_maxval),
                    ov=c.overflow.name, enable_nan=c.enable_nan, enable_inf=c.enable_inf, neg_zero=c.enable_neg_zero,
                    nan_value=tup_of_float(c.nan_value), inf_value=tup_of_float(c.inf_value))
    if n == 'FixedContext':
        return dict(base, kind='fixed', signed=c.signed, scale=c.scale, nbits=c.nbits, ov=c.overflow.name,
                    nan_value=tup_of_float(c.nan_value), inf_value=tup_of_float(c.inf_value))
    if n == 'SMFixedContext':
        return dict(base, kind='smfixed', scale=c.scale, nbits=c.nbits, ov=c.overflow.name,
                    nan_value=tup_of_float(c.nan_value), inf_value=tup_of_float(c.inf_value))
    if n == 'ExpContext':
        return dict(kind='exp', nbits=c.nbits, eoffset=c.eoffset, rm=c.rm.name, ov=c.overflow.name,
                    inf_value=tup_of_float(c.inf_value))
    if n in ('EFloatContext', 'IEEEContext'):
        return dict(base, kind='efloat', es=c.es, nbits=c.nbits, enable_inf=c.enable_inf, nk=c.nan_kind.name,
                    eoffset=c.eoffset, ov=c.overflow.name, nan_value=tup_of_float(c.nan_value), inf_value=tup_of_float(c.inf_value))
    return None
