"""C18: the property checked directly on fpy2 (no model in the loop):
deep-structure isolation, history independence against fresh definitions and a
fresh process, thread stress.  The thread stress is TESTING, not proof.
"""
from __future__ import annotations

import json
import sys
import threading
import time
from fractions import Fraction

from . import c18lib as L
from .common import PY, impl_env, sh

KEY_WRITE = 'captured_list_write_persists'

DEEP_SRC = '''import fpy2 as fp

@fp.fpy
def neg_all(xs):
    for i in range(len(xs)):
        xs[i] = -xs[i]
    return xs

@fp.fpy
def nested(m, t):
    a, s = t
    for i in range(len(m)):
        row = m[i]
        row[0] = row[0] + s
        a[0] = a[0] + row[0]
    return (m, a, [m[0], a])

@fp.fpy
def swap(p):
    xs, ys = p
    tmp = xs[0]
    xs[0] = ys[0]
    ys[0] = tmp
    return (ys, xs)

@fp.fpy
def ident(x):
    return x

@fp.fpy
def wrap(x):
    return [x, x]

@fp.fpy
def fill(xs, v):
    for i in range(len(xs)):
        xs[i] = v
    return [xs, [v, v]]
'''


def canon(v):
    """Bit-exact canonical form of a Python-side value (never a float comparison)."""
    if isinstance(v, list):
        return ['L'] + [canon(x) for x in v]
    if isinstance(v, tuple):
        return ['T'] + [canon(x) for x in v]
    if isinstance(v, bool):
        return ['B', v]
    if isinstance(v, int):
        return ['I', v]
    if isinstance(v, float):
        return ['F', v.hex()]
    if isinstance(v, Fraction):
        return ['Q', v.numerator, v.denominator]
    if hasattr(v, 'isnan'):
        if v.isnan:
            return ['NaN']
        if v.isinf:
            return ['Inf', bool(v.s)]
        if v.c == 0:
            return ['Z', bool(v.s)]
        c, e = int(v.c), int(v.exp)
        while c % 2 == 0:
            c //= 2
            e += 1
        return ['V', bool(v.s), c, e]
    return ['?', repr(v)]


def leaf(rng, fp):
    k = rng.random()
    if k < 0.4:
        return rng.randint(-50, 50)
    if k < 0.8:
        return rng.choice([0.5, -1.25, 3.0, 1e-3, 7.75, -0.0, 2.5])
    if k < 0.9:
        return fp.Float.from_int(rng.randint(-9, 9))
    return Fraction(rng.randint(-9, 9), 4)


def num_list(rng, fp, n=None):
    return [leaf(rng, fp) for _ in range(n or rng.randint(1, 4))]


def deep_structure(ck, rng, fp):
    path = ck.dir / f'c18_deep_s{ck.seed}.py'
    path.write_text(DEEP_SRC)
    m = L.load_module(path, path.stem)
    n = 0

    def one(fname, args, ctx):
        nonlocal n
        n += 1
        f = getattr(m, fname)
        before, ids_before = canon(args), set(L.list_ids(args))
        try:
            r = f(*args, ctx=ctx)
        except Exception as e:  # noqa: BLE001
            if canon(args) != before:
                ck.violation('argument modified by a call that raised', {'fn': fname, 'before': before, 'after': canon(args), 'exc': repr(e)})
            return
        rep = {'fn': fname, 'args_before': before, 'args_after': canon(args), 'result': canon(r), 'ctx': repr(ctx)}
        if canon(args) != before or set(L.list_ids(args)) != ids_before:
            ck.violation('argument modified by the call (function mutates its list parameters)', rep)
        if set(L.list_ids(r)) & ids_before:
            ck.violation('result shares a list object with an argument', rep)
        # the caller mutates the result: the arguments stay what they were, a second call gives the first result
        first = canon(r)
        for lst in L.list_ids(r).values():
            if lst:
                lst[0] = 12345
        if canon(args) != before:
            ck.violation('writing into the returned list changed an argument', rep)
        try:
            r2 = f(*args, ctx=ctx)
            if canon(r2) != first:
                ck.violation('second call with the same arguments differs after the caller wrote into the first result',
                             dict(rep, second=canon(r2)))
        except Exception as e:  # noqa: BLE001
            ck.violation('second call with the same arguments raised after the caller wrote into the first result', dict(rep, exc=repr(e)))
            return
        # the caller mutates the arguments after the call: the result already returned does not change
        snap = canon(r2)
        for lst in L.list_ids(args).values():
            if lst:
                lst[0] = -777
        if canon(r2) != snap:
            ck.violation('writing into an argument after the call changed the returned value', rep)

    ctxs = [fp.FP64, fp.FP32, fp.IEEEContext(5, 16, fp.RM.RTZ), fp.MPFixedContext(-4, fp.RM.RTP), fp.MPFloatContext(10, fp.RM.RAZ)]
    for _ in range(40):
        ctx = rng.choice(ctxs)
        xs = num_list(rng, fp)
        one('neg_all', (xs,), ctx)
        rows = [num_list(rng, fp, 2) for _ in range(rng.randint(1, 3))]
        if rng.random() < 0.4:
            rows.append(rows[0])          # the same list object twice in the argument
        one('nested', (rows, (num_list(rng, fp, 2), leaf(rng, fp))), ctx)
        a = num_list(rng, fp, 2)
        one('swap', ((a, a if rng.random() < 0.3 else num_list(rng, fp, 2)),), ctx)
        deep = [[num_list(rng, fp), num_list(rng, fp)], [num_list(rng, fp)]]
        one('ident', (deep,), ctx)
        one('ident', ((deep[0], (xs, leaf(rng, fp))),), ctx)
        one('wrap', (num_list(rng, fp),), ctx)
        one('fill', (num_list(rng, fp, 3), leaf(rng, fp)), ctx)
    ck.evaluations += n
    ck.count('deep-structure calls (args deep-compared, id()-disjointness, write-after-return, write-after-call)', n)


# ---------------------------------------------------------------- history independence
POOL_SRC = '''import fpy2 as fp

COEFFS = (0.5, -1.25, 3.0)
TABLE = [1.0, 2.0, 4.0]

@fp.fpy
def horner(x):
    acc = 0
    for c in COEFFS:
        acc = acc * x + c
    return acc

@fp.fpy
def lookup(x, k):
    return TABLE[k] * x + TABLE[0]

@fp.fpy
def trig(x):
    return fp.sin(x) * fp.cos(x) + fp.const_pi()

@fp.fpy
def expo(x, y):
    return fp.exp(x) / (fp.sqrt(fp.fabs(y)) + 1)

@fp.fpy
def mixed(x, y):
    with fp.IEEEContext(5, 16, fp.RM.RTZ):
        a = x * y
    with fp.FP32:
        b = fp.fma(a, x, y)
    return a + b

@fp.fpy(ctx=fp.IEEEContext(8, 32, fp.RM.RTP))
def pinned(x):
    return fp.log1p(fp.fabs(x)) + fp.const_e()

@fp.fpy
def accumulate(xs):
    s = 0
    for i in range(len(xs)):
        xs[i] = xs[i] + s
        s = xs[i]
    return (s, xs)

@fp.fpy
def deep(x):
    t = x
    for i in range(40):
        t = fp.sqrt(t * t + 1) - t / 3
    return t

@fp.fpy
def tri(n, x):
    xs = range(n)
    xs[0] = xs[0] + x
    s = 0
    for v in range(n):
        s = s + v
    for v in xs:
        s = s + v
    return (s, xs, range(n))

@fp.fpy
def pairs(xs):
    ps = enumerate(xs)
    ps[0] = (7, xs[0])
    zs = zip(xs, xs)
    zs[0] = (xs[0] + 1, xs[0])
    return (ps, zs, enumerate(xs), zip(xs, xs))

@fp.fpy
def tail(xs):
    ys = xs[1:]
    ys[0] = ys[0] * 2
    zs = [v + 1 for v in xs]
    zs[0] = zs[0] - 5
    return (ys, zs, xs[1:], [v + 1 for v in xs])
'''

REF_SCRIPT = '''import json, sys, importlib.util
sys.path.insert(0, {root!r})
from harness import c18stress as S
import fpy2 as fp
spec = importlib.util.spec_from_file_location('c18_pool_ref', {path!r})
m = importlib.util.module_from_spec(spec); sys.modules['c18_pool_ref'] = m; spec.loader.exec_module(m)
from fpy2.transform import DeadCodeEliminate
targets = json.load(open({tpath!r}))
out = []
for t in targets:
    base = getattr(m, t['fn'])
    out.append({{'same': S.eval_target(m, fp, t),
                 'dce': S.eval_target(m, fp, t, base.with_ast(DeadCodeEliminate.apply(base.ast)))}})
json.dump(out, open({opath!r}, 'w'))
'''


def ctx_of(fp, spec):
    kind = spec[0]
    if kind == 'ieee':
        return fp.IEEEContext(spec[1], spec[2], getattr(fp.RM, spec[3]))
    if kind == 'mp':
        return fp.MPFloatContext(spec[1], getattr(fp.RM, spec[2]))
    if kind == 'fixed':
        return fp.MPFixedContext(spec[1], getattr(fp.RM, spec[2]))
    raise KeyError(kind)


def rand_ctx_spec(rng):
    rm = rng.choice(['RNE', 'RNA', 'RTP', 'RTN', 'RTZ', 'RAZ'])
    k = rng.random()
    if k < 0.5:
        es, nb = rng.choice([(11, 64), (8, 32), (5, 16), (4, 8), (15, 80)])
        return ['ieee', es, nb, rm]
    if k < 0.8:
        return ['mp', rng.choice([3, 8, 24, 53, 113]), rm]
    return ['fixed', rng.choice([-1, -8, -20]), rm]


def unjson(a):
    """JSON-able argument -> Python argument (floats travel as hex strings)."""
    if isinstance(a, list):
        return [unjson(x) for x in a]
    if isinstance(a, str):
        return float.fromhex(a)
    return a


def eval_target(m, fp, t, f=None):
    f = f or getattr(m, t['fn'])
    args = [unjson(a) for a in t['args']]
    try:
        r = f(*args, ctx=ctx_of(fp, t['ctx']))
        c = canon(r)
        _poke(r)       # the caller owns the result: writing into it must not be seen by any later evaluation
        return c
    except Exception as e:  # noqa: BLE001
        return ['EXC', type(e).__name__]


def _poke(v):
    if isinstance(v, list):
        for x in v:
            _poke(x)
        if v:
            v[0] = v[-1]
            v.append(12345)
    elif isinstance(v, tuple):
        for x in v:
            _poke(x)


def rand_target(rng):
    def num():
        k = rng.random()
        if k < 0.4:
            return rng.randint(-5, 5)
        if k < 0.7:
            return (rng.randint(-40, 40) / 8).hex()
        return (rng.random() * 3).hex()
    fn = rng.choice(['horner', 'lookup', 'trig', 'expo', 'mixed', 'pinned', 'accumulate', 'deep', 'tri', 'pairs', 'tail'])
    if fn == 'tri':
        args = [rng.randint(1, 4), num()]
    elif fn in ('pairs', 'tail'):
        args = [[num() for _ in range(rng.randint(2, 4))]]
    elif fn == 'lookup':
        args = [num(), rng.randint(0, 2)]
    elif fn in ('expo', 'mixed'):
        args = [num(), num()]
    elif fn == 'accumulate':
        args = [[num() for _ in range(rng.randint(1, 4))]]
    else:
        args = [num()]
    return {'fn': fn, 'args': args, 'ctx': rand_ctx_spec(rng)}


def history_independence(ck, rng, fp, thorough):
    from fpy2.transform import DeadCodeEliminate
    path = ck.dir / f'c18_pool_s{ck.seed}.py'
    path.write_text(POOL_SRC)
    m = L.load_module(path, path.stem)
    ntargets = 120 if thorough else 40
    nhist = 60 if thorough else 25
    targets = [rand_target(rng) for _ in range(ntargets)]
    # reference: a fresh process in which nothing but the targets themselves was evaluated
    tpath, opath, spath = ck.dir / 'targets.json', ck.dir / 'targets_ref.json', ck.dir / 'ref_script.py'
    tpath.write_text(json.dumps(targets))
    from .common import ROOT
    spath.write_text(REF_SCRIPT.format(root=str(ROOT), path=str(path), tpath=str(tpath), opath=str(opath)))
    rc, out = sh([PY, str(spath)], timeout=600, env=impl_env())
    if rc != 0 or not opath.exists():
        ck.broken.append('history independence: reference process failed: ' + out[-400:])
        return
    ref = json.loads(opath.read_text())
    n = 0
    for t, expect in zip(targets, ref):
        # N random other evaluations: other functions, other contexts and rounding modes, transformed copies
        base = getattr(m, t['fn'])
        copies = {'same-object': base,
                  'dce-copy': base.with_ast(DeadCodeEliminate.apply(base.ast)),
                  're-decorated': None}
        for _ in range(nhist):
            h = rand_target(rng)
            g = getattr(m, h['fn'])
            if rng.random() < 0.2:
                g = g.with_ast(DeadCodeEliminate.apply(g.ast))
            eval_target(m, fp, h, g)
            n += 1
        for how, f in copies.items():
            if f is None:
                m2 = L.load_module(path, f'{path.stem}_again{n}')
                f = getattr(m2, t['fn'])
            got = json.loads(json.dumps(eval_target(m, fp, t, f)))
            n += 1
            # a transformed copy is compared with the SAME transformed copy in the fresh process
            # (whether the transformation preserves meaning is C07's business, not C18's)
            if got != expect['dce' if how == 'dce-copy' else 'same']:
                ck.violation('result differs from the result in a fresh process (history dependence)',
                             {'target': t, 'how': how, 'fresh_process': expect, 'after_history': got,
                              'history_length': nhist, 'module': str(path)})
    ck.evaluations += n
    ck.count('history-independence evaluations (fresh process vs after random history; same object / DCE copy / re-decorated)', n)


# ---------------------------------------------------------------- threads (TESTING)
def thread_stress(ck, rng, fp, thorough):
    path = ck.dir / f'c18_pool_s{ck.seed}.py'
    nthreads = 8
    per_thread = 6000 if thorough else 1200
    ctx_specs = [['ieee', 11, 64, 'RNE'], ['ieee', 8, 32, 'RTZ'], ['ieee', 5, 16, 'RTP'], ['mp', 24, 'RTN'],
                 ['mp', 7, 'RAZ'], ['fixed', -8, 'RNA'], ['ieee', 4, 8, 'RNE'], ['mp', 113, 'RTZ']]
    # per thread: a fixed work list (target, expected) computed sequentially on one module instance ...
    mseq = L.load_module(path, f'{path.stem}_seq')
    work = []
    for k in range(nthreads):
        items = []
        for _ in range(60):
            t = rand_target(rng)
            t['ctx'] = ctx_specs[k]
            items.append((t, eval_target(mseq, fp, t)))
        work.append(items)
    # ... and run concurrently on a FRESH instance (first calls race on compile + func_cache insert)
    mthr = L.load_module(path, f'{path.stem}_thr')
    barrier = threading.Barrier(nthreads)
    bad, counts = [], [0] * nthreads
    old = sys.getswitchinterval()
    sys.setswitchinterval(1e-5)

    def worker(k):
        barrier.wait()
        items = work[k]
        for j in range(per_thread):
            t, expect = items[j % len(items)]
            got = eval_target(mthr, fp, t)
            counts[k] += 1
            if got != expect:
                bad.append({'thread': k, 'target': t, 'sequential': expect, 'concurrent': got})
                if len(bad) > 20:
                    return

    t0 = time.time()
    ths = [threading.Thread(target=worker, args=(k,)) for k in range(nthreads)]
    for th in ths:
        th.start()
    for th in ths:
        th.join(timeout=1500)
    sys.setswitchinterval(old)
    if any(th.is_alive() for th in ths):
        ck.broken.append('thread stress: a worker did not finish')
    for b in bad[:5]:
        ck.violation('a concurrent evaluation differs from the sequential evaluation (thread stress)', dict(b, module=str(path)))
    total = sum(counts)
    ck.evaluations += total
    ck.count(f'thread-stress calls ({nthreads} threads, distinct contexts/rounding modes; TESTING)', total)
    ck.extra['thread_stress'] = {'threads': nthreads, 'calls': total, 'mismatches': len(bad), 'seconds': round(time.time() - t0, 1),
                                 'label': 'testing (not proof): CPython scheduling, gmpy2 thread-local context, MPFR caches'}
