"""
Generator of loop programs for property C08 (loop / iterator restructuring).

    g = LoopGen(rng, family)          family in 'while' | 'for' | 'iter' | 'fuse'
    prog = g.program()                lang.Program with one function `main(xs, ys, kf, a0)`
    g.features                        set of feature tags planted in the program

xs, ys: lists of reals of the same length; kf: a real (split factor / threshold);
a0: a real.  Programs pass fpy2's syntax check (variables introduced in a loop
body or branch are not used after it), terminate (while loops are counter loops
bounded by a literal <= 4, exact in every context used), and use only operations
of the executable number instance (coq/Lang/Transforms/NumInt.v): + - * fma neg,
comparisons, len, range, zip, enumerate, comprehensions, any/all, fst/snd.

Planted features: bodies reassigning outer variables, mutating the iterated list
(ahead of and behind the cursor), returning early, nested loops (for in for, while
in for, for in while, over range / lists / list literals), tuple targets,
zip / enumerate incl. enumerate(zip(..)) with whole-tuple and discarded slots,
comprehension forms, any/all in assignment / condition / return / and-or / while
condition / nested, user variables named like the temporaries (t, n, m, i, j, acc, b, _src, _i).
"""
from __future__ import annotations

from fractions import Fraction as F

from .lang import CtxSpec, Func, N, Node, Program

V = lambda x: Node('var', x)          # noqa: E731
PV = lambda x: Node('pvar', x)        # noqa: E731
W = Node('pwild')


def lit(q):
    return Node('num', N.fin(q))


def PT(*ps):
    return Node('ptuple', list(ps))


LITS = [0, 1, 2, 3, -1, F(1, 2), F(3, 2), F(-5, 4), F(1, 4), 5]
MULS = [F(1, 2), -1, 2, F(3, 2), F(-1, 4)]
CLASH = ['t', 'n', 'm', 'i', 'j', 'acc', 'b', '_src', '_i', 't1', 'i1']


class LoopGen:
    def __init__(self, rng, family):
        self.r = rng
        self.family = family
        self.features = set()
        self.counter = 0
        # user variables that look like generated temporaries, to stress Gensym
        self.clash = rng.random() < 0.35
        self.counters = set()      # while-loop counters: never reassigned by a nested body (termination)
        self.ctx = None

    def fresh(self, base):
        if self.clash and self.r.random() < 0.5:
            cand = [c for c in CLASH if c not in self.used]
            if cand:
                x = self.r.choice(cand)
                self.used.add(x)
                self.features.add('clash-name')
                return x
        self.counter += 1
        x = f'{base}{self.counter}'
        self.used.add(x)
        return x

    # ------------------------------------------------------------ expressions
    def leaf(self, sc):
        vs = [x for x, t in sc.items() if t == 'R']
        if vs and self.r.random() < 0.75:
            return V(self.r.choice(vs))
        return lit(self.r.choice(LITS))

    def expr_R(self, sc, d=2):
        r = self.r
        if d <= 0 or r.random() < 0.3:
            return self.leaf(sc)
        c = r.random()
        if c < 0.55:
            return Node('op2', r.choice(['add', 'sub', 'add']), self.expr_R(sc, d - 1), self.expr_R(sc, d - 1))
        if c < 0.7:
            # products always have a small literal factor (values stay small under REAL)
            return Node('op2', 'mul', self.expr_R(sc, d - 1), lit(r.choice(MULS)))
        if c < 0.8:
            return Node('op3', 'fma', self.leaf(sc), lit(r.choice(MULS)), self.expr_R(sc, d - 1))
        if c < 0.88:
            a = self.expr_R(sc, d - 1)
            return Node('op1', 'fabs' if a.k == 'num' else 'neg', a)
        ts = [x for x, t in sc.items() if t == 'T']
        if ts:
            return Node(r.choice(['fst', 'snd']), V(r.choice(ts)))
        return self.leaf(sc)

    def expr_B(self, sc, d=1):
        r = self.r
        c = r.random()
        if d > 0 and c < 0.2:
            return Node(r.choice(['and', 'or']), [self.expr_B(sc, d - 1), self.expr_B(sc, d - 1)])
        if d > 0 and c < 0.27:
            return Node('not', self.expr_B(sc, d - 1))
        return Node('cmp', [r.choice(['<', '<=', '>', '>=', '==', '!='])], [self.expr_R(sc, 1), self.expr_R(sc, 1)])

    # ------------------------------------------------------------ loop bodies
    def body(self, sc, d, elems, lists, n_stmts=None, allow_ret=True):
        """Statements of a loop body.  sc: scope (name -> 'R' real | 'T' pair | 'I' exact index | 'L' list);
        elems: the loop's own target names; lists: list variables that may be mutated."""
        r = self.r
        out = []
        k = n_stmts if n_stmts is not None else r.randint(1, 3)
        outer = [x for x, t in sc.items() if t == 'R' and x not in elems and x != 'kf' and x not in self.counters]
        for _ in range(k):
            c = r.random()
            if c < 0.32 and outer:
                x = r.choice(outer)
                if r.random() < 0.25:
                    out.append(Node('assign', PV(x), Node('op2', 'mul', V(x), lit(r.choice(MULS)))))
                else:
                    out.append(Node('assign', PV(x), Node('op2', r.choice(['add', 'sub']), V(x), self.expr_R(sc, 1))))
                self.features.add('reassign-outer')
            elif c < 0.42 and outer:
                x = r.choice(outer)
                out.append(Node('assign', PV(x), self.expr_R(sc, 2)))
                self.features.add('reassign-outer')
            elif c < 0.62 and lists:
                ys = r.choice(lists)
                j = r.randint(0, 3)
                idxs = [x for x, t in sc.items() if t == 'I']
                if idxs and r.random() < 0.5:
                    i = r.choice(idxs)
                    out.append(Node('iassign', ys, [V(i)], self.expr_R(sc, 1)))
                    self.features.add('mutate-at-cursor')
                else:
                    out.append(Node('if1', Node('cmp', ['>'], [Node('len', V(ys)), lit(j)]),
                                    [Node('iassign', ys, [lit(j)], self.expr_R(sc, 1))]))
                    self.features.add('mutate-iterated-list')
            elif c < 0.72 and allow_ret:
                ret = Node('tuple', [self.leaf(sc), self.expr_R(sc, 1)]) if r.random() < 0.5 else self.expr_R(sc, 1)
                out.append(Node('if1', self.expr_B(sc, 0), [Node('return', ret)]))
                self.features.add('early-return')
            elif c < 0.86 and d > 0:
                out += self.loop(dict(sc), d - 1, lists, nested=True)
                self.features.add('nested-loop')
            elif c < 0.93:
                x = self.fresh('u')
                out.append(Node('assign', PV(x), self.expr_R(sc, 2)))
                sc[x] = 'R'
            else:
                b1 = self.body(dict(sc), 0, elems, lists, 1, allow_ret)
                b2 = self.body(dict(sc), 0, elems, lists, 1, allow_ret)
                out.append(Node('if', self.expr_B(sc, 0), b1, b2))
        return out

    def for_header(self, sc, lists, kinds):
        """-> (target, iterable, new scope entries, tag)"""
        r = self.r
        kind = r.choice(kinds)
        ls = [x for x in lists]
        xs = r.choice(ls)
        others = [x for x in ls if x != xs] or [xs]
        ys = r.choice(others)
        x, y, i = self.fresh('x'), self.fresh('y'), self.fresh('k')
        if kind == 'list':
            return PV(x), V(xs), {x: 'R'}, 'for-list'
        if kind == 'range':
            return PV(i), Node('range', [Node('len', V(xs))]), {i: 'I'}, 'for-range-len'
        if kind == 'range-const':
            return PV(i), Node('range', [lit(r.randint(0, 5))]), {i: 'R'}, 'for-range-const'
        if kind == 'literal':
            return PV(x), Node('list', [self.leaf(sc) for _ in range(r.randint(0, 4))]), {x: 'R'}, 'for-list-literal'
        if kind == 'slice':
            return PV(x), Node('slice', V(xs), None, None), {x: 'R'}, 'for-slice'
        if kind == 'comp':
            e = self.fresh('e')
            return PV(x), Node('comp', [(PV(e), V(xs))], Node('op2', 'mul', V(e), lit(r.choice(MULS)))), {x: 'R'}, 'for-comp'
        if kind == 'zip':
            c = r.random()
            if c < 0.5:
                return PT(PV(x), PV(y)), Node('zip', [V(xs), V(ys)]), {x: 'R', y: 'R'}, 'for-zip'
            if c < 0.65:
                return PV(x), Node('zip', [V(xs), V(ys)]), {x: 'T'}, 'for-zip-whole'
            if c < 0.75:
                return W, Node('zip', [V(xs), V(ys)]), {}, 'for-zip-discard'
            if c < 0.87:
                return PT(PV(x), W), Node('zip', [V(xs), V(ys)]), {x: 'R'}, 'for-zip-discard-slot'
            z = self.fresh('z')
            return PT(PV(x), PV(y), PV(z)), Node('zip', [V(xs), V(ys), V(xs)]), {x: 'R', y: 'R', z: 'R'}, 'for-zip3'
        if kind == 'enumerate':
            c = r.random()
            if c < 0.5:
                return PT(PV(i), PV(x)), Node('enumerate', V(xs)), {i: 'I', x: 'R'}, 'for-enumerate'
            if c < 0.62:
                return PT(W, PV(x)), Node('enumerate', V(xs)), {x: 'R'}, 'for-enumerate-discard-index'
            if c < 0.72:
                return PT(PV(i), W), Node('enumerate', V(xs)), {i: 'I'}, 'for-enumerate-discard-elt'
            if c < 0.8:
                return PV(x), Node('enumerate', V(xs)), {x: 'T'}, 'for-enumerate-whole'
            return PT(PV(i), PV(x)), Node('enumerate', Node('slice', V(xs), None, None)), {i: 'I', x: 'R'}, 'for-enumerate-slice'
        if kind == 'enumzip':
            c = r.random()
            zp = Node('zip', [V(xs), V(ys)])
            if c < 0.4:
                return PT(PV(i), PT(PV(x), PV(y))), Node('enumerate', zp), {i: 'I', x: 'R', y: 'R'}, 'for-enumerate-zip'
            if c < 0.55:
                return PT(PV(i), PV(x)), Node('enumerate', zp), {i: 'I', x: 'T'}, 'for-enumerate-zip-whole'
            if c < 0.7:
                return PT(W, PT(PV(x), W)), Node('enumerate', zp), {x: 'R'}, 'for-enumerate-zip-discard'
            if c < 0.8:
                return PT(PV(i), W), Node('enumerate', zp), {i: 'I'}, 'for-enumerate-zip-discard-elt'
            if c < 0.9:
                return PT(W, W), Node('enumerate', zp), {}, 'for-enumerate-zip-discard-all'
            return PT(PV(i), PT(PV(x), PV(y))), Node('enumerate', Node('zip', [V(xs), Node('range', [Node('len', V(xs))])])), \
                {i: 'I', x: 'R', y: 'R'}, 'for-enumerate-zip-range'
        raise AssertionError(kind)

    def loop(self, sc, d, lists, nested=False):
        """One loop statement (with its counter initialisation if a while); does not extend sc."""
        r = self.r
        fam = self.family
        if fam == 'while':
            kinds = ['while'] * 3 + ['for']
        elif fam == 'for':
            kinds = ['for'] * 5 + ['while']
        elif fam == 'iter':
            kinds = ['iter'] * 4 + ['for']
        else:
            kinds = ['for', 'iter']
        kind = r.choice(kinds)
        if kind == 'while':
            c = self.fresh('c')
            self.counters.add(c)
            inner = dict(sc)
            inner[c] = 'R'
            bound = r.randint(1, 4)
            # the condition first: it may not mention a variable the body introduces
            if r.random() < 0.3:
                cond = Node('and', [Node('cmp', ['<'], [V(c), lit(bound)]), self.expr_B(dict(inner), 0)])
            else:
                cond = Node('cmp', ['<'], [V(c), lit(bound)])
            b = self.body(inner, d, [c], lists)
            b.append(Node('assign', PV(c), Node('op2', 'add', V(c), lit(1))))
            self.features.add('while')
            return [Node('assign', PV(c), lit(0)), Node('while', cond, b)]
        if kind == 'for':
            hk = ['list'] * 5 + ['range', 'range', 'range-const', 'literal', 'slice', 'comp', 'zip', 'enumerate']
        else:
            hk = ['zip'] * 3 + ['enumerate'] * 3 + ['enumzip'] * 3
        tgt, it, new, tag = self.for_header(sc, lists, hk)
        self.features.add(tag)
        inner = dict(sc)
        inner.update(new)
        b = self.body(inner, d, list(new), lists)
        return [Node('for', tgt, it, b)]

    # ------------------------------------------------------------ comprehension / reduction forms
    def comp_expr(self, sc, lists, elt_ty):
        r = self.r
        xs = r.choice(lists)
        ys = r.choice([l for l in lists if l != xs] or [xs])
        x, y, i = self.fresh('e'), self.fresh('f'), self.fresh('g')
        inner = dict(sc)
        c = r.random()
        if c < 0.25:
            gens, new = [(PV(x), V(xs))], {x: 'R'}
        elif c < 0.45:
            gens, new = [(PT(PV(x), PV(y)), Node('zip', [V(xs), V(ys)]))], {x: 'R', y: 'R'}
            self.features.add('comp-zip')
        elif c < 0.55:
            gens, new = [(PV(x), Node('zip', [V(xs), V(ys)]))], {x: 'T'}
            self.features.add('comp-zip-whole')
        elif c < 0.72:
            gens, new = [(PT(PV(i), PV(x)), Node('enumerate', V(xs)))], {i: 'R', x: 'R'}
            self.features.add('comp-enumerate')
        elif c < 0.82:
            gens, new = [(PT(PV(i), PT(PV(x), PV(y))), Node('enumerate', Node('zip', [V(xs), V(ys)])))], {i: 'R', x: 'R', y: 'R'}
            self.features.add('comp-enumerate-zip')
        elif c < 0.9:
            gens, new = [(PT(PV(x), PV(y)), Node('zip', [V(xs), V(ys)])), (PV(i), V(ys))], {x: 'R', y: 'R', i: 'R'}
            self.features.add('comp-two-stage')
        else:
            gens, new = [(PT(W, PV(x)), Node('enumerate', V(xs)))], {x: 'R'}
            self.features.add('comp-enumerate-discard')
        inner.update(new)
        elt = self.expr_R(inner, 2) if elt_ty == 'R' else self.expr_B(inner, 1)
        if elt_ty == 'R' and r.random() < 0.3:
            # a nested comprehension that shadows a target, through a flat or a nested destructuring pattern
            sh = r.choice(list(new))
            if r.random() < 0.5:
                elt = Node('sum', Node('comp', [(PV(sh), V(ys))], Node('op2', 'mul', V(sh), lit(r.choice(MULS)))))
                self.features.add('comp-shadow')
            else:
                g2, f2 = self.fresh('g'), self.fresh('f')
                elt = Node('sum', Node('comp', [(PT(PV(g2), PT(PV(sh), PV(f2))), Node('enumerate', Node('zip', [V(ys), V(ys)])))],
                                       Node('op2', 'mul', V(sh), Node('op2', 'add', V(f2), lit(r.choice(MULS))))))
                self.features.add('comp-shadow-nested-pattern')
        return Node('comp', gens, elt)

    def anyall(self, sc, lists):
        return Node(self.r.choice(['any', 'all']), self.comp_expr(sc, lists, 'B'))

    # ------------------------------------------------------------ programs
    def program(self):
        r = self.r
        self.used = {'xs', 'ys', 'kf', 'a0', 'main'}
        fam = self.family
        if r.random() < 0.45:
            self.ctx = r.choice([CtxSpec('MPFloat', p=2, rm='RNE'), CtxSpec('MPFloat', p=3, rm='RTP'),
                                 CtxSpec('MPFloat', p=4, rm='RTZ'), CtxSpec('REAL'),
                                 CtxSpec('MPSFloat', p=3, emin=-2, rm='RNA')])
            self.features.add('declared-ctx')
        acc, s = self.fresh('acc'), self.fresh('s')
        sc = {'kf': 'R', 'a0': 'R', acc: 'R', s: 'R'}
        lists = ['xs', 'ys']
        body = [Node('assign', PV(acc), V('a0')), Node('assign', PV(s), lit(r.choice(LITS)))]
        if fam == 'fuse':
            body += self.fuse_stmts(sc, lists)
        else:
            for _ in range(r.choice([1, 1, 2])):
                body += self.loop(sc, r.choice([0, 1, 1, 2]), lists)
            if fam == 'iter' and r.random() < 0.6:
                z = self.fresh('w')
                body.append(Node('assign', PV(z), self.comp_expr(sc, lists, 'R')))
                body.append(Node('assign', PV(s), Node('op2', 'add', V(s), Node('sum', V(z)))))
        body = self.gensym_trap(body, acc, s)
        acc, s = self.renamed.get(acc, acc), self.renamed.get(s, s)
        items = [V(acc), V(s)]
        if r.random() < 0.7:
            items.append(V('xs'))
        if r.random() < 0.3:
            items.append(V('ys'))
        body.append(Node('return', Node('tuple', items)))
        return Program([Func('main', ['xs', 'ys', 'kf', 'a0'], self.ctx, body)])

    def gensym_trap(self, body, acc, s):
        """Rename two user variables to `base` and `base<N>`, N about the number of names of the function: the
        first name Gensym tries after `base` (utils/gensym.py starts its counter at the size of the reserved set)."""
        r = self.r
        self.renamed = {}
        if r.random() > 0.12:
            return body
        names = []

        def collect(n):
            if n.k in ('var', 'pvar'):
                names.append(n.a[0])
            elif n.k == 'iassign':
                names.append(n.a[0])
        from .lang import walk
        walk(body, collect)
        distinct = sorted(set(names) | {'xs', 'ys', 'kf', 'a0'})
        base = r.choice({'while': ['t'], 'for': ['t', 'i', 'n', 't', 'j'], 'iter': ['_src', '_i'], 'fuse': ['acc', 'b']}[self.family])
        n = len(distinct) + r.choice([0, 0, 0, -1, 1])
        trap = f'{base}{n}'
        if base in distinct or trap in distinct:
            return body
        self.renamed = {acc: base, s: trap}
        self.features.add('gensym-trap')

        def ren(x):
            if isinstance(x, Node):
                if x.k in ('var', 'pvar'):
                    return Node(x.k, self.renamed.get(x.a[0], x.a[0]))
                if x.k == 'iassign':
                    return Node('iassign', self.renamed.get(x.a[0], x.a[0]), ren(x.a[1]), ren(x.a[2]))
                return Node(x.k, *[ren(y) for y in x.a])
            if isinstance(x, list):
                return [ren(y) for y in x]
            if isinstance(x, tuple):
                return tuple(ren(y) for y in x)
            return x
        return ren(body)

    def fuse_stmts(self, sc, lists):
        r = self.r
        out = []
        for _ in range(r.randint(1, 3)):
            c = r.random()
            flag = self.fresh('q')
            if c < 0.2:
                out.append(Node('assign', PV(flag), self.anyall(sc, lists)))
                sc[flag] = 'B'
                self.features.add('fuse-assign')
            elif c < 0.3:
                # a reduction nested directly in the element of another reduction; the inner comprehension
                # reads the outer comprehension variable, which may also be bound before the statement
                x, y = self.fresh('e'), self.fresh('f')
                xs, ys = r.choice(lists), r.choice(lists)
                if r.random() < 0.5:
                    out.append(Node('assign', PV(x), self.leaf(sc)))
                    sc[x] = 'R'
                    self.features.add('fuse-nested-outer-bound-before')
                inner = Node(r.choice(['any', 'all']),
                             Node('comp', [(PV(y), V(ys))], Node('cmp', [r.choice(['<', '<=', '>', '!='])], [V(y), V(x)])))
                k = r.random()
                if k < 0.25:
                    inner = Node('not', inner)
                elif k < 0.5:
                    inner = Node(r.choice(['and', 'or']), [Node('cmp', ['>'], [V(x), self.leaf(sc)]), inner])
                out.append(Node('assign', PV(flag), Node(r.choice(['any', 'all']), Node('comp', [(PV(x), V(xs))], inner))))
                sc[flag] = 'B'
                self.features.add('fuse-nested-reduction')
            elif c < 0.45:
                body = self.body(dict(sc), 0, [], lists, 1, allow_ret=True)
                out.append(Node('if1', self.anyall(sc, lists), body))
                self.features.add('fuse-if-cond')
            elif c < 0.55:
                out.append(Node('assign', PV(flag), Node(r.choice(['and', 'or']), [self.expr_B(sc, 0), self.anyall(sc, lists)])))
                sc[flag] = 'B'
                self.features.add('fuse-in-shortcircuit')
            elif c < 0.63:
                out.append(Node('assign', PV(flag), Node(r.choice(['and', 'or']), [self.anyall(sc, lists), self.anyall(sc, lists)])))
                sc[flag] = 'B'
                self.features.add('fuse-two-in-shortcircuit')
            elif c < 0.7:
                out.append(Node('assign', PV(flag), Node('ife', self.expr_B(sc, 0), self.anyall(sc, lists), Node('bool', True))))
                sc[flag] = 'B'
                self.features.add('fuse-in-ifexpr-branch')
            elif c < 0.78:
                cvar = self.fresh('c')
                self.counters.add(cvar)
                inner = dict(sc)
                inner[cvar] = 'R'
                wcond = Node('and', [Node('cmp', ['<'], [V(cvar), lit(r.randint(1, 3))]), self.anyall(dict(inner), lists)])
                wb = self.body(inner, 0, [cvar], lists, 1, allow_ret=False)
                wb.append(Node('assign', PV(cvar), Node('op2', 'add', V(cvar), lit(1))))
                out.append(Node('assign', PV(cvar), lit(0)))
                out.append(Node('while', wcond, wb))
                self.features.add('fuse-in-while-cond')
            elif c < 0.86:
                # the comprehension target shadows an outer variable
                x = r.choice([v for v, t in sc.items() if t == 'R' and v not in ('kf', 'a0')])
                comp = Node('comp', [(PV(x), V(r.choice(lists)))], Node('cmp', ['>'], [V(x), self.leaf({})]))
                out.append(Node('assign', PV(flag), Node(r.choice(['any', 'all']), comp)))
                sc[flag] = 'B'
                self.features.add('fuse-target-shadows')
            elif c < 0.93:
                tgt, it, new, tag = self.for_header(sc, lists, ['list', 'range', 'enumerate'])
                inner = dict(sc)
                inner.update(new)
                fb = [Node('if1', self.anyall(inner, lists), self.body(dict(inner), 0, list(new), lists, 1))]
                out.append(Node('for', tgt, it, fb))
                self.features.add('fuse-in-loop-body')
            else:
                e = self.fresh('e')
                inner_any = Node('any', Node('comp', [(PV(e), V(r.choice(lists)))],
                                             Node('cmp', ['>'], [V(e), self.leaf(sc)])))
                out.append(Node('assign', PV(flag), Node('not', inner_any)))
                sc[flag] = 'B'
                self.features.add('fuse-under-not')
        bs = [x for x, t in sc.items() if t == 'B']
        racc = [x for x, t in sc.items() if t == 'R' and x not in ('kf', 'a0')][0]
        for b in bs:
            out.append(Node('if1', V(b), [Node('assign', PV(racc), Node('op2', 'add', V(racc), lit(1)))]))
        return out

    # ------------------------------------------------------------ arguments
    VALS = [0, 1, -1, 2, 3, 0.5, -0.75, 1.5, 2.25, -3, 4, 0.125, 7, -2.5]

    def args(self, n, kf=None):
        r = self.r
        xs = [N.of(r.choice(self.VALS)) for _ in range(n)]
        ys = [N.of(r.choice(self.VALS)) for _ in range(n)]
        k = N.of(kf if kf is not None else r.choice([1, 2, 3, 0.5, -1, 4]))
        return [xs, ys, k, N.of(r.choice(self.VALS))]


def corpus():
    """Fixed programs run on every seed: [(family, Program)].  Reductions nested in the element of a reduction, the
    inner comprehension reading the outer comprehension variable -- unbound outside, or also bound before."""
    def cmpn(o, a, b):
        return Node('cmp', [o], [a, b])

    def nested(outer, inner, o):
        return Node(outer, Node('comp', [(PV('x'), V('xs'))],
                                Node(inner, Node('comp', [(PV('y'), V('ys'))], cmpn(o, V('y'), V('x'))))))

    def prog(pre, q, ret):
        body = [Node('assign', PV('acc'), V('a0'))] + pre + [
            Node('assign', PV('q'), q),
            Node('if1', V('q'), [Node('assign', PV('acc'), Node('op2', 'add', V('acc'), lit(1)))]),
            Node('return', Node('tuple', ret))]
        return Program([Func('main', ['xs', 'ys', 'kf', 'a0'], None, body)])
    out = []
    for outer, inner, o in (('all', 'any', '<'), ('any', 'all', '>'), ('all', 'all', '!=')):
        out.append(('fuse', prog([], nested(outer, inner, o), [V('acc'), V('xs')])))
        # the outer comprehension variable is also a variable of the function, bound before and not read after
        out.append(('fuse', prog([Node('assign', PV('x'), V('kf'))], nested(outer, inner, o), [V('acc'), V('ys')])))
    # the nested reduction under a connective in the element
    out.append(('fuse', prog([], Node('any', Node('comp', [(PV('x'), V('xs'))],
                                                   Node('and', [cmpn('>', V('x'), V('a0')),
                                                                Node('all', Node('comp', [(PV('y'), V('ys'))], cmpn('<=', V('y'), V('x'))))]))),
                             [V('acc'), V('xs')])))
    return out
