"""
FPyLang on the Python side (shared by C04, C07, C08, C09, C13, C18 ...).

Coq counterpart: coq/Lang/Syntax.v (AST), Values.v (values), Sem.v (evaluator),
NumInst.v (provisional number instance).  Everything here prints terms of those
files; nothing here decides agreement (Coq does, via ck.coq_eval_mismatches).

API
===

Program representation -- one generic immutable node type
---------------------------------------------------------
    Node(k, *a)         k: constructor kind (str), a: tuple of fields
    src(node)           FPy source text of an expression / list of lines for statements
    coq(node)           the Coq term (type expr / stmt / pat / func)

  expressions (k, fields) -> Coq constructor
    ('var', name)                         EVar
    ('num', N)                            ENum / ERat        N: see class N (exact number)
    ('bool', b)                           EBool
    ('ctxval', name, C)                   ECtxVal            name: a module-level Python name bound to the context,
                                                             C: CtxSpec (see below); the preamble defines the name
    ('op0', op) ('op1', op, a) ('op2', op, a, b) ('op3', op, a, b, c)     EOp0..EOp3, op: key of OPS
    ('pred', p, a)                        EPred              p in PREDS
    ('cmp', [ops], [args])                ECompare           ops in '<','<=','>=','>','==','!='
    ('and', [args]) ('or', [args]) ('not', a)
    ('ife', c, a, b)                      EIf                a if c else b
    ('tuple', [es]) ('fst', a) ('snd', a)
    ('list', [es]) ('ref', a, i) ('slice', a, lo|None, hi|None)
    ('comp', [(pat, iter)], elt)          EComp
    ('len', a) ('range', [1..3 args]) ('zip', [es]) ('enumerate', a) ('empty', [dims])
    ('dim', a) ('size', a, d) ('sum', a) ('amin', a) ('amax', a) ('min', [es]) ('max', [es])
    ('any', a) ('all', a)
    ('call', fname, [args])               ECall
    ('ctor', kind, rm, ov, [args])        ECtor              kind in CTORS ('MPFloat','MPSFloat','IEEE','MPFixed','FixedS','FixedU','SMFixed'),
                                                             rm 'RNE'.., ov 'OVERFLOW'..|None
  patterns
    ('pvar', name) ('pwild',) ('ptuple', [pats])
  statements
    ('assign', pat, e) ('iassign', name, [idx], e) ('if1', c, [body]) ('if', c, [t], [f])
    ('while', c, [body]) ('for', pat, iter, [body]) ('with', name|None, e, [body])
    ('assert', e) ('effect', e) ('return', e) ('pass',)
  functions / programs
    Func(name, params, ctx, body)         ctx: CtxSpec | None (the decorator's ctx=)
    Program([Func...])                    helpers first (callees must precede callers)
      .source(modname)                    complete module text (import, context constants, decorated functions)
      .coq()                              Coq `program` term
      .load(dirpath, modname)             writes <dirpath>/<modname>.py, imports it (registered in sys.modules),
                                          returns the module; module.<fname> are the fpy2 Functions

Contexts
--------
    CtxSpec(kind, **params)               e.g. CtxSpec('MPFloat', p=5, rm='RTZ'), CtxSpec('REAL'),
                                          CtxSpec('MPSFloat', p=4, emin=-3, rm='RNE'),
                                          CtxSpec('IEEE', es=4, nbits=9, rm='RNE', ov='OVERFLOW'),
                                          CtxSpec('EFloat', es=3, nbits=6, enable_inf=False, nk='MAX_VAL', eoffset=0, rm=.., ov=..),
                                          CtxSpec('MPBFloat', p=3, emin=-2, mexp=1, mc=7, rm=.., ov=..)  (maxval = mc * 2^mexp),
                                          CtxSpec('MPFixed', nmin=-3, rm=..), CtxSpec('Fixed', signed=True, scale=-1, nbits=5, rm=.., ov='WRAP'),
                                          CtxSpec('SMFixed', scale=0, nbits=4, rm=.., ov='SATURATE')
      .py()      Python expression text   .coq()    Coq `ctx` term      .obj(fp)  the fpy2 Context object
    ctx_to_coq(fpy2_context)              any supported fpy2 Context object -> Coq `ctx` term (fail-closed)

Numbers and values
------------------
    N.fin(Fraction|int, negzero=False) / N.inf(s) / N.nan(s) / N.of(python_or_fpy2_number)
      .coq_num()  Coq `num`     .py()  a Python value to pass as argument (float/int/Fraction/fpy2 Float)
    cval_of_py(x)                         Python/fpy2 result or argument -> Coq `cval` term
    res_of_call(thunk)                    runs thunk(); -> '(ROk <cval>)' or '(RErr <err>)'  (Python exception -> err enum)

Exporter from real fpy2 ASTs (also what transforms return)
-----------------------------------------------------------
    export_funcdef(funcdef, canon=False) -> Func        fail-closed: raises Unsupported on any unknown node
    export_program(fpy2_function, canon=False) -> Program   the function and every FPy function it (transitively) calls
    canon_func(Func) -> Func              variables renamed v0, v1, ... by first occurrence (alpha-canonical form)

Coq header for files using these terms: COQ_HEADER.
"""
from __future__ import annotations

import importlib.util
import sys
from fractions import Fraction
from pathlib import Path

from .common import cb, cz

COQ_HEADER = ('From Coq Require Import ZArith List Bool String.\n'
              'From FpyV Require Import Num.RealFloat Num.Float Num.CtxDef Lang.Syntax Lang.Values Lang.Sem Lang.NumInst.\n'
              'Import ListNotations.\nOpen Scope string_scope.\nOpen Scope Z_scope.\n')


class Unsupported(Exception):
    """The exporter met an AST node / value outside the modelled core (fail closed)."""


# ---------------------------------------------------------------- numbers
def _is_pow2(d: int) -> bool:
    return d > 0 and d & (d - 1) == 0


class N:
    """An exact FPy number: finite rational (with a sign for zero), +-inf, NaN."""
    __slots__ = ('kind', 's', 'q')

    def __init__(self, kind, s, q=None):
        self.kind, self.s, self.q = kind, bool(s), q

    @staticmethod
    def fin(q, negzero=False):
        q = Fraction(q)
        return N('fin', (q < 0) or (q == 0 and negzero), q)

    @staticmethod
    def inf(s=False):
        return N('inf', s)

    @staticmethod
    def nan(s=False):
        return N('nan', s)

    @staticmethod
    def of(x):
        """Python int/float/Fraction or fpy2 Float/RealFloat -> N (exact)."""
        import math
        if isinstance(x, N):
            return x
        if isinstance(x, bool):
            raise TypeError('bool is not a number')
        if isinstance(x, int):
            return N.fin(x)
        if isinstance(x, float):
            if math.isnan(x):
                return N.nan(math.copysign(1.0, x) < 0)
            if math.isinf(x):
                return N.inf(x < 0)
            return N.fin(Fraction(x), negzero=(x == 0 and math.copysign(1.0, x) < 0))
        if isinstance(x, Fraction):
            return N.fin(x)
        tn = type(x).__name__
        if tn == 'Float':
            if x.isnan:
                return N.nan(x.s)
            if x.isinf:
                return N.inf(x.s)
            return N.fin(x.as_rational(), negzero=(x.c == 0 and x.s))
        if tn == 'RealFloat':
            return N.fin(x.as_rational(), negzero=(x.c == 0 and x.s))
        raise TypeError(f'not a number: {x!r}')

    def is_dyadic(self):
        return self.kind != 'fin' or _is_pow2(self.q.denominator)

    def coq_fl(self):
        if self.kind == 'nan':
            return f'(FNaN {cb(self.s)})'
        if self.kind == 'inf':
            return f'(FInf {cb(self.s)})'
        assert _is_pow2(self.q.denominator)
        exp = -(self.q.denominator.bit_length() - 1)
        return f'(FFin (RF {cb(self.s)} {cz(exp)} {cz(abs(self.q.numerator))}))'

    def coq_num(self):
        if self.is_dyadic():
            return f'(NF {self.coq_fl()})'
        return f'(NQ {cz(self.q.numerator)} {cz(self.q.denominator)})'

    def py(self):
        """A Python object denoting exactly this number, acceptable as an argument of an FPy function."""
        import fpy2 as fp
        if self.kind == 'nan':
            return fp.Float(isnan=True, s=self.s)
        if self.kind == 'inf':
            return fp.Float(isinf=True, s=self.s)
        if self.q == 0:
            return -0.0 if self.s else 0.0
        if self.q.denominator == 1:
            return int(self.q)
        try:
            f = float(self.q)
            if Fraction(f) == self.q:
                return f
        except OverflowError:
            pass
        return self.q

    def lit_src(self):
        """Source text of a literal with exactly this value (what the parser maps to the same number)."""
        assert self.kind == 'fin'
        q = self.q
        if q == 0:
            return '-0.0' if self.s else '0'
        if q.denominator == 1:
            return str(q.numerator)
        if q > 0 and _is_pow2(q.denominator) or (q > 0 and set(_prime_factors(q.denominator)) <= {2, 5}):
            s = _decimal_text(q)
            # the parser goes through Python's float and its repr (see C06): only use the spelling if it survives
            if s is not None and len(s) <= 15 and repr(float(s)) == s:
                return s
        return f'fp.rational({q.numerator}, {q.denominator})'

    def __repr__(self):
        return f'N({self.kind},{self.s},{self.q})'

    def key(self):
        return (self.kind, self.s, self.q)


def _prime_factors(n):
    out, p = [], 2
    while n > 1 and p * p <= n:
        while n % p == 0:
            out.append(p)
            n //= p
        p += 1
    if n > 1:
        out.append(n)
    return out


def _decimal_text(q: Fraction):
    """Exact finite decimal expansion of q > 0 (denominator 2^a 5^b), or None."""
    n, d = q.numerator, q.denominator
    k = 0
    while d != 1 and k < 40:
        n *= 10
        g = __import__('math').gcd(n, d)
        n //= g
        d //= g
        k += 1
    if d != 1:
        return None
    digits = str(n).rjust(k + 1, '0')
    return digits[:-k] + '.' + digits[-k:] if k else digits + '.0'


# ---------------------------------------------------------------- contexts
RMS = ['RNE', 'RNA', 'RTP', 'RTN', 'RTZ', 'RAZ', 'RTO', 'RTE']
OVS = ['OVERFLOW', 'SATURATE', 'WRAP', 'ASSERT']
CTORS = {  # kind -> (fpy2 class name, Coq ctor tag builder, number of numeric args)
    'MPFloat': ('MPFloatContext', lambda rm, ov: f'(KMPFloat {rm})', 1),
    'MPSFloat': ('MPSFloatContext', lambda rm, ov: f'(KMPSFloat {rm})', 2),
    'IEEE': ('IEEEContext', lambda rm, ov: f'(KIEEE {rm} OV_{ov or "OVERFLOW"})', 2),
    'MPFixed': ('MPFixedContext', lambda rm, ov: f'(KMPFixed {rm})', 1),
    # FixedContext(signed, scale, nbits, rm, overflow): the bool is part of the kind
    'FixedS': ('FixedContext', lambda rm, ov: f'(KFixed true {rm} OV_{ov or "WRAP"})', 2),
    'FixedU': ('FixedContext', lambda rm, ov: f'(KFixed false {rm} OV_{ov or "WRAP"})', 2),
    'SMFixed': ('SMFixedContext', lambda rm, ov: f'(KSMFixed {rm} OV_{ov or "WRAP"})', 2),
}
CTOR_PREFIX = {'FixedS': ['True'], 'FixedU': ['False']}


class CtxSpec:
    """A rounding context given by its parameters (deterministic rounding, default special-value options)."""

    def __init__(self, kind, **kw):
        self.kind, self.kw = kind, dict(kw)

    def key(self):
        return (self.kind, tuple(sorted(self.kw.items())))

    def py(self):
        k = self.kw
        if self.kind == 'REAL':
            return 'fp.REAL'
        if self.kind == 'FP64':
            return 'fp.FP64'
        if self.kind == 'MPFloat':
            return f'fp.MPFloatContext({k["p"]}, fp.RM.{k.get("rm", "RNE")})'
        if self.kind == 'MPSFloat':
            return f'fp.MPSFloatContext({k["p"]}, {k["emin"]}, fp.RM.{k.get("rm", "RNE")})'
        if self.kind == 'IEEE':
            return f'fp.IEEEContext({k["es"]}, {k["nbits"]}, fp.RM.{k.get("rm", "RNE")}, fp.OV.{k.get("ov", "OVERFLOW")})'
        rm, ov = f'fp.RM.{k.get("rm", "RNE")}', f'fp.OV.{k.get("ov", "OVERFLOW")}'
        if self.kind == 'EFloat':
            return (f'fp.EFloatContext({k["es"]}, {k["nbits"]}, {bool(k["enable_inf"])}, fp.EFloatNanKind.{k["nk"]}, '
                    f'{k.get("eoffset", 0)}, {rm}, {ov})')
        if self.kind == 'MPBFloat':
            return f'fp.MPBFloatContext({k["p"]}, {k["emin"]}, fp.RealFloat(False, {k["mexp"]}, {k["mc"]}), {rm}, {ov})'
        if self.kind == 'MPFixed':
            return f'fp.MPFixedContext({k["nmin"]}, {rm})'
        if self.kind == 'Fixed':
            return f'fp.FixedContext({bool(k["signed"])}, {k["scale"]}, {k["nbits"]}, {rm}, {ov})'
        if self.kind == 'SMFixed':
            return f'fp.SMFixedContext({k["scale"]}, {k["nbits"]}, {rm}, {ov})'
        raise Unsupported(f'CtxSpec kind {self.kind}')

    def coq(self):
        k = self.kw
        if self.kind == 'REAL':
            return 'CReal'
        if self.kind == 'FP64':
            return 'FP64'
        if self.kind == 'MPFloat':
            return f'(CMPFloat {cz(k["p"])} {k.get("rm", "RNE")} (Some 0%Z) sp_default)'
        if self.kind == 'MPSFloat':
            return f'(CMPSFloat {cz(k["p"])} {cz(k["emin"])} {k.get("rm", "RNE")} (Some 0%Z) sp_default)'
        if self.kind == 'IEEE':
            return f'(CIEEE {cz(k["es"])} {cz(k["nbits"])} {k.get("rm", "RNE")} OV_{k.get("ov", "OVERFLOW")})'
        if self.kind in ('EFloat', 'MPBFloat', 'MPFixed', 'Fixed', 'SMFixed'):
            return ctx_to_coq(self.obj())      # one printer for these families: the fpy2 object's own parameters
        raise Unsupported(f'CtxSpec kind {self.kind}')

    def obj(self):
        import fpy2 as fp
        return eval(self.py(), {'fp': fp})  # noqa: S307 -- text produced by this class only

    def __repr__(self):
        return f'CtxSpec({self.kind}, {self.kw})'


def _optfl(x):
    return 'None' if x is None else f'(Some {N.of(x).coq_fl()})'


def _optz(x):
    return 'None' if x is None else f'(Some {cz(x)})'


def _rf(x):
    return f'(RF {cb(x.s)} {cz(x.exp)} {cz(x.c)})'


def ctx_to_coq(c) -> str:
    """fpy2 Context object -> Coq `ctx` term of Num/CtxDef.v (fail-closed)."""
    tn = type(c).__name__
    rm = getattr(getattr(c, 'rm', None), 'name', None)
    ov = getattr(getattr(c, 'overflow', None), 'name', None)

    def sp():
        if c.enable_nan and c.enable_inf and c.nan_value is None and c.inf_value is None:
            return 'sp_default'
        return f'(SP {cb(c.enable_nan)} {cb(c.enable_inf)} {_optfl(c.nan_value)} {_optfl(c.inf_value)})'
    if tn == 'RealContext':
        return 'CReal'
    if tn == 'MPFloatContext':
        return f'(CMPFloat {cz(c.pmax)} {rm} {_optz(c.num_randbits)} {sp()})'
    if tn == 'MPSFloatContext':
        return f'(CMPSFloat {cz(c.pmax)} {cz(c.emin)} {rm} {_optz(c.num_randbits)} {sp()})'
    if tn == 'MPBFloatContext':
        return (f'(CMPBFloat {cz(c.pmax)} {cz(c.emin)} {_rf(c.pos_maxval)} {_rf(c.neg_maxval)} {rm} OV_{ov} '
                f'{_optz(c.num_randbits)} {sp()})')
    if tn == 'IEEEContext':
        if c.num_randbits == 0:
            return f'(CIEEE {cz(c.es)} {cz(c.nbits)} {rm} OV_{ov})'
        return (f'(CEFloat {cz(c.es)} {cz(c.nbits)} true NK_IEEE 0%Z {rm} OV_{ov} {_optz(c.num_randbits)} None None)')
    if tn == 'EFloatContext':
        nk = {'IEEE_754': 'NK_IEEE', 'MAX_VAL': 'NK_MAXVAL', 'NEG_ZERO': 'NK_NEGZERO', 'NONE': 'NK_NONE'}[c.nan_kind.name]
        return (f'(CEFloat {cz(c.es)} {cz(c.nbits)} {cb(c.enable_inf)} {nk} {cz(c.eoffset)} {rm} OV_{ov} '
                f'{_optz(c.num_randbits)} {_optfl(getattr(c, "nan_value", None))} {_optfl(getattr(c, "inf_value", None))})')
    if tn == 'MPFixedContext':
        return f'(CMPFixed {cz(c.nmin)} {rm} {_optz(c.num_randbits)} {sp()} {cb(getattr(c, "enable_neg_zero", True))})'
    if tn == 'FixedContext':
        return (f'(CFixed {cb(c.signed)} {cz(c.scale)} {cz(c.nbits)} {rm} OV_{ov} {_optz(c.num_randbits)} '
                f'{_optfl(getattr(c, "nan_value", None))} {_optfl(getattr(c, "inf_value", None))})')
    if tn == 'SMFixedContext':
        return (f'(CSMFixed {cz(c.scale)} {cz(c.nbits)} {rm} OV_{ov} {_optz(c.num_randbits)} '
                f'{_optfl(getattr(c, "nan_value", None))} {_optfl(getattr(c, "inf_value", None))})')
    if tn == 'MPBFixedContext':
        return (f'(CMPBFixed {cz(c.nmin)} {_rf(c.pos_maxval)} {_rf(c.neg_maxval)} {rm} OV_{ov} {_optz(c.num_randbits)} '
                f'{sp()} {cb(getattr(c, "enable_neg_zero", True))})')
    if tn == 'ExpContext':
        return f'(CExp {cz(c.nbits)} {cz(c.eoffset)} {rm} OV_{ov} {_optfl(getattr(c, "inf_value", None))})'
    raise Unsupported(f'context {tn}')


# ---------------------------------------------------------------- the program representation
class Node:
    __slots__ = ('k', 'a')

    def __init__(self, k, *a):
        self.k, self.a = k, tuple(a)

    def __repr__(self):
        return f'Node({self.k!r}, {", ".join(map(repr, self.a))})'

    def __eq__(self, o):
        return isinstance(o, Node) and self.k == o.k and _eq(self.a, o.a)

    def __hash__(self):
        return hash(self.k)


def _eq(a, b):
    if isinstance(a, (list, tuple)) and isinstance(b, (list, tuple)):
        return len(a) == len(b) and all(_eq(x, y) for x, y in zip(a, b))
    if isinstance(a, N) and isinstance(b, N):
        return a.key() == b.key()
    if isinstance(a, CtxSpec) and isinstance(b, CtxSpec):
        return a.key() == b.key()
    return a == b


# op key -> (Coq tag, arity, source template)
OPS = {
    'nan': ('ONan', 0, 'fp.nan()'), 'inf': ('OInf', 0, 'fp.inf()'),
    'neg': ('ONeg', 1, '(-{0})'), 'fabs': ('OFabs', 1, 'fp.fabs({0})'), 'sqrt': ('OSqrt', 1, 'fp.sqrt({0})'),
    'cbrt': ('OCbrt', 1, 'fp.cbrt({0})'),
    'floor': ('OFloor', 1, 'fp.floor({0})'), 'ceil': ('OCeil', 1, 'fp.ceil({0})'),
    'trunc': ('OTrunc', 1, 'fp.trunc({0})'), 'roundint': ('ORoundInt', 1, 'fp.roundint({0})'),
    'nearbyint': ('ONearbyInt', 1, 'fp.nearbyint({0})'),
    'round': ('ORound', 1, 'fp.round({0})'), 'cast': ('OCast', 1, 'fp.cast({0})'), 'logb': ('OLogb', 1, 'fp.logb({0})'),
    'add': ('OAdd', 2, '({0} + {1})'), 'sub': ('OSub', 2, '({0} - {1})'), 'mul': ('OMul', 2, '({0} * {1})'),
    'div': ('ODiv', 2, '({0} / {1})'), 'mod': ('OMod', 2, '({0} % {1})'), 'fmod': ('OFmod', 2, 'fp.fmod({0}, {1})'),
    'remainder': ('ORemainder', 2, 'fp.remainder({0}, {1})'), 'copysign': ('OCopysign', 2, 'fp.copysign({0}, {1})'),
    'fdim': ('OFdim', 2, 'fp.fdim({0}, {1})'), 'pow': ('OPow', 2, 'fp.pow({0}, {1})'),
    'hypot': ('OHypot', 2, 'fp.hypot({0}, {1})'), 'atan2': ('OAtan2', 2, 'fp.atan2({0}, {1})'),
    'round_at': ('ORoundAt', 2, 'fp.round_at({0}, {1})'),
    'fma': ('OFma', 3, 'fp.fma({0}, {1}, {2})'),
}
ELEMENTARY = ['acos', 'asin', 'atan', 'cos', 'sin', 'tan', 'acosh', 'asinh', 'atanh', 'cosh', 'sinh', 'tanh',
              'exp', 'exp2', 'expm1', 'log', 'log10', 'log1p', 'log2', 'erf', 'erfc', 'lgamma', 'tgamma']
for _n in ELEMENTARY:
    OPS[_n] = (f'(OElem "{_n}")', 1, f'fp.{_n}({{0}})')
CONSTS = ['const_pi', 'const_e', 'const_log2e', 'const_log10e', 'const_ln2', 'const_pi_2', 'const_pi_4',
          'const_1_pi', 'const_2_pi', 'const_2_sqrt_pi', 'const_sqrt2', 'const_sqrt1_2']
for _n in CONSTS:
    OPS[_n] = (f'(OConst "{_n}")', 0, f'fp.{_n}()')
PREDS = {'isnan': 'PIsNan', 'isinf': 'PIsInf', 'isfinite': 'PIsFinite', 'isnormal': 'PIsNormal', 'signbit': 'PSignbit'}
CMPS = {'<': 'CLt', '<=': 'CLe', '>=': 'CGe', '>': 'CGt', '==': 'CEq', '!=': 'CNe'}


def cstr(s):
    assert '"' not in s
    return f'"{s}"'


def clist(xs):
    return '[' + '; '.join(xs) + ']'


def copt(x):
    return 'None' if x is None else f'(Some {x})'


# ---- Coq printing
def coq(n) -> str:
    k, a = n.k, n.a
    if k == 'var':
        return f'(EVar {cstr(a[0])})'
    if k == 'num':
        v = a[0]
        if v.kind != 'fin':
            raise Unsupported('inf/nan are not literals; use op0 inf/nan')
        if v.is_dyadic():
            return f'(ENum {v.coq_fl()})'
        return f'(ERat {cz(v.q.numerator)} {cz(v.q.denominator)})'
    if k == 'bool':
        return f'(EBool {cb(a[0])})'
    if k == 'ctxval':
        return f'(ECtxVal {a[1].coq()})'
    if k in ('op0', 'op1', 'op2', 'op3'):
        tag, ar, _ = OPS[a[0]]
        assert ar == int(k[2]) and len(a) == ar + 1, (k, a)
        return f'(EOp{ar} {tag}' + ''.join(' ' + coq(x) for x in a[1:]) + ')'
    if k == 'pred':
        return f'(EPred {PREDS[a[0]]} {coq(a[1])})'
    if k == 'cmp':
        return f'(ECompare {clist(CMPS[o] for o in a[0])} {clist(coq(x) for x in a[1])})'
    if k == 'and':
        return f'(EAnd {clist(coq(x) for x in a[0])})'
    if k == 'or':
        return f'(EOr {clist(coq(x) for x in a[0])})'
    if k == 'not':
        return f'(ENot {coq(a[0])})'
    if k == 'ife':
        return f'(EIf {coq(a[0])} {coq(a[1])} {coq(a[2])})'
    if k == 'tuple':
        return f'(ETuple {clist(coq(x) for x in a[0])})'
    if k in ('fst', 'snd', 'len', 'enumerate', 'dim', 'sum', 'amin', 'amax', 'any', 'all'):
        c = {'fst': 'EFst', 'snd': 'ESnd', 'len': 'ELen', 'enumerate': 'EEnumerate', 'dim': 'EDim', 'sum': 'ESum',
             'amin': 'EAMin', 'amax': 'EAMax', 'any': 'EAny', 'all': 'EAll'}[k]
        return f'({c} {coq(a[0])})'
    if k == 'list':
        return f'(EList {clist(coq(x) for x in a[0])})'
    if k == 'ref':
        return f'(ERef {coq(a[0])} {coq(a[1])})'
    if k == 'slice':
        return f'(ESlice {coq(a[0])} {copt(None if a[1] is None else coq(a[1]))} {copt(None if a[2] is None else coq(a[2]))})'
    if k == 'comp':
        gens = clist(f'({coq(p)}, {coq(it)})' for p, it in a[0])
        return f'(EComp {gens} {coq(a[1])})'
    if k == 'range':
        assert 1 <= len(a[0]) <= 3
        return f'(ERange{len(a[0])}' + ''.join(' ' + coq(x) for x in a[0]) + ')'
    if k in ('zip', 'empty', 'min', 'max'):
        c = {'zip': 'EZip', 'empty': 'EEmpty', 'min': 'EMin', 'max': 'EMax'}[k]
        return f'({c} {clist(coq(x) for x in a[0])})'
    if k == 'size':
        return f'(ESize {coq(a[0])} {coq(a[1])})'
    if k == 'call':
        return f'(ECall {cstr(a[0])} {clist(coq(x) for x in a[1])})'
    if k == 'ctor':
        kind, rm, ov, args = a
        return f'(ECtor {CTORS[kind][1](rm, ov)} {clist(coq(x) for x in args)})'
    # patterns
    if k == 'pvar':
        return f'(PVar {cstr(a[0])})'
    if k == 'pwild':
        return 'PWild'
    if k == 'ptuple':
        return f'(PTuple {clist(coq(p) for p in a[0])})'
    # statements
    if k == 'assign':
        return f'(SAssign {coq(a[0])} {coq(a[1])})'
    if k == 'iassign':
        return f'(SIndexAssign {cstr(a[0])} {clist(coq(x) for x in a[1])} {coq(a[2])})'
    if k == 'if1':
        return f'(SIf1 {coq(a[0])} {coq_block(a[1])})'
    if k == 'if':
        return f'(SIf {coq(a[0])} {coq_block(a[1])} {coq_block(a[2])})'
    if k == 'while':
        return f'(SWhile {coq(a[0])} {coq_block(a[1])})'
    if k == 'for':
        return f'(SFor {coq(a[0])} {coq(a[1])} {coq_block(a[2])})'
    if k == 'with':
        return f'(SContext {copt(None if a[0] is None else cstr(a[0]))} {coq(a[1])} {coq_block(a[2])})'
    if k == 'assert':
        return f'(SAssert {coq(a[0])})'
    if k == 'effect':
        return f'(SEffect {coq(a[0])})'
    if k == 'return':
        return f'(SReturn {coq(a[0])})'
    if k == 'pass':
        return 'SPass'
    raise Unsupported(f'coq: node kind {k}')


def coq_block(stmts):
    return clist(coq(s) for s in stmts)


# ---- source printing
def src(n) -> str:
    """Source text of an expression or pattern."""
    k, a = n.k, n.a
    if k == 'var':
        return a[0]
    if k == 'num':
        return a[0].lit_src()
    if k == 'bool':
        return 'True' if a[0] else 'False'
    if k == 'ctxval':
        return a[0]
    if k in ('op0', 'op1', 'op2', 'op3'):
        if a[0] == 'neg' and a[1].k == 'num':
            raise Unsupported('the parser folds a negated literal; use a negative literal instead')
        return OPS[a[0]][2].format(*[src(x) for x in a[1:]])
    if k == 'pred':
        return f'fp.{a[0]}({src(a[1])})'
    if k == 'cmp':
        out = src(a[1][0])
        for o, x in zip(a[0], a[1][1:]):
            out += f' {o} {src(x)}'
        return f'({out})'
    if k == 'and':
        return '(' + ' and '.join(src(x) for x in a[0]) + ')'
    if k == 'or':
        return '(' + ' or '.join(src(x) for x in a[0]) + ')'
    if k == 'not':
        return f'(not {src(a[0])})'
    if k == 'ife':
        return f'({src(a[1])} if {src(a[0])} else {src(a[2])})'
    if k == 'tuple':
        es = [src(x) for x in a[0]]
        return '(' + ', '.join(es) + (',' if len(es) == 1 else '') + ')'
    if k in ('fst', 'snd', 'dim'):
        return f'fp.{k}({src(a[0])})'
    if k in ('len', 'enumerate', 'sum', 'any', 'all'):
        return f'{k}({src(a[0])})'
    if k == 'amin':
        return f'min({src(a[0])})'
    if k == 'amax':
        return f'max({src(a[0])})'
    if k == 'list':
        return '[' + ', '.join(src(x) for x in a[0]) + ']'
    if k == 'ref':
        return f'{src(a[0])}[{src(a[1])}]'
    if k == 'slice':
        return f'{src(a[0])}[{"" if a[1] is None else src(a[1])}:{"" if a[2] is None else src(a[2])}]'
    if k == 'comp':
        return '[' + src(a[1]) + ''.join(f' for {src(p)} in {src(it)}' for p, it in a[0]) + ']'
    if k in ('range', 'zip', 'min', 'max'):
        return f'{k}(' + ', '.join(src(x) for x in a[0]) + ')'
    if k == 'empty':
        return 'fp.empty(' + ', '.join(src(x) for x in a[0]) + ')'
    if k == 'size':
        return f'fp.size({src(a[0])}, {src(a[1])})'
    if k == 'call':
        return f'{a[0]}(' + ', '.join(src(x) for x in a[1]) + ')'
    if k == 'ctor':
        kind, rm, ov, args = a
        extra = [f'fp.RM.{rm}'] + ([f'fp.OV.{ov}'] if ov else [])
        return f'fp.{CTORS[kind][0]}(' + ', '.join(CTOR_PREFIX.get(kind, []) + [src(x) for x in args] + extra) + ')'
    if k == 'pvar':
        return a[0]
    if k == 'pwild':
        return '_'
    if k == 'ptuple':
        ps = [src(p) for p in a[0]]
        return '(' + ', '.join(ps) + (',' if len(ps) == 1 else '') + ')'
    raise Unsupported(f'src: node kind {k}')


def src_block(stmts, ind) -> list[str]:
    out = []
    pad = '    ' * ind
    for s in stmts:
        k, a = s.k, s.a
        if k == 'assign':
            out.append(f'{pad}{src(a[0])} = {src(a[1])}')
        elif k == 'iassign':
            out.append(f'{pad}{a[0]}' + ''.join(f'[{src(i)}]' for i in a[1]) + f' = {src(a[2])}')
        elif k == 'if1':
            out.append(f'{pad}if {src(a[0])}:')
            out += src_block(a[1], ind + 1)
        elif k == 'if':
            out.append(f'{pad}if {src(a[0])}:')
            out += src_block(a[1], ind + 1)
            out.append(f'{pad}else:')
            out += src_block(a[2], ind + 1)
        elif k == 'while':
            out.append(f'{pad}while {src(a[0])}:')
            out += src_block(a[1], ind + 1)
        elif k == 'for':
            out.append(f'{pad}for {src(a[0])} in {src(a[1])}:')
            out += src_block(a[2], ind + 1)
        elif k == 'with':
            out.append(f'{pad}with {src(a[1])}' + (f' as {a[0]}' if a[0] is not None else '') + ':')
            out += src_block(a[2], ind + 1)
        elif k == 'assert':
            out.append(f'{pad}assert {src(a[0])}')
        elif k == 'effect':
            out.append(f'{pad}{src(a[0])}')
        elif k == 'return':
            out.append(f'{pad}return {src(a[0])}')
        elif k == 'pass':
            out.append(f'{pad}pass')
        else:
            raise Unsupported(f'src: statement kind {k}')
    if not stmts:
        out.append(f'{pad}pass')
    return out


def walk(n, f):
    """Calls f(node) on every Node reachable from n (pre-order)."""
    if isinstance(n, Node):
        f(n)
        for x in n.a:
            walk(x, f)
    elif isinstance(n, (list, tuple)):
        for x in n:
            walk(x, f)


class Func:
    def __init__(self, name, params, ctx, body):
        self.name, self.params, self.ctx, self.body = name, list(params), ctx, list(body)

    def coq(self):
        c = 'None' if self.ctx is None else f'(Some {self.ctx.coq()})'
        return f'(Func {clist(cstr(p) for p in self.params)} {c} {coq_block(self.body)})'

    def source(self):
        dec = '@fp.fpy' if self.ctx is None else f'@fp.fpy(ctx={self.ctx.py()})'
        return '\n'.join([dec, f'def {self.name}({", ".join(self.params)}):'] + src_block(self.body, 1)) + '\n'

    def __repr__(self):
        return f'Func({self.name}, {self.params}, {self.ctx}, {self.body})'


class Program:
    def __init__(self, funcs):
        self.funcs = list(funcs)

    def coq(self):
        return clist(f'({cstr(f.name)}, {f.coq()})' for f in self.funcs)

    def ctx_consts(self):
        found = {}

        def f(n):
            if n.k == 'ctxval':
                found[n.a[0]] = n.a[1]
        for fn in self.funcs:
            walk(fn.body, f)
        return found

    def source(self, modname='m'):
        lines = ['import fpy2 as fp', '']
        for name, spec in sorted(self.ctx_consts().items()):
            if not name.startswith('fp.'):
                lines.append(f'{name} = {spec.py()}')
        lines.append('')
        return '\n'.join(lines) + '\n' + '\n'.join(f.source() for f in self.funcs)

    def load(self, dirpath, modname):
        return load_module(dirpath, modname, self.source(modname))


def load_module(dirpath, modname, text):
    """Write text to <dirpath>/<modname>.py and import it as a module registered in sys.modules
    (the @fpy decorator recovers the source through inspect)."""
    d = Path(dirpath)
    d.mkdir(parents=True, exist_ok=True)
    p = d / f'{modname}.py'
    p.write_text(text)
    spec = importlib.util.spec_from_file_location(modname, p)
    mod = importlib.util.module_from_spec(spec)
    sys.modules[modname] = mod
    try:
        spec.loader.exec_module(mod)
    except BaseException:
        sys.modules.pop(modname, None)
        raise
    return mod


# ---------------------------------------------------------------- values
def cval_of_py(x) -> str:
    """Python / fpy2 value (argument or result) -> Coq `cval` term."""
    if isinstance(x, bool):
        return f'(CBool {cb(x)})'
    if isinstance(x, N):
        return f'(CNum {x.coq_num()})'
    if isinstance(x, (int, float, Fraction)) or type(x).__name__ in ('Float', 'RealFloat'):
        return f'(CNum {N.of(x).coq_num()})'
    if isinstance(x, CtxSpec):
        return f'(CCtx {x.coq()})'
    if isinstance(x, tuple):
        return f'(CTuple {clist(cval_of_py(v) for v in x)})'
    if isinstance(x, list):
        return f'(CList {clist(cval_of_py(v) for v in x)})'
    tn = type(x).__name__
    if tn.endswith('Context'):
        return f'(CCtx {ctx_to_coq(x)})'
    if tn == '_Uninit' or repr(x) == 'UNINIT':
        return 'CUninit'
    raise Unsupported(f'value {x!r} of type {tn}')


def py_of_arg(x):
    """Generator-side argument (N / bool / CtxSpec / nested list / tuple) -> the Python object to pass."""
    if isinstance(x, N):
        return x.py()
    if isinstance(x, CtxSpec):
        return x.obj()
    if isinstance(x, list):
        return [py_of_arg(v) for v in x]
    if isinstance(x, tuple):
        return tuple(py_of_arg(v) for v in x)
    return x


ERRS = {
    'ValueError': 'ValueErr', 'OverflowError': 'OverflowErr', 'TypeError': 'TypeErr',
    'IndexError': 'IndexErr', 'AssertionError': 'AssertErr', 'NameError': 'NameErr',
    'UnboundLocalError': 'NameErr', 'KeyError': 'NameErr', 'ZeroDivisionError': 'ValueErr',
}


def res_of_call(thunk) -> str:
    """Run thunk(); the outcome as a Coq `res cval` term."""
    try:
        r = thunk()
    except RecursionError:
        return 'RFuel'
    except Exception as e:  # noqa: BLE001 -- every exception class is an observable outcome
        return f'(RErr {ERRS.get(type(e).__name__, "OtherErr")})'
    return f'(ROk {cval_of_py(r)})'


# ---------------------------------------------------------------- exporter from fpy2 ASTs
def _ident(x):
    tn = type(x).__name__
    if tn == 'UnderscoreId':
        return None
    return str(x)


def _pat(t):
    tn = type(t).__name__
    if tn == 'UnderscoreId':
        return Node('pwild')
    if tn in ('NamedId', 'SourceId'):
        return Node('pvar', str(t))
    if tn == 'TupleBinding':
        return Node('ptuple', [_pat(e) for e in t.elts])
    raise Unsupported(f'binding {tn}')


_UNARY = {'Neg': 'neg', 'Abs': 'fabs', 'Sqrt': 'sqrt', 'Cbrt': 'cbrt', 'Ceil': 'ceil', 'Floor': 'floor',
          'NearbyInt': 'nearbyint', 'RoundInt': 'roundint', 'Trunc': 'trunc', 'Round': 'round', 'Cast': 'cast',
          'Logb': 'logb'}
_UNARY.update({n.capitalize(): n for n in ELEMENTARY})
_UNARY.update({'Log10': 'log10', 'Log1p': 'log1p', 'Log2': 'log2', 'Exp2': 'exp2', 'Expm1': 'expm1'})
_BINARY = {'Add': 'add', 'Sub': 'sub', 'Mul': 'mul', 'Div': 'div', 'Copysign': 'copysign', 'Fdim': 'fdim',
           'Mod': 'mod', 'Fmod': 'fmod', 'Remainder': 'remainder', 'Hypot': 'hypot', 'Atan2': 'atan2', 'Pow': 'pow',
           'RoundAt': 'round_at'}
_NULLARY = {'ConstNan': 'nan', 'ConstInf': 'inf', 'ConstPi': 'const_pi', 'ConstE': 'const_e',
            'ConstLog2E': 'const_log2e', 'ConstLog10E': 'const_log10e', 'ConstLn2': 'const_ln2',
            'ConstPi_2': 'const_pi_2', 'ConstPi_4': 'const_pi_4', 'Const1_Pi': 'const_1_pi',
            'Const2_Pi': 'const_2_pi', 'Const2_SqrtPi': 'const_2_sqrt_pi', 'ConstSqrt2': 'const_sqrt2',
            'ConstSqrt1_2': 'const_sqrt1_2'}
_PREDN = {'IsNan': 'isnan', 'IsInf': 'isinf', 'IsFinite': 'isfinite', 'IsNormal': 'isnormal', 'Signbit': 'signbit'}
_SIMPLE1 = {'Fst': 'fst', 'Snd': 'snd', 'Len': 'len', 'Enumerate': 'enumerate', 'Dim': 'dim', 'Sum': 'sum',
            'AMin': 'amin', 'AMax': 'amax', 'AnyOf': 'any', 'AllOf': 'all', 'Not': 'not'}
_CMPN = {'LT': '<', 'LE': '<=', 'GE': '>=', 'GT': '>', 'EQ': '==', 'NE': '!='}
_CTOR_CLASSES = {v[0]: k for k, v in CTORS.items()}


class _Exporter:
    def __init__(self, funcdef, callees):
        self.fd = funcdef
        self.callees = callees      # name -> fpy2 Function (collected)
        self.ctxnames = {}

    def _free_value(self, name):
        env = self.fd.env
        if name in env:
            return env[name]
        raise Unsupported(f'free variable {name} not in the environment')

    def _resolve(self, e):
        """Python value of a Var / Attribute / ForeignVal expression that denotes a foreign object."""
        tn = type(e).__name__
        if tn == 'ForeignVal':
            return e.val
        if tn == 'Var':
            return self._free_value(str(e.name))
        if tn == 'Attribute':
            return getattr(self._resolve(e.value), e.attr)
        raise Unsupported(f'foreign expression {tn}')

    def _is_free(self, e):
        return type(e).__name__ == 'Var' and any(str(v) == str(e.name) for v in self.fd.free_vars)

    def ctxval(self, obj, text):
        return Node('ctxval', text, _RawCtx(ctx_to_coq(obj), text))

    def expr(self, e):
        tn = type(e).__name__
        X = self.expr
        if tn == 'Var':
            if self._is_free(e):
                v = self._free_value(str(e.name))
                if type(v).__name__.endswith('Context'):
                    return self.ctxval(v, str(e.name))
                raise Unsupported(f'free variable {e.name} = {v!r} (only contexts are modelled as constants)')
            return Node('var', str(e.name))
        if tn == 'BoolVal':
            return Node('bool', bool(e.val))
        if tn in ('Decnum', 'Hexnum', 'Integer', 'Rational', 'Digits'):
            r = e.as_real()
            return Node('num', N.of(r))
        if tn == 'ForeignVal':
            if type(e.val).__name__.endswith('Context'):
                return self.ctxval(e.val, repr(e.val))
            raise Unsupported(f'foreign value {e.val!r}')
        if tn == 'Attribute':
            v = self._resolve(e)
            if type(v).__name__.endswith('Context'):
                return self.ctxval(v, _attr_text(e))
            raise Unsupported(f'attribute {_attr_text(e)} = {v!r}')
        if tn in _NULLARY:
            return Node('op0', _NULLARY[tn])
        if tn in _UNARY:
            return Node('op1', _UNARY[tn], X(e.arg))
        if tn in _PREDN:
            return Node('pred', _PREDN[tn], X(e.arg))
        if tn in _SIMPLE1:
            return Node(_SIMPLE1[tn], X(e.arg))
        if tn in _BINARY:
            return Node('op2', _BINARY[tn], X(e.first), X(e.second))
        if tn == 'Size':
            return Node('size', X(e.first), X(e.second))
        if tn == 'Fma':
            return Node('op3', 'fma', X(e.first), X(e.second), X(e.third))
        if tn == 'Range1':
            return Node('range', [X(e.arg)])
        if tn == 'Range2':
            return Node('range', [X(e.first), X(e.second)])
        if tn == 'Range3':
            return Node('range', [X(e.first), X(e.second), X(e.third)])
        if tn in ('And', 'Or', 'Min', 'Max', 'Zip', 'Empty'):
            return Node(tn.lower(), [X(a) for a in e.args])
        if tn == 'Compare':
            return Node('cmp', [_CMPN[o.name] for o in e.ops], [X(a) for a in e.args])
        if tn == 'TupleExpr':
            return Node('tuple', [X(a) for a in e.elts])
        if tn == 'ListExpr':
            return Node('list', [X(a) for a in e.elts])
        if tn == 'ListComp':
            return Node('comp', [(_pat(t), X(it)) for t, it in zip(e.targets, e.iterables)], X(e.elt))
        if tn == 'ListRef':
            return Node('ref', X(e.value), X(e.index))
        if tn == 'ListSlice':
            return Node('slice', X(e.value), None if e.start is None else X(e.start), None if e.stop is None else X(e.stop))
        if tn == 'IfExpr':
            return Node('ife', X(e.cond), X(e.ift), X(e.iff))
        if tn == 'Call':
            fn = e.fn
            if type(fn).__name__ == 'Function':
                name = fn.name
                old = self.callees.get(name)
                if old is not None and old.ast is not fn.ast:
                    raise Unsupported(f'two different FPy functions named {name}')
                self.callees[name] = fn
                if e.kwargs:
                    raise Unsupported('keyword arguments in an FPy call')
                return Node('call', name, [X(a) for a in e.args])
            if isinstance(fn, type) and fn.__name__ in _CTOR_CLASSES:
                kind = _CTOR_CLASSES[fn.__name__]
                cargs = list(e.args)
                if fn.__name__ == 'FixedContext':
                    if not cargs or type(cargs[0]).__name__ != 'BoolVal':
                        raise Unsupported('FixedContext: `signed` must be a boolean literal')
                    kind = 'FixedS' if cargs[0].val else 'FixedU'
                    cargs = cargs[1:]
                nnum = CTORS[kind][2]
                if e.kwargs or len(cargs) < nnum:
                    raise Unsupported(f'context constructor call shape: {fn.__name__}')
                rm, ov = 'RNE', None
                for extra in cargs[nnum:]:
                    v = self._resolve(extra)
                    if type(v).__name__ == 'RoundingMode':
                        rm = v.name
                    elif type(v).__name__ == 'OverflowMode':
                        ov = v.name
                    else:
                        raise Unsupported(f'context constructor argument {v!r}')
                return Node('ctor', kind, rm, ov, [X(a) for a in cargs[:nnum]])
            raise Unsupported(f'call of {fn!r}')
        raise Unsupported(f'expression node {tn}')

    def stmt(self, s):
        tn = type(s).__name__
        X, B = self.expr, self.block
        if tn == 'Assign':
            return Node('assign', _pat(s.target), X(s.expr))
        if tn == 'IndexedAssign':
            return Node('iassign', str(s.var), [X(i) for i in s.indices], X(s.expr))
        if tn == 'If1Stmt':
            return Node('if1', X(s.cond), B(s.body))
        if tn == 'IfStmt':
            return Node('if', X(s.cond), B(s.ift), B(s.iff))
        if tn == 'WhileStmt':
            return Node('while', X(s.cond), B(s.body))
        if tn == 'ForStmt':
            return Node('for', _pat(s.target), X(s.iterable), B(s.body))
        if tn == 'ContextStmt':
            return Node('with', _ident(s.target), X(s.ctx), B(s.body))
        if tn == 'AssertStmt':
            return Node('assert', X(s.test))
        if tn == 'EffectStmt':
            return Node('effect', X(s.expr))
        if tn == 'ReturnStmt':
            return Node('return', X(s.expr))
        if tn == 'PassStmt':
            return Node('pass')
        raise Unsupported(f'statement node {tn}')

    def block(self, b):
        return [self.stmt(s) for s in b.stmts]


class _RawCtx:
    """A context already printed as a Coq term (exporter side)."""

    def __init__(self, term, text):
        self.term, self.text = term, text

    def coq(self):
        return self.term

    def py(self):
        return self.text

    def key(self):
        return ('raw', self.term)


def _attr_text(e):
    tn = type(e).__name__
    if tn == 'Var':
        return str(e.name)
    return _attr_text(e.value) + '.' + e.attr


def export_funcdef(fd, canon=False, _callees=None) -> Func:
    """fpy2 FuncDef -> Func (fail-closed)."""
    ex = _Exporter(fd, {} if _callees is None else _callees)
    params = []
    for a in fd.args:
        nm = _ident(a.name)
        params.append('_' if nm is None else nm)
    ctx = fd.ctx
    if ctx is not None:
        if not type(ctx).__name__.endswith('Context') or type(ctx).__name__ == 'FPCoreContext':
            raise Unsupported(f'declared context {ctx!r}')
        ctx = _RawCtx(ctx_to_coq(ctx), repr(ctx))
    f = Func(fd.name, params, ctx, ex.block(fd.body))
    return canon_func(f) if canon else f


def export_program(fn, canon=False) -> Program:
    """fpy2 Function -> Program with the function LAST and all FPy callees before it."""
    done, order = {}, []

    def go(f):
        if f.name in done:
            if done[f.name] is not f.ast:
                raise Unsupported(f'two different FPy functions named {f.name}')
            return
        done[f.name] = f.ast
        callees = {}
        out = export_funcdef(f.ast, canon=canon, _callees=callees)
        for g in callees.values():
            go(g)
        order.append(out)
    go(fn)
    return Program(order)


def canon_func(f: Func) -> Func:
    """Rename every variable (parameters, targets, uses) to v0, v1, ... in order of first occurrence."""
    names = {}

    def nm(x):
        if x == '_':
            return x
        if x not in names:
            names[x] = f'v{len(names)}'
        return names[x]

    def go(n):
        if isinstance(n, Node):
            if n.k in ('var', 'pvar'):
                return Node(n.k, nm(n.a[0]))
            if n.k == 'iassign':
                return Node('iassign', nm(n.a[0]), go(n.a[1]), go(n.a[2]))
            if n.k == 'with':
                return Node('with', None if n.a[0] is None else nm(n.a[0]), go(n.a[1]), go(n.a[2]))
            if n.k in ('call', 'ctxval', 'op0', 'op1', 'op2', 'op3', 'pred', 'ctor', 'cmp'):
                return Node(n.k, *[go(x) if not isinstance(x, str) else x for x in n.a])
            return Node(n.k, *[go(x) for x in n.a])
        if isinstance(n, list):
            return [go(x) for x in n]
        if isinstance(n, tuple):
            return tuple(go(x) for x in n)
        return n
    params = [nm(p) for p in f.params]
    return Func(f.name, params, f.ctx, go(f.body))
