"""Extracted-OCaml oracle: the Gallina model, extracted with ExtrOcamlBasic only
(Z/positive stay the extracted Coq datatypes), linked with the generic
ocaml/driver.ml.  Wire format: one case per line, hex integers.

Extraction directives used: exactly those of Coq's ExtrOcamlBasic
(Extract Inductive bool/option/unit/list/prod/sumbool/sumor to their OCaml
counterparts); no Extract Constant.
"""
import os
import subprocess
from concurrent.futures import ThreadPoolExecutor
from pathlib import Path

from .common import COQ, ROOT, sh


def enc_int(n):
    n = int(n)
    return ('-' if n < 0 else '') + format(abs(n), 'x')


def enc(xs):
    return ' '.join(enc_int(x) for x in xs)


class Oracle:
    def __init__(self, ck, name, requires, check_fn):
        """requires: e.g. 'Cases.C01Cases'; check_fn: Gallina `list Z -> bool`."""
        self.ck = ck
        self.dir = ck.dir / f'oracle_{name}'
        self.dir.mkdir(parents=True, exist_ok=True)
        self.exe = self.dir / 'oracle'
        v = (f'Require Extraction.\nRequire Import ExtrOcamlBasic.\n'
             f'From FpyV Require Import {requires}.\n'
             f'Definition check_line := {check_fn}.\n'
             f'Extraction "model.ml" check_line.\n')
        (self.dir / 'extract.v').write_text(v)
        rc, out = sh(f'timeout 600 coqc -Q {COQ} FpyV extract.v', cwd=self.dir, timeout=630)
        if rc != 0:
            ck.broken.append('oracle extraction failed: ' + out[-500:])
            self.ok = False
            return
        (self.dir / 'driver.ml').write_text((ROOT / 'ocaml' / 'driver.ml').read_text())
        rc, out = sh('timeout 600 ocamlfind ocamlopt -O3 -w -a model.mli model.ml driver.ml -o oracle 2>&1 || '
                     'timeout 600 ocamlfind ocamlopt -w -a model.mli model.ml driver.ml -o oracle',
                     cwd=self.dir, timeout=1300)
        self.ok = self.exe.exists()
        if not self.ok:
            ck.broken.append('oracle compilation failed: ' + out[-500:])
        ck.checker_cmds.append(f'coqc extract.v (Extraction "model.ml" {check_fn}) && ocamlfind ocamlopt model.ml driver.ml')

    def run(self, lines, jobs=16):
        """lines: list of str (already encoded). Returns sorted failing indices, or None on failure."""
        if not self.ok:
            return None
        n = len(lines)
        if n == 0:
            return []
        jobs = max(1, min(jobs, (n + 999) // 1000))
        size = (n + jobs - 1) // jobs
        chunks = [(i, lines[i:i + size]) for i in range(0, n, size)]

        def work(ch):
            off, part = ch
            p = subprocess.run([str(self.exe)], input='\n'.join(part) + '\n', text=True,
                               stdout=subprocess.PIPE, stderr=subprocess.PIPE)
            outl = p.stdout.split('\n')
            bad, done = [], None
            for ln in outl:
                if ln.startswith('DONE'):
                    done = int(ln.split()[1])
                elif ln.strip():
                    bad.append(off + int(ln))
            if p.returncode != 0 or done != len(part):
                return None, (p.stderr or '')[-300:] + f' (done={done}, expected {len(part)})'
            return bad, None

        res = []
        with ThreadPoolExecutor(max_workers=len(chunks)) as ex:
            for bad, err in ex.map(work, chunks):
                if bad is None:
                    self.ck.broken.append('oracle run failed: ' + str(err))
                    return None
                res += bad
        return sorted(res)
