"""C18 helpers: generator of FPy functions in the command language of
coq/Runtime/Boundary.v, printers (FPy source / Coq terms), and the replay of
caller operation sequences on fpy2.

Trees are native Python: int = TNum, tuple = TTup, list = TList.
"""
from __future__ import annotations

import importlib.util
import sys

from .common import cz

def cl(items):
    """Coq list as nested cons (elaborates ~4x faster than the [a; b] notation)."""
    s = 'nil'
    for x in reversed(list(items)):
        s = f'(cons {x} {s})'
    return s


MODES = ['RTZ', 'RTN', 'RTP', 'RAZ', 'RNE']
NAMES = ['f', 'g', 'h']

N = 'n'


def is_cont(ty):
    return ty != N


# ------------------------------------------------------------------ trees
def rand_type(rng, depth=2, cont=False):
    k = rng.random()
    if depth == 0 or (not cont and k < 0.35):
        return N
    if k < 0.75:
        return ('L', rand_type(rng, depth - 1))
    return ('T', tuple(rand_type(rng, depth - 1) for _ in range(rng.randint(2, 3))))


def rand_tree(rng, ty):
    if ty == N:
        return rng.randint(-9, 9)
    if ty[0] == 'L':
        return [rand_tree(rng, ty[1]) for _ in range(rng.randint(2, 3))]
    return tuple(rand_tree(rng, t) for t in ty[1])


def ctree(t):
    if isinstance(t, bool):
        raise TypeError('bool in tree')
    if isinstance(t, int):
        return f'(TNum {cz(t)})'
    if isinstance(t, tuple):
        return f'(TTup {cl(ctree(x) for x in t)})'
    if isinstance(t, list):
        return f'(TList {cl(ctree(x) for x in t)})'
    raise TypeError(f'not a tree: {t!r}')


def build(t, rng=None, memo=None):
    """A fresh Python object for a tree; with rng, equal list subtrees are sometimes
    ONE shared object (to_value copies each occurrence separately, as the model does)."""
    if isinstance(t, int):
        return t
    if isinstance(t, tuple):
        return tuple(build(x, rng, memo) for x in t)
    key = repr(t)
    if rng is not None and memo is not None and key in memo and rng.random() < 0.5:
        return memo[key]
    o = [build(x, rng, memo) for x in t]
    if memo is not None:
        memo[key] = o
    return o


class NotInt(Exception):
    pass


def tree_of(v):
    """Observed structure of a Python-side value (Float -> exact int)."""
    if isinstance(v, list):
        return [tree_of(x) for x in v]
    if isinstance(v, tuple):
        return tuple(tree_of(x) for x in v)
    if isinstance(v, bool):
        raise NotInt(repr(v))
    if isinstance(v, int):
        return v
    try:
        if v.is_nar() or not v.is_integer():
            raise NotInt(repr(v))
        return int(v)
    except AttributeError:
        raise NotInt(repr(v))


def list_ids(v, acc=None):
    """ids of the list objects reachable from v."""
    if acc is None:
        acc = {}
    if isinstance(v, list):
        if id(v) in acc:
            return acc
        acc[id(v)] = v
        for x in v:
            list_ids(x, acc)
    elif isinstance(v, tuple):
        for x in v:
            list_ids(x, acc)
    return acc


# ------------------------------------------------------------------ functions
class Fn:
    """params: list of types; caps: list of (type, tree); cmds: tuples; ret: operand."""

    def __init__(self, name, params, caps, cmds, ret, ctx, regty):
        self.name, self.params, self.caps, self.cmds, self.ret, self.ctx = name, params, caps, cmds, ret, ctx
        self.regty = regty
        self.writes_captured = False
        self.leaks_captured = False   # a captured container may be reachable from the result
        self.copy_of = None
        self.strategy = None

    @property
    def ret_type(self):
        return N if self.ret[0] == 'n' else self.regty[self.ret[1]]

    def clean(self):
        return not (self.writes_captured or self.leaks_captured)


def gen_fn(rng, name, clean=True, oob=False, maxsteps=8):
    nparams = rng.randint(0, 3)
    params = [rand_type(rng) for _ in range(nparams)]
    ncaps = rng.choice([0, 0, 1, 1, 2])
    caps = []
    for _ in range(ncaps):
        ty = rand_type(rng, cont=True)
        caps.append((ty, rand_tree(rng, ty)))
    regty = list(params) + [ty for ty, _ in caps]
    taint = [False] * nparams + [True] * ncaps
    cmds = []
    fn = Fn(name, params, caps, cmds, None, rng.choice([None, None, None] + MODES), regty)

    def numop():
        nums = [k for k, ty in enumerate(regty) if ty == N]
        if nums and rng.random() < 0.75:
            return ('r', rng.choice(nums))
        return ('n', rng.randint(-9, 9))

    def numreg():
        """A REGISTER holding a rounded number.  A bare literal is compiled to a Fraction, which from_value treats as
        a non-boundary leaf (the enclosing containers are then rebuilt on return): outside the modelled fragment, so a
        literal enters a container / the result only through `z + 0`."""
        nums = [k for k, ty in enumerate(regty) if ty == N]
        if nums and rng.random() < 0.75:
            return ('r', rng.choice(nums))
        regty.append(N)
        taint.append(False)
        cmds.append(('add', len(regty) - 1, ('n', rng.randint(-9, 9)), ('n', 0)))
        return ('r', len(regty) - 1)

    def op_of(ty, allow_taint):
        if ty == N:
            return numreg()
        cand = [k for k, t2 in enumerate(regty) if t2 == ty and (allow_taint or not taint[k])]
        return ('r', rng.choice(cand)) if cand else None

    def new(ty, tainted):
        regty.append(ty)
        taint.append(bool(tainted) and is_cont(ty))
        return len(regty) - 1

    def taint_all():
        for k, ty in enumerate(regty):
            if is_cont(ty):
                taint[k] = True

    for _ in range(rng.randint(1, maxsteps)):
        kind = rng.choice(['get', 'get', 'set', 'set', 'list', 'tuple', 'add', 'half', 'mov'])
        conts = [k for k, ty in enumerate(regty) if is_cont(ty)]
        if kind == 'get' and conts:
            x = rng.choice(conts)
            ty = regty[x]
            if ty[0] == 'L':
                i = 7 if (oob and rng.random() < 0.3) else rng.randint(0, 1)
                ety = ty[1]
            else:
                i = rng.randrange(len(ty[1]))
                ety = ty[1][i]
            d = new(ety, taint[x])
            cmds.append(('get', d, x, i))
        elif kind == 'set':
            lists = [k for k in conts if regty[k][0] == 'L' and (not clean or not taint[k])]
            if not lists:
                continue
            x = rng.choice(lists)
            o = op_of(regty[x][1], allow_taint=not clean)
            if o is None:
                continue
            i = 7 if (oob and rng.random() < 0.2) else rng.randint(0, 1)
            cmds.append(('set', x, i, o))
            if taint[x]:
                fn.writes_captured = True
            if o[0] == 'r' and taint[o[1]]:
                taint_all()
        elif kind == 'list':
            tys = sorted({repr(t): t for t in regty}.values(), key=repr) or [N]
            ty = rng.choice(tys + [N])
            os_ = [op_of(ty, True) for _ in range(rng.randint(2, 3))]
            if any(o is None for o in os_):
                continue
            d = new(('L', ty), any(o[0] == 'r' and taint[o[1]] for o in os_))
            cmds.append(('list', d, os_))
        elif kind == 'tuple':
            os_ = []
            for _ in range(rng.randint(2, 3)):
                if regty and rng.random() < 0.8:
                    os_.append(('r', rng.randrange(len(regty))))
                else:
                    os_.append(numreg())
            ty = ('T', tuple(regty[o[1]] for o in os_))
            d = new(ty, any(o[0] == 'r' and taint[o[1]] for o in os_))
            cmds.append(('tuple', d, os_))
        elif kind == 'add':
            a, b = numop(), numop()
            cmds.append(('add', new(N, False), a, b))
        elif kind == 'half':
            a = numop()
            cmds.append(('half', new(N, False), a))
        elif kind == 'mov' and regty:
            x = rng.randrange(len(regty))
            cmds.append(('mov', new(regty[x], taint[x]), ('r', x)))
    cand = [k for k in range(len(regty)) if not (clean and taint[k])]
    if cand:
        # prefer late registers (results of the body)
        k = cand[-1] if rng.random() < 0.5 else rng.choice(cand)
        fn.ret = ('r', k)
        fn.leaks_captured = taint[k]
    else:
        fn.ret = numreg()
    return fn


def handmade(kind):
    """The two witnesses of DESIGN.md section 7 #10 and friends."""
    if kind == 'bump':       # TABLE[0] = TABLE[0] + x; return TABLE[0]
        f = Fn('f', [N], [(('L', N), [1, 5])],
               [('get', 2, 1, 0), ('add', 3, ('r', 2), ('r', 0)), ('set', 1, 0, ('r', 3)), ('get', 4, 1, 0)],
               ('r', 4), None, [N, ('L', N), N, N, N])
        f.writes_captured = True
        return f
    if kind == 'get':        # return TABLE
        f = Fn('g', [], [(('L', N), [1, 5])], [], ('r', 0), None, [('L', N)])
        f.leaks_captured = True
        return f
    if kind == 'getx':       # def getx(x): return TABLE   (result shares with the argument once the caller holds TABLE)
        f = Fn('h', [('L', N)], [(('L', N), [1, 5])], [], ('r', 1), None, [('L', N), ('L', N)])
        f.leaks_captured = True
        return f
    if kind == 'scale':      # xs[0] = xs[0] / 2; return xs
        return Fn('f', [('L', N)], [], [('get', 1, 0, 0), ('half', 2, ('r', 1)), ('set', 0, 0, ('r', 2))],
                  ('r', 0), None, [('L', N), N, N])
    if kind == 'look':       # return TABLE[0] + x
        return Fn('g', [N], [(('L', N), [10, 20])], [('get', 2, 1, 0), ('add', 3, ('r', 2), ('r', 0))],
                  ('r', 3), None, [N, ('L', N), N, N])
    raise KeyError(kind)


def copy_fn(f, strategy):
    g = Fn(f.name, f.params, f.caps, f.cmds, f.ret, f.ctx, f.regty)
    g.writes_captured, g.leaks_captured = f.writes_captured, f.leaks_captured
    g.copy_of, g.strategy = f, strategy
    return g


# ------------------------------------------------------------------ printers
def _rname(fn, idx, k):
    n = len(fn.params)
    if k < n or k >= n + len(fn.caps):
        return f'r{k}'
    return f'G{idx}_{k - n}'


def _osrc(fn, idx, o):
    return _rname(fn, idx, o[1]) if o[0] == 'r' else (str(o[1]) if o[1] >= 0 else f'(-{-o[1]})')


def fn_source(fn, idx):
    """Module-level source defining RAW{idx} (plain function) and F{idx} (fp.fpy of it)."""
    lines = []
    for j, (_, tree) in enumerate(fn.caps):
        lines.append(f'G{idx}_{j} = {tree!r}')
    params = ', '.join(f'r{k}' for k in range(len(fn.params)))
    lines.append(f'def {fn.name}({params}):')
    for c in fn.cmds:
        k = c[0]
        if k == 'mov':
            lines.append(f'    {_rname(fn, idx, c[1])} = {_osrc(fn, idx, c[2])}')
        elif k == 'list':
            lines.append(f'    {_rname(fn, idx, c[1])} = [' + ', '.join(_osrc(fn, idx, o) for o in c[2]) + ']')
        elif k == 'tuple':
            lines.append(f'    {_rname(fn, idx, c[1])} = (' + ', '.join(_osrc(fn, idx, o) for o in c[2]) + ',)')
        elif k == 'get':
            lines.append(f'    {_rname(fn, idx, c[1])} = {_rname(fn, idx, c[2])}[{c[3]}]')
        elif k == 'set':
            lines.append(f'    {_rname(fn, idx, c[1])}[{c[2]}] = {_osrc(fn, idx, c[3])}')
        elif k == 'add':
            lines.append(f'    {_rname(fn, idx, c[1])} = {_osrc(fn, idx, c[2])} + {_osrc(fn, idx, c[3])}')
        elif k == 'half':
            lines.append(f'    {_rname(fn, idx, c[1])} = {_osrc(fn, idx, c[2])} / 2')
    lines.append(f'    return {_osrc(fn, idx, fn.ret)}')
    lines.append(f'RAW{idx} = {fn.name}')
    deco = 'fp.fpy' if fn.ctx is None else f'fp.fpy(ctx=CTX["{fn.ctx}"])'
    lines.append(f'F{idx} = {deco}(RAW{idx})')
    return '\n'.join(lines) + '\n'


MODULE_HEAD = ('import fpy2 as fp\n'
               'CTX = {m: fp.MPFixedContext(-1, getattr(fp.RM, m)) for m in ("RTZ", "RTN", "RTP", "RAZ", "RNE")}\n')


def _cop(o):
    return f'(OReg {o[1]})' if o[0] == 'r' else f'(ONum {cz(o[1])})'


def _ccmd(c):
    k = c[0]
    if k == 'mov':
        return f'(CMov {c[1]} {_cop(c[2])})'
    if k == 'list':
        return f'(CList {c[1]} {cl(_cop(o) for o in c[2])})'
    if k == 'tuple':
        return f'(CTuple {c[1]} {cl(_cop(o) for o in c[2])})'
    if k == 'get':
        return f'(CGet {c[1]} {c[2]} {c[3]})'
    if k == 'set':
        return f'(CSet {c[1]} {c[2]} {_cop(c[3])})'
    if k == 'add':
        return f'(CAdd {c[1]} {_cop(c[2])} {_cop(c[3])})'
    if k == 'half':
        return f'(CHalf {c[1]} {_cop(c[2])})'
    raise KeyError(k)


def fn_coq(fn):
    ctx = 'None' if fn.ctx is None else f'(Some {fn.ctx})'
    env = cl(ctree(t) for _, t in fn.caps)
    body = f'(mkBody {cl(_ccmd(c) for c in fn.cmds)} {_cop(fn.ret)})'
    return f'(mkFn {NAMES.index(fn.name)} {ctx} {env} {body})'


def op_coq(op):
    k = op[0]
    if k == 'call':
        return f'(KCall {op[1]} {cl(ctree(t) for t in op[2])} {op[3]})'
    if k == 'callheld':
        return f'(KCallHeld {op[1]} {op[2]} {op[3]})'
    if k == 'poke':
        return f'(KPoke {op[1]} {cl(str(j) for j in op[2])} {op[3]} {cz(op[4])})'
    raise KeyError(k)


def obs_coq(ob):
    if ob[0] == 'call':
        r = 'None' if ob[1] is None else f'(Some {ctree(ob[1])})'
        return f'(RCall {r} {cl(str(k) for k in ob[2])})'
    return f'(RPoke {"true" if ob[1] else "false"})'


# ------------------------------------------------------------------ modules
def load_module(path, modname):
    spec = importlib.util.spec_from_file_location(modname, path)
    mod = importlib.util.module_from_spec(spec)
    sys.modules[modname] = mod
    spec.loader.exec_module(mod)
    return mod


def instantiate(fns, directory, modname):
    """Write + import the module defining every base function; build the copies.
    Returns (list of fpy2 Function objects, list mapping function -> model index)."""
    from fpy2.transform import CopyPropagate, DeadCodeEliminate
    import fpy2 as fp
    src = MODULE_HEAD
    for idx, f in enumerate(fns):
        if f.copy_of is None:
            src += fn_source(f, idx)
    path = directory / f'{modname}.py'
    path.write_text(src)
    mod = load_module(path, modname)
    objs, midx = [None] * len(fns), list(range(len(fns)))
    for idx, f in enumerate(fns):
        if f.copy_of is None:
            objs[idx] = getattr(mod, f'F{idx}')
    for idx, f in enumerate(fns):
        if f.copy_of is not None:
            j = fns.index(f.copy_of)
            base = objs[j]
            if f.strategy == 'dce':
                objs[idx] = base.with_ast(DeadCodeEliminate.apply(base.ast))
            elif f.strategy == 'cp':
                objs[idx] = base.with_ast(CopyPropagate.apply(base.ast))
            else:  # a second, independent definition from the same source text
                raw = getattr(mod, f'RAW{j}')
                objs[idx] = fp.fpy(raw) if f.ctx is None else fp.fpy(ctx=mod.CTX[f.ctx])(raw)
            if objs[idx].ast is base.ast:
                midx[idx] = midx[j]      # same FuncDef object = same cache key
    return mod, objs, midx


# ------------------------------------------------------------------ replay on fpy2
def navigate(v, path):
    for j in path:
        if not isinstance(v, (list, tuple)):
            return None
        if j >= len(v):
            return None
        v = v[j]
    return v


def replay(fns, objs, midx, ops, ctxs, rng, report):
    """Runs the caller operations on fpy2.  Returns (ops as printed for the model, observations).
    `report(kind, detail, fn)` is called for a direct violation of the property
    (argument changed / result shares a list with an argument)."""
    import fpy2 as fp
    held, obs, mops = [], [], []
    for op in ops:
        if op[0] in ('call', 'callheld'):
            i, mode = op[1], op[3]
            f = fns[i]
            if op[0] == 'call':
                memo = {}
                args = [build(t, rng, memo) for t in op[2]]
                mops.append(('call', midx[i], op[2], mode))
            else:
                mops.append(('callheld', midx[i], op[2], mode))
                if op[2] >= len(held) or held[op[2]] is None:
                    held.append(None)
                    obs.append(('call', None, []))
                    continue
                args = [held[op[2]]]
            before_ids = set(list_ids(args))
            try:
                before = tree_of(args)
            except NotInt:
                before = None
            try:
                r = objs[i](*args, ctx=ctxs[mode])
                rt = tree_of(r)
            except NotInt as e:
                report('result is not an integer-valued number (outside the modelled fragment)', repr(e), f)
                r, rt = None, None
            except Exception:  # noqa: BLE001 -- any exception is the model's `None`
                r, rt = None, None
            try:
                after = tree_of(args)
            except NotInt:
                after = None
            if after != before or set(list_ids(args)) != before_ids:
                report('argument modified by the call', {'fn': fn_source(f, i), 'before': repr(before), 'after': repr(after)}, f)
            if r is not None:
                common = set(list_ids(r)) & before_ids
                if common:
                    report('result shares a list object with an argument',
                           {'fn': fn_source(f, i), 'args': repr(before), 'result': repr(rt)}, f)
            sh = []
            if r is not None:
                rid = set(list_ids(r))
                sh = [k for k, h in enumerate(held) if h is not None and rid & set(list_ids(h))]
            held.append(r)
            obs.append(('call', rt, sh))
        else:
            _, k, path, i, z = op
            mops.append(op)
            ok = False
            if k < len(held) and held[k] is not None:
                tgt = navigate(held[k], path)
                if isinstance(tgt, list) and i < len(tgt):
                    tgt[i] = fp.Float.from_int(z)
                    ok = True
            obs.append(('poke', ok))
    return mops, obs
