"""Printers from fpy2 number values to Coq terms of coq/Num/*.v (canonical forms)."""
from fractions import Fraction

from .common import cb, cz, copt


def rf_term(s, exp, c):
    return f'(RF {cb(s)} {cz(exp)} {cz(c)})'


def rf_of(x):
    """fpy2 RealFloat -> Coq rf (raw encoding)."""
    return rf_term(x._s, x._exp, x._c)


def fl_of(x):
    """fpy2 Float -> Coq fl."""
    if x.isnan:
        return f'(FNaN {cb(x.s)})'
    if x.isinf:
        return f'(FInf {cb(x.s)})'
    return f'(FFin {rf_term(x.s, x.exp, x.c)})'


def flags_of(x):
    f = x._flags if hasattr(x, '_flags') else x
    return (f'(FL {cb(f.invalid)} {cb(f.divzero)} {cb(f.overflow)} {cb(f.tiny_pre)} '
            f'{cb(f.tiny_post)} {cb(f.inexact)} {cb(f.carry)})')


ERR = {
    'ValueError': 'ValueErr', 'OverflowError': 'OverflowErr', 'TypeError': 'TypeErr',
    'IndexError': 'IndexErr', 'AssertionError': 'AssertErr', 'NameError': 'NameErr',
    'KeyError': 'NameErr', 'ZeroDivisionError': 'ValueErr',
}


def err_of(e):
    return ERR.get(type(e).__name__, 'OtherErr')


def o_err(e):
    return f'(OErr {err_of(e)})'


def o_rf(x):
    return f'(ORf {rf_of(x)})'


def o_fl(x):
    return f'(OFl {fl_of(x)})'


def o_z(z):
    return f'(OZ {cz(z)})'


def o_b(b):
    return f'(OB {cb(b)})'


def o_pair(a, b):
    return f'(OPair {a} {b})'


def o_cmp(o):
    """fpy2 Ordering | None -> OCmp."""
    if o is None:
        return '(OCmp None)'
    name = {'LESS': 'Lt', 'EQUAL': 'Eq', 'GREATER': 'Gt'}[o.name]
    return f'(OCmp (Some {name}))'


def o_rff(x):
    """RealFloat with flags."""
    return o_pair(o_rf(x), f'(OFlags {flags_of(x)})')


def exact_fraction(s, exp, c):
    v = Fraction(c) * (Fraction(2) ** exp)
    return -v if s else v


RM_NAMES = ['RNE', 'RNA', 'RTP', 'RTN', 'RTZ', 'RAZ', 'RTO', 'RTE']


def rm_of(rm):
    return rm.name
