"""C11: compile-and-run differential between the C++ backend and the interpreter.

THIS IS TESTING, not proof (labelled so in the evidence): small programs of the
accepted subset are generated, compiled by fpy2.backend.cpp under every
combination of the compiler options (optimize x unbox mode x arrays), built with
g++ and run on argument vectors; every result is compared bitwise with
Function.__call__ (sign of zero, NaN-ness, booleans, list lengths, elements,
tuple fields).  Only operations a C++ toolchain rounds correctly are generated
(+ - * / sqrt fma neg abs min max, comparisons, conversions).
"""
import math
import os
import shutil
import struct
import subprocess
import sys
import importlib
from concurrent.futures import ThreadPoolExecutor
from fractions import Fraction

CXX = shutil.which('g++') or shutil.which('c++')
RMS = ['RNE', 'RTZ', 'RTP', 'RTN']

K_NEGZERO_INT = 'int_storage_loses_neg_zero'
K_FENV = 'fesetround_not_a_barrier_when_optimised'
K_RTN0 = 'rtn_exact_zero_sum_is_plus_zero'
K_F32LIT = 'f32_literal_operand_promotes_to_double'
K_NEGSTEP = 'range_negative_step_loop_condition'


# ---------------------------------------------------------------- program generator
class P:
    """a generated program: python source of one module, entry name, outer ctx expr, argument kinds"""

    def __init__(self, family, name, src, ctx, args):
        self.family, self.name, self.src, self.ctx, self.args = family, name, src, ctx, args


LITS = ['0.5', '2', '3', '0.25', '1', '-1.5', '8', '0.125', '-2']


def fexpr(rng, vars_, depth=0):
    k = rng.random()
    if depth >= 2 or k < 0.3:
        return rng.choice(vars_) if rng.random() < 0.8 else rng.choice(LITS)
    a, b = fexpr(rng, vars_, depth + 1), fexpr(rng, vars_, depth + 1)
    if k < 0.72:
        return f'({a} {rng.choice(["+", "-", "*", "/"])} {b})'
    if k < 0.78:
        return f'(-{a})'
    if k < 0.84:
        return f'abs({a})'
    if k < 0.9:
        return f'fp.sqrt(abs({a}))'
    if k < 0.95:
        return f'fp.fma({a}, {b}, {fexpr(rng, vars_, depth + 1)})'
    return f'{rng.choice(["min", "max"])}({a}, {b})'


def gen_float_modes(rng, i):
    """float / double arithmetic under the four hardware rounding modes, nested scopes"""
    es, nb, kind = rng.choice([(8, 32, 'f32'), (11, 64, 'f64')])
    nargs = rng.choice([2, 3])
    vs = [f'a{k}' for k in range(nargs)]
    lines, n = [], 0
    for _ in range(rng.randint(2, 4)):
        rm = rng.choice(RMS)
        lines.append(f'    with fp.IEEEContext({es}, {nb}, fp.RM.{rm}):')
        for _ in range(rng.randint(1, 2)):
            n += 1
            lines.append(f'        t{n} = {fexpr(rng, vs)}')
            vs.append(f't{n}')
        if rng.random() < 0.5:
            rm2 = rng.choice(RMS)
            n += 1
            lines.append(f'        with fp.IEEEContext({es}, {nb}, fp.RM.{rm2}):')
            lines.append(f'            t{n} = {fexpr(rng, vs)}')
            vs.append(f't{n}')
            n += 1
            lines.append(f'        t{n} = {fexpr(rng, vs)}')
            vs.append(f't{n}')
    rets = rng.sample(vs[nargs:], min(3, len(vs) - nargs))
    name = f'fm{i}'
    src = [f'@fp.fpy', f'def {name}({", ".join(v + ": fp.Real" for v in vs[:nargs])}):'] + lines + [f'    return {", ".join(rets)}']
    return P('float-modes', name, '\n'.join(src), f'fp.IEEEContext({es}, {nb}, fp.RM.RNE)', [kind] * nargs)


def gen_widen(rng, i):
    """binary32 operands widened into binary64 arithmetic, rounded back explicitly"""
    rm, rm2 = rng.choice(RMS), rng.choice(RMS)
    name = f'wd{i}'
    e1, e2 = fexpr(rng, ['a0', 'a1']), fexpr(rng, ['a0', 'a1', 't1'])
    src = f'''@fp.fpy
def {name}(a0: fp.Real, a1: fp.Real):
    with fp.IEEEContext(11, 64, fp.RM.{rm}):
        t1 = {e1}
        t2 = {e2}
    with fp.IEEEContext(8, 32, fp.RM.{rm2}):
        t3 = fp.round(t2)
        t4 = t3 * a0
    return t1, t2, t3, t4'''
    return P('widen-narrow', name, src, 'fp.FP64', ['f32', 'f32'])


def iexpr(rng, vars_, depth=0):
    k = rng.random()
    if depth >= 2 or k < 0.35:
        return rng.choice(vars_) if rng.random() < 0.8 else rng.choice(['1', '2', '3', '-1', '7'])
    a, b = iexpr(rng, vars_, depth + 1), iexpr(rng, vars_, depth + 1)
    if k < 0.85:
        return f'({a} {rng.choice(["+", "-", "*"])} {b})'
    if k < 0.93:
        return f'(-{a})'
    return f'abs({a})'


def gen_int_exact(rng, i):
    """exact arithmetic on narrow integers whose inferred format fits a machine type; integer contexts"""
    kinds = [rng.choice(['s8', 'u8', 's16']) for _ in range(2)]
    name = f'ix{i}'
    e1, e2 = iexpr(rng, ['a0', 'a1']), iexpr(rng, ['a0', 'a1', 't1'], 1)
    c = rng.choice(['0', '3', '-5', '100'])
    src = f'''@fp.fpy
def {name}(a0: fp.Real, a1: fp.Real):
    with fp.REAL:
        t1 = {e1}
        t2 = {e2}
        if t1 < {c}:
            t3 = t2 - a0
        else:
            t3 = a1 + 1
    return t1, t2, t3, t1 <= t2'''
    return P('int-exact', name, src, 'fp.FP64', kinds)


def gen_control(rng, i):
    """loops with accumulators, while with a counter, branches, conditional expressions"""
    es, nb, kind = rng.choice([(8, 32, 'f32'), (11, 64, 'f64')])
    rm = rng.choice(RMS)
    name = f'cf{i}'
    body = rng.choice(['acc + a1 * i', 'acc * a1 + i', '(acc - a1) / 2', 'fp.fma(acc, a1, a0)'])
    cmpop = rng.choice(['<', '<=', '>', '>='])
    src = f'''@fp.fpy
def {name}(a0: fp.Real, a1: fp.Real):
    with fp.IEEEContext({es}, {nb}, fp.RM.{rm}):
        acc = a0
        for i in range({rng.choice([0, 1, 3, 5])}):
            acc = {body}
        k = 0
        w = a1
        while k < {rng.choice([1, 2, 4])}:
            w = w * {rng.choice(['0.5', '2', 'a0'])} + acc
            k = k + 1
        if acc {cmpop} w:
            r = acc - w
        else:
            r = w / {rng.choice(['2', '4', 'a0'])}
        q = (a0 if a0 {rng.choice(['<', '>'])} a1 else a1)
    return acc, w, r, q, acc {cmpop} w'''
    return P('control', name, src, f'fp.IEEEContext({es}, {nb}, fp.RM.RNE)', [kind, kind])


def gen_lists(rng, i):
    """tuples, lists incl. aliased and nested, helper calls that write through a list parameter"""
    name = f'ls{i}'
    op = rng.choice(['+', '-', '*'])
    idx = rng.choice([0, 1, 2])
    src = f'''@fp.fpy
def {name}_bump(xs: list[fp.Real], d: fp.Real):
    xs[{idx}] = xs[{idx}] {op} d
    return xs[{idx}] * 2

@fp.fpy
def {name}_sc(u: fp.Real, v: fp.Real):
    return (u {op} v, v - u)

@fp.fpy
def {name}(a0: fp.Real, a1: fp.Real):
    xs = [a0, a1, a0 {op} a1]
    ys = xs
    h = {name}_bump(ys, a1)
    ys[{(idx + 1) % 3}] = h
    nest = [[a0, a1], [a1, a0], [h, h]]
    row = nest[1]
    row[0] = xs[{idx}]
    p, q = {name}_sc(nest[1][0], a0)
    zs = [x * 2 for x in xs]
    s = 0
    for z in zs:
        s = s + z
    return (xs[0], xs[1], xs[2]), zs, nest[1][0], p, q, s, len(zs), xs[{idx}] < s'''
    return P('lists-aliases-calls', name, src, 'fp.FP64', ['f64', 'f64'])


def gen_list_arg(rng, i):
    name = f'la{i}'
    rm = rng.choice(RMS)
    src = f'''@fp.fpy
def {name}(xs: list[fp.Real], a: fp.Real):
    with fp.IEEEContext(11, 64, fp.RM.{rm}):
        t = a
        for x in xs:
            t = t * {rng.choice(['0.5', 'a', '2'])} + x
        ys = [x {rng.choice(['+', '*', '-'])} t for x in xs]
    return t, ys, len(ys)'''
    return P('list-argument', name, src, 'fp.FP64', [('list', 'f64'), 'f64'])



INT_RANGE = {'s8': (-128, 127), 'u8': (0, 255), 's16': (-32768, 32767), 'u16': (0, 65535),
             's32': (-2 ** 31, 2 ** 31 - 1), 'u32': (0, 2 ** 32 - 1)}


def gen_reduce(rng, i):
    """sum / min / max over short lists of statically known length whose sum crosses a machine-type boundary:
    every integer rung under REAL or a wider integer context, binary32 elements under a binary64 context"""
    kind = ['s8', 'u8', 's16', 'u16', 's32', 'u32', 'f32'][i % 7] if rng.random() < 0.85 else rng.choice(['s8', 's16', 'f32'])
    n = rng.choice([2, 2, 3, 4])
    vs = [f'a{k}' for k in range(n)]
    if kind == 'f32':
        scope = rng.choice(['fp.FP64', 'fp.IEEEContext(11, 64, fp.RM.RTZ)'])
    else:
        wider = {'s8': ['fp.SINT16', 'fp.SINT32'], 'u8': ['fp.UINT16', 'fp.SINT16'], 's16': ['fp.SINT32'], 'u16': ['fp.UINT32', 'fp.SINT32'],
                 's32': ['fp.SINT64'], 'u32': ['fp.SINT64', 'fp.UINT64']}[kind]
        scope = rng.choice(['fp.REAL', 'fp.REAL'] + wider)
    name = f'rd{i}'
    extra = rng.choice(['s - a0', 's + a1', 's * 1'])
    src = f'''@fp.fpy
def {name}({", ".join(v + ": fp.Real" for v in vs)}):
    with {scope}:
        xs = [{", ".join(vs)}]
        s = sum(xs)
        pair = [a0, a1]
        s2 = sum(pair)
        d2 = sum([a1, a1])
        lo = min(xs)
        hi = max(xs)
        t = {extra}
    return s, s2, d2, lo, hi, t, s < hi'''
    p = P('reductions-at-type-boundaries', name, src, 'fp.FP64', [kind] * n)
    p.boundary = True
    return p


def gen_sibling_modes(rng, i):
    """sibling scopes, branch arms and loop bodies that repeat the same directed rounding mode"""
    es, nb, kind = rng.choice([(8, 32, 'f32'), (11, 64, 'f64'), (11, 64, 'f64')])
    rm, rm2 = rng.choice(RMS[1:]), rng.choice(RMS[1:])
    C = f'fp.IEEEContext({es}, {nb}, fp.RM.{rm})'
    C2 = f'fp.IEEEContext({es}, {nb}, fp.RM.{rm2})'
    o1, o2, o3, o4 = (rng.choice(['+', '-', '*', '/']) for _ in range(4))
    name = f'sb{i}'
    src = f'''@fp.fpy
def {name}(a0: fp.Real, a1: fp.Real):
    with {C}:
        t1 = a0 {o1} a1
    with {C}:
        t2 = t1 {o2} a1
    if a0 > {rng.choice(['0', '1', '100', '-2'])}:
        with {C2}:
            t3 = t2 / a1
    else:
        with {C2}:
            t3 = t2 * a0
    with {C2}:
        t4 = t3 {o3} a0
    acc = a0
    for i in range({rng.choice([2, 3])}):
        with {C}:
            acc = acc / 3 {o4} a1
    with {C}:
        t5 = fp.sqrt(abs(acc)) + t4
    return t1, t2, t3, t4, acc, t5'''
    p = P('sibling-scopes-same-mode', name, src, f'fp.IEEEContext({es}, {nb}, fp.RM.RNE)', [kind, kind])
    p.inexact = True
    return p


def gen_nested(rng, i):
    """lists nested 2 and 3 deep, names bound at each depth, a slot replaced at EACH depth (one structure per depth in
    every program), a helper callee writing through the bound names"""
    name = f'ns{i}'
    c = rng.randint(0, 1)
    parts, rets = [], []
    for tag, rep in (('p', 'slot2'), ('q', 'slot1'), ('r', 'elem')):
        a, b = rng.randint(0, 1), rng.randint(0, 1)
        X, Y = f'{tag}sss', f'{tag}ys'
        if rep == 'slot2':
            replace3 = f'{X}[{a}][{b}] = {Y}'
        elif rep == 'slot1':
            replace3 = f'{X}[{a}] = [{Y}, [a1, a1]]'
        else:
            replace3 = f'{X}[{a}][{b}][{c}] = a0 * 4'
        parts.append(f'''    {X} = [[[a0, a1], [a1, a0]], [[a0, a0], [a1, a1]]]
    {Y} = [a1 * 2, a0 * 2]
    {tag}plane = {X}[{a}]
    {tag}row = {X}[{a}][{b}]
    {replace3}
    {tag}h = {name}_poke({tag}row, a0 + a1)
    {tag}r1 = {tag}row[0] + {X}[{a}][{b}][1]
    {tag}p1 = {tag}plane[{b}][{c}]
    {Y}[{1 - c}] = {tag}h + {tag}p1''')
        rets += [f'{tag}r1', f'{tag}row[0]', f'{tag}row[1]', f'{X}[{a}][{b}][0]', f'{X}[{a}][{b}][1]', f'{tag}p1', f'{tag}h',
                 f'{Y}[0]', f'{Y}[1]', f'len({X}[{a}])']
    for tag, kind in (('u', 'slot'), ('v', 'elem')):
        d = rng.randint(0, 1)
        X, Y = f'{tag}ss', f'{tag}ys'
        rep2 = f'{X}[{d}] = {Y}' if kind == 'slot' else f'{X}[{d}][{c}] = a1 * 8'
        parts.append(f'''    {X} = [[a0, a1], [a1, a0]]
    {Y} = [a1 * 2, a0 * 2]
    {tag}line = {X}[{d}]
    {rep2}
    {tag}g = {name}_poke({tag}line, a0 - a1)''')
        rets += [f'{tag}line[0]', f'{tag}line[1]', f'{X}[{d}][0]', f'{X}[{d}][1]', f'{tag}g', f'{Y}[0]']
    body = '\n'.join(parts)
    src = f'''@fp.fpy
def {name}_poke(zs: list[fp.Real], v: fp.Real):
    zs[{c}] = v
    return zs[{1 - c}]

@fp.fpy
def {name}(a0: fp.Real, a1: fp.Real):
{body}
    return {", ".join(rets)}'''
    return P('nested-lists-slot-replacement', name, src, 'fp.FP64', ['f64', 'f64'])


def gen_scale_pow2(rng, i):
    """`2 ** n * v` / `v * 2 ** n` with mixed storage: a binary32 (or binary64) value scaled by a power of two with an
    integer-format exponent under a binary64 context; products outside binary32's range and precision"""
    vk = rng.choice(['f32', 'f32', 'f64'])
    nk = rng.choice(['s8', 's8', 's16'])
    name = f'sp{i}'
    src = f'''@fp.fpy
def {name}(a0: fp.Real, a1: fp.Real):
    with fp.FP64:
        t1 = (2 ** a1) * a0
        t2 = a0 * (2 ** a1)
        t3 = (2 ** a1) * (a0 * {rng.choice(['0.5', '2', '1.5'])})
        t4 = t1 + a0
    return t1, t2, t3, t4'''
    p = P('scale-by-power-of-two-mixed-storage', name, src, 'fp.FP64', [vk, nk])
    big = [3.0000000054977558e38, -3.0000000054977558e38, 3.4028234663852886e38, 1e-40, 1.401298464324817e-45, -1.1754943508222875e-38,
           1.5, -0.75, 16777215.0, 0.0, -0.0]

    def sampler(rng, s, vk=vk, nk=nk):
        x = rng.choice(big) if rng.random() < 0.8 else rng.gauss(0, 1e30)
        x = to_f32(x) if vk == 'f32' else x
        n = rng.choice([1, 2, -1, -3, 30, 64, -64, 100, -100, 127, -128, 0, rng.randint(-60, 60)])
        return [x, n]
    p.sampler = sampler
    return p


def gen_strided_loops(rng, i):
    """constant-bound strided loops whose C-style counter overshoots `stop` across an int8 / int16 / int32 boundary
    (and controls: divisible strides, nothing near a boundary), both directions, named and `_` targets"""
    loops = []
    for B in rng.sample([127, 127, 32767, 32767, 2 ** 31 - 1, 255, 65535], 3):
        n = rng.randint(2, 5)
        step = rng.randint(B // (n + 1) + 1, B // n) if B // n > B // (n + 1) + 1 else B // n
        start = rng.choice([0, 0, 1, 3])
        last = start + (n - 1) * step
        over = start + n * step
        stop = rng.randint(last + 1, max(last + 1, min(B, over - 1)))
        if rng.random() < 0.3:
            start, stop, step = -start, -stop, -step
        loops.append((start, stop, step))
    loops.append(rng.choice([(0, 120, 40), (3, 100, 7), (0, 120, 50), (0, 32000, 10000), (10, -118, -50)]))
    name = f'st{i}'
    body = []
    for k, (a, b, c) in enumerate(loops):
        body.append(f'        s{k} = a0')
        body.append(f'        for i{k} in range({a}, {b}, {c}):')
        body.append(f'            s{k} = s{k} + i{k}')
        body.append(f'        n{k} = 0')
        body.append(f'        for _ in range({a}, {b}, {c}):')
        body.append(f'            n{k} = n{k} + 1')
    rets = ', '.join(f's{k}, n{k}' for k in range(len(loops)))
    src = f'''@fp.fpy
def {name}(a0: fp.Real):
    with fp.FP64:
''' + '\n'.join(body) + f'''
    return {rets}'''
    p = P('strided-constant-bound-loops', name, src, 'fp.FP64', ['f64'])
    # result tokens (s_k, n_k) that come from a descending loop: known finding K_NEGSTEP (always emitted with `<`)
    p.neg_positions = {j for k, (a, b, c) in enumerate(loops) if c < 0 and a > b for j in (2 * k, 2 * k + 1)}
    return p


GENERATORS = [gen_float_modes, gen_widen, gen_int_exact, gen_control, gen_lists, gen_list_arg, gen_reduce, gen_sibling_modes, gen_nested, gen_scale_pow2, gen_strided_loops]


# ---------------------------------------------------------------- argument values
SPECIAL_F = [0.0, -0.0, 1.0, -1.0, 0.5, 3.0, -2.5, 1e-310, 5e-324, float('inf'), float('-inf'), float('nan'),
             1.7976931348623157e308, 0.1, 1e16, -7.25]


def to_f32(x):
    if x != x or x in (float('inf'), float('-inf')):
        return x
    try:
        return struct.unpack('<f', struct.pack('<f', x))[0]
    except OverflowError:
        return float('inf') if x > 0 else float('-inf')


def sample_arg(rng, kind, special):
    if isinstance(kind, tuple):
        n = rng.choice([0, 1, 3, 4])
        return [sample_arg(rng, kind[1], special) for _ in range(n)]
    if kind in ('f32', 'f64'):
        if special or rng.random() < 0.35:
            v = rng.choice(SPECIAL_F)
        elif rng.random() < 0.5:
            v = float(rng.randint(-64, 64)) / rng.choice([1, 2, 4, 8])
        else:
            v = rng.gauss(0, 8) * 10 ** rng.randint(-3, 3)
        return to_f32(v) if kind == 'f32' else v
    lo, hi = INT_RANGE[kind]
    if special or rng.random() < 0.4:
        return rng.choice([lo, hi, hi, hi - 1, lo + 1, 0, 1, -1 if lo < 0 else 2, (hi + 1) // 2, hi - 27])
    return rng.randint(max(lo, -300), min(hi, 300))


def cpp_scalar_lit(v, cty):
    t = cty.format()
    if cty.is_float():
        if v != v:
            return f'std::numeric_limits<{t}>::quiet_NaN()'
        if v in (float('inf'), float('-inf')):
            return ('-' if v < 0 else '') + f'std::numeric_limits<{t}>::infinity()'
        return f'static_cast<{t}>({float(v).hex()})'
    return f'static_cast<{t}>({int(v)}LL)'


def cpp_value(v, cty):
    from fpy2.backend.cpp.types import CppList, CppTuple
    if isinstance(cty, CppList):
        elts = ', '.join(cpp_value(x, cty.elt) for x in v)
        if cty.boxed:
            return f'std::make_shared<std::vector<{cty.elt.format()}>>(std::vector<{cty.elt.format()}>{{{elts}}})'
        if cty.size is not None:
            if len(v) != cty.size:
                raise ValueError('static size mismatch')
            return f'{cty.format()}{{{{{elts}}}}}' if elts else f'{cty.format()}{{}}'
        return f'{cty.format()}{{{elts}}}'
    if isinstance(cty, CppTuple):
        return 'std::make_tuple(' + ', '.join(cpp_value(x, e) for x, e in zip(v, cty.elts)) + ')'
    return cpp_scalar_lit(v, cty)


def emit_print(expr, cty, lines, counter):
    from fpy2.backend.cpp.types import CppList, CppTuple, CppScalar
    if isinstance(cty, CppTuple):
        for k, e in enumerate(cty.elts):
            emit_print(f'std::get<{k}>({expr})', e, lines, counter)
    elif isinstance(cty, CppList):
        seq = f'(*({expr}))' if cty.boxed else f'({expr})'
        counter[0] += 1
        it = f'e{counter[0]}'
        lines.append(f'std::printf("L%zu ", (size_t){seq}.size());')
        lines.append(f'for (auto {it} : {seq}) {{')
        emit_print(it, cty.elt, lines, counter)
        lines.append('}')
    elif cty is CppScalar.BOOL:
        lines.append(f'std::printf("B%d ", (int)({expr}));')
    else:
        lines.append(f'std::printf("%a ", (double)({expr}));')


def flatten(v, out):
    """interpreter value -> the same token stream the driver prints"""
    if isinstance(v, bool):
        out.append(f'B{int(v)}')
    elif isinstance(v, (tuple,)):
        for x in v:
            flatten(x, out)
    elif isinstance(v, list):
        out.append(f'L{len(v)}')
        for x in v:
            flatten(x, out)
    else:
        out.append(float(v))
    return out


def tok_eq(want, got):
    if isinstance(want, str):
        return want == got
    g = got.lower()
    if 'nan' in g:
        return want != want
    if 'inf' in g:
        return want == (float('-inf') if g.startswith('-') else float('inf'))
    if want != want:
        return False
    return struct.pack('<d', want) == struct.pack('<d', float.fromhex(g))


def storage_misfit(cty, v):
    """None when the interpreter value v is a value of the C++ storage type cty, else the reason"""
    from fpy2.backend.cpp.types import CppList, CppTuple, CppScalar
    if isinstance(cty, CppTuple):
        if not isinstance(v, tuple) or len(v) != len(cty.elts):
            return 'shape'
        for e, x in zip(cty.elts, v):
            r = storage_misfit(e, x)
            if r:
                return r
        return None
    if isinstance(cty, CppList):
        if not isinstance(v, list):
            return 'shape'
        for x in v:
            r = storage_misfit(cty.elt, x)
            if r:
                return r
        return None
    if cty is CppScalar.BOOL:
        return None if isinstance(v, bool) else 'shape'
    if isinstance(v, bool):
        return 'shape'
    try:
        f = float(v)
    except Exception:  # noqa
        return None
    if cty.is_float():
        if cty is CppScalar.F32 and f == f and f not in (float('inf'), float('-inf')) and to_f32(f) != f:
            return 'not a binary32 value'
        return None
    if f != f or f in (float('inf'), float('-inf')):
        return 'NaN / infinity in an integer type'
    if f != int(f):
        return 'fraction in an integer type'
    if f == 0 and math.copysign(1, f) < 0:
        return 'negative zero in an integer type'
    bits = {'U8': (0, 2 ** 8 - 1), 'U16': (0, 2 ** 16 - 1), 'U32': (0, 2 ** 32 - 1), 'U64': (0, 2 ** 64 - 1),
            'S8': (-2 ** 7, 2 ** 7 - 1), 'S16': (-2 ** 15, 2 ** 15 - 1), 'S32': (-2 ** 31, 2 ** 31 - 1), 'S64': (-2 ** 63, 2 ** 63 - 1)}[cty.name]
    return None if bits[0] <= int(f) <= bits[1] else f'{int(f)} outside the range of {cty.format()}'


# ---------------------------------------------------------------- the run
def run_differential(ck, rng, thorough):
    import fpy2 as fp
    from fpy2.backend.cpp.compiler import CppCompiler
    from fpy2.backend.cpp.unbox import UnboxMode
    from fpy2.module import Module
    from fpy2.types import RealType, ListType

    if CXX is None:
        ck.broken.append('no g++ found: the compile-and-run differential cannot run')
        return
    from .c14_programs import make_tracer
    import fpy2.ops as ops
    Tracer = make_tracer(fp)
    nprog = 88 if thorough else 22
    nvec = 24 if thorough else 8
    progs = []
    for i in range(nprog):
        g = GENERATORS[i % len(GENERATORS)]
        progs.append(g(rng, i))
    modname = f'c11_generated_{ck.seed}'
    (ck.dir / f'{modname}.py').write_text('import fpy2 as fp\n\n' + '\n\n'.join(p.src for p in progs) + '\n')
    sys.path.insert(0, str(ck.dir))
    try:
        mod = importlib.import_module(modname)
    finally:
        sys.path.remove(str(ck.dir))

    kind_ctx = {'f32': fp.FP32, 'f64': fp.FP64, 's8': fp.SINT8, 'u8': fp.UINT8, 's16': fp.SINT16, 's32': fp.SINT32,
                'u16': fp.UINT16, 'u32': fp.UINT32}

    def arg_type(kind):
        if isinstance(kind, tuple):
            return ListType(arg_type(kind[1]))
        return RealType(kind_ctx[kind])

    configs = [(o, u, a) for o in (True, False) for u in (UnboxMode.NEVER, UnboxMode.ALLOW, UnboxMode.STRICT) for a in (True, False)]
    ck.extra.setdefault('differential', {})['option_combinations'] = [f'optimize={o},unbox={u.name},arrays={a}' for o, u, a in configs]

    storage_checks = [0, 0]
    jobs = []       # (program, [(cfgname, config)], samples, tu path)
    refused = {}
    for p in progs:
        f = getattr(mod, p.name)
        ctx = eval(p.ctx, {'fp': fp})
        atys = [arg_type(k) for k in p.args]
        # argument vectors the interpreter accepts.  The interpreter run is traced (harness/c14_programs.py tracer) to
        # attribute two known deviations to their root cause: an exact zero sum under RTN (IEEE 754 6.3: -0; the
        # interpreter: +0), and a -0 produced by neg / mul of integer-format operands (C14 has_neg_zero finding).
        samples = []
        tracer = Tracer()
        for s in range(nvec * 3):
            if len(samples) >= nvec:
                break
            if getattr(p, 'sampler', None) is not None:
                args = p.sampler(rng, s)
            elif getattr(p, 'boundary', False):
                args = [sample_arg(rng, k, rng.random() < 0.75) for k in p.args]
                if p.args[0] == 'f32' and s % 3 == 0:
                    args = [rng.choice([3.4028234663852886e38, -3.4028234663852886e38, 16777216.0, 16777217.0 - 1, 1.0, 0.1])
                            for _ in p.args]
                    args = [to_f32(a) for a in args]
            elif getattr(p, 'inexact', False) and s >= 2:
                # inputs on which the directed modes and round-to-nearest differ
                args = [(to_f32 if k == 'f32' else float)(rng.choice([-1, 1]) * (rng.random() * 10 + 0.1) * 10 ** rng.randint(-2, 3)) for k in p.args]
            else:
                args = [sample_arg(rng, k, s < 4) for k in p.args]
            last, flags = {}, set()

            dbl = {}

            def sink(e, value, last=last, flags=flags, dbl=dbl):
                last[id(e)] = value
                kind0 = type(e).__name__
                # which sub-expressions the emitted C++ evaluates in binary64 although the context is binary32: a fractional
                # literal token is a `double`, and the promotion is contagious through infix / prefix operators.  The known
                # class is flagged only when such an operation, done in binary64, yields a value the binary32 operation does not
                if kind0 in ('Decnum', 'Hexnum', 'Rational', 'Digits'):
                    try:
                        dbl[id(e)] = e.as_rational().denominator != 1
                    except Exception:  # noqa
                        dbl[id(e)] = False
                elif kind0 == 'Neg':
                    dbl[id(e)] = dbl.get(id(e.arg), False)
                elif kind0 in ('Add', 'Sub', 'Mul', 'Div') and isinstance(value, fp.Float):
                    c = getattr(value, 'ctx', None)
                    if getattr(c, 'nbits', None) == 32 and getattr(c, 'es', None) == 8 and \
                            (dbl.get(id(e.first), False) or dbl.get(id(e.second), False)):
                        dbl[id(e)] = True
                        x, y = last.get(id(e.first)), last.get(id(e.second))
                        try:
                            wide = fp.IEEEContext(11, 64, c.rm)
                            r64 = {'Add': ops.add, 'Sub': ops.sub, 'Mul': ops.mul, 'Div': ops.div}[kind0](x, y, ctx=wide)
                            same = (r64.isnan and value.isnan) or (not r64.isnan and not value.isnan and r64.isinf == value.isinf
                                                                    and r64.s == value.s and (r64.isinf or r64 == value))
                            if not same:
                                flags.add(K_F32LIT)
                        except Exception:  # noqa
                            flags.add(K_F32LIT)
                if not isinstance(value, fp.Float) or value.isnan or value.isinf or not value.is_zero():
                    return
                kind = type(e).__name__
                if kind in ('Add', 'Sub', 'Fma') and not value.s and getattr(getattr(value, 'ctx', None), 'rm', None) == fp.RM.RTN:
                    # IEEE 754 6.3: under roundTowardNegative an exact zero sum is -0 unless both addends are +0
                    def pz(o, flip=False):
                        return isinstance(o, fp.Float) and not o.isnan and not o.isinf and o.is_zero() and (bool(o.s) != flip) is False
                    x, y = last.get(id(e.first)), last.get(id(e.second))
                    if kind == 'Add':
                        both_plus = pz(x) and pz(y)
                    elif kind == 'Sub':
                        both_plus = pz(x) and pz(y, True)
                    else:
                        z = last.get(id(e.third))
                        fin = all(isinstance(o, fp.Float) and not o.isnan and not o.isinf for o in (x, y))
                        both_plus = fin and (x.is_zero() or y.is_zero()) and (bool(x.s) == bool(y.s)) and pz(z)
                    if not both_plus:
                        flags.add(K_RTN0)
                if kind in ('Neg', 'Mul') and value.s:
                    flags.add(K_NEGZERO_INT)

            tracer.sink = sink
            try:
                want = tracer.eval(f, args, ctx)
            except Exception:  # noqa -- the interpreter rejects the input (domain / assertion): nothing to compare
                continue
            try:
                toks = flatten(want, [])
            except Exception:  # noqa -- a value a double cannot hold
                continue
            samples.append((args, toks, frozenset(flags), want))
        if not samples:
            ck.count('differential: program without usable inputs')
            continue
        parts, cfgs = [], []
        for ci, (o, u, a) in enumerate(configs):
            try:
                cc = CppCompiler(optimize=o, unbox=u, arrays=a)
                m = Module()
                m.add(f, ctx=ctx, arg_types=list(atys))
                body = cc.compile_module(m)
                params, ret = cc.signature(f, ctx=ctx, arg_types=list(atys), module=m)
            except Exception as e:  # noqa -- the backend refuses the program under this option set
                key = type(e).__name__
                refused[key] = refused.get(key, 0) + 1
                continue
            # no g++ needed: every result the interpreter returns must be a value of the storage type chosen for it
            for si, (args, _, flags, want) in enumerate(samples):
                why = storage_misfit(ret, want)
                if why:
                    storage_checks[1] += 1
                    key = K_NEGZERO_INT if (why == 'negative zero in an integer type' and K_NEGZERO_INT in flags) else None
                    ck.violation('the interpreter result is not a value of the C++ storage type chosen for the return value',
                                 {'program': p.name, 'family': p.family, 'source': p.src, 'ctx': p.ctx, 'arg_kinds': p.args,
                                  'args': [repr(x) for x in args], 'options': f'optimize={o}, unbox={u.name}, arrays={a}',
                                  'return_storage': ret.format(), 'why': why, 'interpreter': repr(want)[:400]}, key=key)
                storage_checks[0] += 1
            lines = [f'namespace cfg{ci} {{', body, f'static void run() {{']
            ok = True
            for si, (args, _, _, _) in enumerate(samples):
                try:
                    decl = [f'{cty.format()} a{k} = {cpp_value(v, cty)};' for k, (v, cty) in enumerate(zip(args, params))]
                except ValueError:
                    decl = None
                lines.append('{')
                if decl is None:
                    lines.append('std::printf("SKIP ");')
                else:
                    lines += decl
                    lines.append(f'auto r = {p.name}({", ".join(f"a{k}" for k in range(len(args)))});')
                    emit_print('r', ret, lines, [0])
                lines.append(f'std::printf("\\n");')
                lines.append('}')
            lines += ['}', '}']
            parts.append('\n'.join(lines))
            cfgs.append(ci)
        if not cfgs:
            ck.count(f'differential: program refused under every option set ({p.family})')
            continue
        headers = '\n'.join(CppCompiler().headers()) + '\n#include <cstdio>\n' + CppCompiler().helpers()
        main = 'int main() {\n' + '\n'.join(f'std::printf("CFG {ci}\\n"); cfg{ci}::run();' for ci in cfgs) + '\nreturn 0; }\n'
        tu = ck.dir / f'{p.name}.cpp'
        tu.write_text(headers + '\n' + '\n'.join(parts) + '\n' + main)
        jobs.append((p, cfgs, samples, tu))

    # -O0 is what the project's own differential harness builds with (tests/infra/backend/cpp.py) and is the
    # primary stream; -O2 is the secondary stream (see K_FENV)
    # reference stream: -O0 -frounding-math -- GCC's documented mode for code that changes the rounding mode (no compile-time
    # folding of inexact operations, no motion); it must agree with the interpreter.  Plain -O0 (what tests/infra/backend/cpp.py
    # uses) and -O2 are secondary streams: their additional disagreements on mode-switching programs are the K_FENV class.
    REF = '-O0 -frounding-math'
    opt_levels = [REF, '-O0', '-O2']

    def build_run(job, opt):
        p, cfgs, samples, tu = job
        exe = tu.with_suffix('.' + opt.replace('-', '').replace(' ', '_') + '.exe')
        b = subprocess.run([CXX, '-std=c++17', *opt.split(), '-w', '-o', str(exe), str(tu)], capture_output=True, text=True, timeout=600)
        if b.returncode != 0:
            return ('build', b.stderr[-1500:])
        try:
            r = subprocess.run([str(exe)], capture_output=True, text=True, timeout=60)
        except subprocess.TimeoutExpired:
            return ('timeout', '')
        if r.returncode != 0:
            return ('crash', f'rc={r.returncode} {r.stderr[-500:]}')
        return ('ok', r.stdout)

    work = [(j, o) for j in jobs for o in opt_levels]
    with ThreadPoolExecutor(max_workers=min(16, (os.cpu_count() or 4))) as ex:
        results = list(ex.map(lambda w: build_run(*w), work))

    compared = 0
    hist = {}
    agree_O0 = set()      # (program, cfg, sample index) on which the -O0 build agrees with the interpreter
    order = sorted(range(len(work)), key=lambda k: 0 if work[k][1] == REF else 1)
    for k in order:
        (job, opt), (status, out) = work[k], results[k]
        p, cfgs, samples, tu = job
        if status != 'ok':
            ck.violation(f'compiled program could not be built or run ({status})',
                         {'program': p.name, 'family': p.family, 'source': p.src, 'translation_unit': str(tu), 'opt': opt, 'detail': out})
            continue
        switches_rm = 'fp.RM.RT' in p.src
        blocks = out.split('CFG ')[1:]
        for blk in blocks:
            rows = blk.split('\n')
            ci = int(rows[0])
            o, u, a = configs[ci]
            rows = rows[1:1 + len(samples)]
            for si, ((args, want, flags, _), row) in enumerate(zip(samples, rows)):
                got = row.split()
                if got[:1] == ['SKIP']:
                    continue
                compared += 1
                hist[(p.family, opt)] = hist.get((p.family, opt), 0) + 1
                ck.nontriv((p.family, p.name, ci, opt, repr(args)))
                bad = len(got) != len(want) or any(not tok_eq(w, g) for w, g in zip(want, got))
                if not bad:
                    if opt == REF:
                        agree_O0.add((p.name, ci, si))
                    continue
                key = None
                if len(got) == len(want):
                    diffs = [(w, g) for w, g in zip(want, got) if not tok_eq(w, g)]
                    # known class 1: a -0.0 of the interpreter where the backend chose an integer storage (C14 neg/mul
                    # has_neg_zero finding): every differing token is interpreter -0.0 vs compiled +0.0
                    if diffs and K_NEGZERO_INT in flags and p.family == 'int-exact' and all(
                            isinstance(w, float) and w == 0 and math.copysign(1, w) < 0 and g.lower() in ('0x0p+0', '0x0p0')
                            for w, g in diffs):
                        key = K_NEGZERO_INT
                    # known class 3: the run contains an exact zero sum under RTN, where the interpreter returns +0
                    # and IEEE 754 hardware -0 (both builds differ from the interpreter)
                    elif K_RTN0 in flags and (opt == REF or (p.name, ci, si) not in agree_O0):
                        key = K_RTN0
                    # known class 4: the run contains a binary32 operation with a fractional literal operand whose binary64
                    # evaluation (what the emitted infix expression computes) differs from the binary32 one
                    elif K_F32LIT in flags and all(isinstance(w, float) for w, g in diffs):
                        key = K_F32LIT
                    # known class 5: only the results of descending `range(a, b, -c)` loops differ: the emitter always
                    # spells the loop condition `i < stop`, so a descending loop never runs
                    elif getattr(p, 'neg_positions', None) and \
                            all(j in p.neg_positions for j, (w, g) in enumerate(zip(want, got)) if not tok_eq(w, g)):
                        key = K_NEGSTEP
                    # known class 2: the reference build (-O0 -frounding-math) of the same translation unit agrees with the
                    # interpreter on this input, this build does not, and the program switches the rounding mode: g++ evaluates
                    # floating-point operations without regard to the dynamic mode (compile-time folding of literal operands
                    # even at -O0; motion / CSE across std::fesetround at -O1/-O2, there also with -frounding-math)
                    elif opt != REF and switches_rm and (p.name, ci, si) in agree_O0 and all(isinstance(w, float) for w, g in diffs):
                        key = K_FENV
                ck.violation('compiled C++ and interpreter disagree (compile-and-run differential, testing)',
                             {'program': p.name, 'family': p.family, 'source': p.src, 'ctx': p.ctx, 'arg_kinds': p.args,
                              'args': [repr(x) for x in args], 'options': f'optimize={o}, unbox={u.name}, arrays={a}', 'g++': opt,
                              'interpreter': [w if isinstance(w, str) else float(w).hex() for w in want], 'compiled': got,
                              'translation_unit': str(tu)}, key=key)
    hist = {f'{f} {o}': n for (f, o), n in sorted(hist.items())}
    ck.evaluations += compared + storage_checks[0]
    ck.count('differential: interpreter results checked against the chosen return storage (no g++)', storage_checks[0])
    ck.count('differential: compiled runs compared with the interpreter (testing)', compared)
    ck.extra['differential'].update({
        'label': 'TESTING: real g++ build and run, bitwise comparison with the interpreter; not part of the proof',
        'programs': len(jobs), 'translation_units_built': len(work), 'compared_runs': compared, 'by_family': hist,
        'refused_by_backend': refused, 'gxx': CXX, 'opt_levels': opt_levels,
    })
    ck.log(f'differential: {len(jobs)} programs, {len(work)} builds, {compared} compared runs, by family {hist}, refused {refused}')
