"""C12 — translation to and from FPCore preserves meaning.

Proof: coq/Backend/{FPCore,ToFPCore,FromFPCore}.v (models), *Proofs.v,
statements in coq/Props/C12.v.

Tie (all of it re-run on every check):
  structural  — the real compiler's output on generated programs (post-pass
                AST exported as a Coq `func`, emitted core exported as a Coq
                `cprog`) is compared inside Coq with the model's
                `to_fpcore_as_coded` / `to_fpcore_fixed`; the real
                `fpcore_to_fpy` output is compared with the model's
                `from_fpcore`; FPCoreContext.from_context / to_context are
                compared with the model over a small exhaustive domain;
  behavioural — fpy2 interpreter f(*args)  vs  titanfp on the emitted core
                vs  Function.from_fpcore(core)(*args), exact comparison.
"""
import importlib.util
import sys
import traceback
from fractions import Fraction

from ..common import Rng, cz, cb

MANIFEST = {
    'text': 'Coq proofs over abstract arithmetic indexed by the active context: (1) the block->nested-let translation to '
            'FPCore is sound for every program, environment, fuel and argument vector when the `!` annotation wraps only '
            'what the `with` body binds (to_fpcore_sound); the translation as coded is sound exactly when only variable '
            'copies follow a `with` in its block (…_partial) and refuted otherwise (…_refuted: known defect); (2) reading '
            'an FPCore back (expression/let/let*/if/! subset) preserves evaluation for a name generator that never reuses '
            'a name (from_fpcore_sound; refuted for Gensym as coded), hence compile-then-read preserves behaviour '
            '(roundtrip_sound); (3) FPCoreContext.to_context inverts from_context on the expressible contexts (refuted as '
            'coded for fixed-point contexts). Tied to /repo on every run by structural comparison, inside Coq, of the real '
            'compiler / frontend / FPCoreContext output with the models, and by three-way differential execution '
            '(interpreter, titanfp on the core, re-read function).',
    'technique': 'machine-checked proof in Coq + model/implementation correspondence by vm_compute + differential '
                 'execution against the titanfp reference evaluator',
}

HEADER = ('From Coq Require Import ZArith List String Bool.\n'
          'From FpyV Require Import Backend.FPCore Backend.ToFPCore Backend.FromFPCore Cases.C12Cases.\n'
          'Import ListNotations.\nOpen Scope Z_scope.\nOpen Scope string_scope.\n')

KEY_WITH = 'statement after an inner with'
KEY_FIXED = 'from_context fixed scale/nbits order'
KEY_GENSYM = 'Gensym.refresh stale hash'


# real-valued operators of the model (coq/Backend/FPCore.v: unop / binop), named after the FPy node class
UNOPS = ['Neg', 'Abs', 'Sqrt', 'Cbrt', 'Ceil', 'Floor', 'NearbyInt', 'RoundInt', 'Trunc', 'Acos', 'Asin', 'Atan', 'Cos',
         'Sin', 'Tan', 'Acosh', 'Asinh', 'Atanh', 'Cosh', 'Sinh', 'Tanh', 'Exp', 'Exp2', 'Expm1', 'Log', 'Log10',
         'Log1p', 'Log2', 'Erf', 'Erfc', 'Lgamma', 'Tgamma']
BINOPS = ['Add', 'Sub', 'Mul', 'Div', 'Copysign', 'Fdim', 'Fmod', 'Remainder', 'Hypot', 'Atan2', 'Pow']
# titanfp AST class -> FPy node class with the same meaning (FPBench 2.0 / C99 names; the same pairing as
# coq/Backend/OpTables.v spec_unary / spec_binary, written here by titanfp class instead of printed name)
FPC_UN = {'Neg': 'Neg', 'Fabs': 'Abs', 'Sqrt': 'Sqrt', 'Cbrt': 'Cbrt', 'Ceil': 'Ceil', 'Floor': 'Floor',
          'Nearbyint': 'NearbyInt', 'Round': 'RoundInt', 'Trunc': 'Trunc', 'Acos': 'Acos', 'Asin': 'Asin', 'Atan': 'Atan',
          'Cos': 'Cos', 'Sin': 'Sin', 'Tan': 'Tan', 'Acosh': 'Acosh', 'Asinh': 'Asinh', 'Atanh': 'Atanh', 'Cosh': 'Cosh',
          'Sinh': 'Sinh', 'Tanh': 'Tanh', 'Exp': 'Exp', 'Exp2': 'Exp2', 'Expm1': 'Expm1', 'Log': 'Log', 'Log10': 'Log10',
          'Log1p': 'Log1p', 'Log2': 'Log2', 'Erf': 'Erf', 'Erfc': 'Erfc', 'Lgamma': 'Lgamma', 'Tgamma': 'Tgamma'}
FPC_BIN = {'Add': 'Add', 'Sub': 'Sub', 'Mul': 'Mul', 'Div': 'Div', 'Copysign': 'Copysign', 'Fdim': 'Fdim', 'Fmod': 'Fmod',
           'Remainder': 'Remainder', 'Hypot': 'Hypot', 'Atan2': 'Atan2', 'Pow': 'Pow'}


class Outside(Exception):
    """The construct is outside the subset the Coq model covers."""


# ---------------------------------------------------------------------------- Coq printers
def cs(s):
    return '"' + str(s).replace('"', '""') + '"'


def copt(x, f):
    return 'None' if x is None else f'(Some {f(x)})'


def clist(xs, f):
    return '[' + '; '.join(f(x) for x in xs) + ']'


RM_NAMES = {'RNE', 'RNA', 'RTP', 'RTN', 'RTZ', 'RAZ', 'RTO', 'RTE'}
OV_NAMES = {'OVERFLOW': 'OvOverflow', 'SATURATE': 'OvSaturate', 'WRAP': 'OvWrap'}


def rm_term(rm):
    n = rm.name
    if n not in RM_NAMES:
        raise Outside(f'rounding mode {n}')
    return n


def ctx_term(c):
    """fpy2 Context -> Coq `ctx` (the classes and parameters fpc_context.py reads)."""
    from fpy2.number import IEEEContext, MPFixedContext, FixedContext, REAL
    if isinstance(c, IEEEContext):
        if c.num_randbits != 0:
            return '(COther 1)'
        return f'(CIEEE {cz(c.es)} {cz(c.nbits)} {rm_term(c.rm)} {OV_NAMES[c.overflow.name]})'
    if isinstance(c, MPFixedContext):
        return f'(CMPFixed {cz(c.nmin)} {rm_term(c.rm)})'
    if isinstance(c, FixedContext):
        return f'(CFixed {cb(c.signed)} {cz(c.scale)} {cz(c.nbits)} {rm_term(c.rm)} {OV_NAMES[c.overflow.name]})'
    if c is REAL:
        return 'CReal'
    return '(COther 0)'


def data_py(v):
    """titanfp property value (possibly wrapped in fpc.Data) -> python str / int / list."""
    import titanfp.fpbench.fpcast as fpc
    if isinstance(v, fpc.Data):
        v = v.value
    if isinstance(v, fpc.Var):
        return str(v.value)
    if isinstance(v, fpc.Integer):
        return int(v.i)
    if isinstance(v, fpc.String):
        return str(v.value)
    if isinstance(v, (tuple, list)):
        return [data_py(x) for x in v]
    if isinstance(v, (str, int)):
        return v
    raise Outside(f'property value {v!r}')


def props_term(d):
    """property dict (python values) -> Coq `props`."""
    d = dict(d)
    prec = d.pop('precision', None)
    rnd = d.pop('round', None)
    ov = d.pop('overflow', None)
    n = d.pop('n', None)
    if d:
        raise Outside(f'property keys {sorted(d)}')

    def prec_t(p):
        if isinstance(p, str):
            return f'(PSym {cs(p)})'
        if isinstance(p, (list, tuple)) and len(p) == 3 and p[0] == 'float' and all(isinstance(x, int) for x in p[1:]):
            return f'(PFloat {cz(p[1])} {cz(p[2])})'
        if isinstance(p, (list, tuple)) and len(p) == 3 and p[0] == 'fixed' and all(isinstance(x, int) for x in p[1:]):
            return f'(PFixed {cz(p[1])} {cz(p[2])})'
        raise Outside(f'precision {p!r}')
    for s in (rnd, ov):
        if s is not None and not isinstance(s, str):
            raise Outside('non-string property')
    if n is not None and not isinstance(n, int):
        raise Outside('non-int n')
    return f'(mkProps {copt(prec, prec_t)} {copt(rnd, cs)} {copt(ov, cs)} {copt(n, cz)})'


# ---------------------------------------------------------------------------- FPy AST -> Coq
class AstExport:
    """Post-pass FPy AST -> Coq `func` (raises Outside for anything the model does not cover)."""

    def __init__(self, fd, def_use):
        self.fd = fd
        self.du = def_use

    def expr(self, e):
        from fpy2.ast import fpyast as A
        if isinstance(e, A.Var):
            return f'(EVar {cs(e.name)})'
        if isinstance(e, A.Round):
            a = e.arg
            if isinstance(a, A.Decnum):
                return f'(ELit {cs(a.val)})'
            if isinstance(a, A.Integer):
                return f'(ERNum {cz(a.val)})'
            raise Outside('round of a non-literal')
        if isinstance(e, A.Integer):
            return f'(EInt {cz(e.val)})'
        # the model names its operators after the FPy node class
        if type(e).__name__ in UNOPS:
            return f'(EUn U{type(e).__name__} {self.expr(e.arg)})'
        if type(e).__name__ in BINOPS:
            return f'(EBin B{type(e).__name__} {self.expr(e.first)} {self.expr(e.second)})'
        raise Outside(f'expression {type(e).__name__}')

    def bexp(self, e):
        from fpy2.ast import fpyast as A
        if isinstance(e, A.Compare):
            if len(e.ops) != 1:
                raise Outside('chained comparison')
            op = {'LT': 'CLt', 'LE': 'CLe', 'GT': 'CGt', 'GE': 'CGe', 'EQ': 'CEq', 'NE': 'CNe'}[e.ops[0].name]
            return f'(BCmp {op} {self.expr(e.args[0])} {self.expr(e.args[1])})'
        if isinstance(e, (A.And, A.Or)):
            if len(e.args) != 2:
                raise Outside('n-ary and/or')
            k = 'BAnd' if isinstance(e, A.And) else 'BOr'
            return f'({k} {self.bexp(e.args[0])} {self.bexp(e.args[1])})'
        if isinstance(e, A.Not):
            return f'(BNot {self.bexp(e.arg)})'
        raise Outside(f'condition {type(e).__name__}')

    def one(self, names, what):
        names = list(names)
        if len(names) != 1:
            raise Outside(f'{what} changes {len(names)} variables')
        return cs(names[0])

    def stmt(self, s):
        from fpy2.ast import fpyast as A
        from fpy2.number import Context
        from fpy2.utils import NamedId, UnderscoreId
        if isinstance(s, A.Assign):
            if not isinstance(s.target, NamedId):
                raise Outside('assignment target')
            return f'(SAssign {cs(s.target)} {self.expr(s.expr)})'
        if isinstance(s, A.ContextStmt):
            if not isinstance(s.target, UnderscoreId):
                raise Outside('bound context')
            if not isinstance(s.ctx, A.ForeignVal) or not isinstance(s.ctx.val, Context):
                raise Outside('context expression')
            return f'(SWith {ctx_term(s.ctx.val)} {self.block(s.body)})'
        if isinstance(s, A.IfStmt):
            mutated = sorted(self.du.mutated_in(s.ift) | self.du.mutated_in(s.iff))
            intros = sorted(self.du.introed_in(s.ift) & self.du.introed_in(s.iff))
            x = self.one(mutated + intros, 'if')
            return f'(SIf {self.bexp(s.cond)} {x} {self.block(s.ift)} {self.block(s.iff)})'
        if isinstance(s, A.If1Stmt):
            x = self.one(self.du.mutated_in(s.body), 'if')
            return f'(SIf1 {self.bexp(s.cond)} {x} {self.block(s.body)})'
        if isinstance(s, A.WhileStmt):
            x = self.one(self.du.mutated_in(s.body), 'while')
            return f'(SWhile {self.bexp(s.cond)} {x} {self.block(s.body)})'
        if isinstance(s, A.ForStmt):
            if not isinstance(s.target, NamedId) or not isinstance(s.iterable, A.Range1):
                raise Outside('for target / iterable')
            x = self.one(self.du.mutated_in(s.body), 'for')
            return f'(SFor {cs(s.target)} {self.expr(s.iterable.arg)} {x} {self.block(s.body)})'
        if isinstance(s, A.ReturnStmt):
            return f'(SRet {self.expr(s.expr)})'
        if isinstance(s, A.PassStmt):
            return 'SPass'
        raise Outside(f'statement {type(s).__name__}')

    def block(self, b):
        t = 'BNil'
        for s in reversed(b.stmts):
            t = f'(BCons {self.stmt(s)} {t})'
        return t

    def func(self):
        from fpy2.number import Context
        fd = self.fd
        c = fd.ctx
        if c is not None and not isinstance(c, Context):
            raise Outside('FPCoreContext function context')
        args = clist([a.name for a in fd.args], cs)
        return f'(mkFunc {args} {copt(c, ctx_term)} {self.block(fd.body)})'


def is_copy_stmt(s):
    """A statement whose compiled form does not depend on the active context: a variable copy, a tuple of
    variables (the prologue / epilogue the bundling passes put around a body), `pass`."""
    from fpy2.ast import fpyast as A

    def plain(e):
        return isinstance(e, A.Var) or (isinstance(e, A.TupleExpr) and all(plain(x) for x in e.elts))
    return isinstance(s, A.PassStmt) or (isinstance(s, A.Assign) and plain(s.expr))


def stmt_after_with(block):
    """Does some statement other than a variable copy follow a `with` inside its own block (post-pass AST)?"""
    from fpy2.ast import fpyast as A
    ss = block.stmts
    for i, s in enumerate(ss):
        if isinstance(s, A.ContextStmt):
            if any(not is_copy_stmt(t) for t in ss[i + 1:]) or stmt_after_with(s.body):
                return True
        elif isinstance(s, A.IfStmt):
            if stmt_after_with(s.ift) or stmt_after_with(s.iff):
                return True
        elif isinstance(s, (A.If1Stmt, A.WhileStmt, A.ForStmt)):
            if stmt_after_with(s.body):
                return True
    return False


# ---------------------------------------------------------------------------- titanfp AST -> Coq
def names_in(e, acc):
    """Every variable name occurring (free or binding) in a titanfp expression."""
    import titanfp.fpbench.fpcast as fpc
    if isinstance(e, fpc.Var):
        acc.add(str(e.value))
    elif isinstance(e, fpc.Ctx):
        names_in(e.body, acc)
    elif isinstance(e, fpc.If):
        for x in (e.cond, e.then_body, e.else_body):
            names_in(x, acc)
    elif isinstance(e, fpc.Let):
        for n, v in e.let_bindings:
            acc.add(str(n))
            names_in(v, acc)
        names_in(e.body, acc)
    elif isinstance(e, fpc.While):
        names_in(e.cond, acc)
        for n, i, u in e.while_bindings:
            acc.add(str(n))
            names_in(i, acc)
            names_in(u, acc)
        names_in(e.body, acc)
    elif isinstance(e, fpc.For):
        for n, v in e.dim_bindings:
            acc.add(str(n))
            names_in(v, acc)
        for n, i, u in e.while_bindings:
            acc.add(str(n))
            names_in(i, acc)
            names_in(u, acc)
        names_in(e.body, acc)
    elif isinstance(e, fpc.Tensor):
        for n, v in e.dim_bindings:
            acc.add(str(n))
            names_in(v, acc)
        names_in(e.body, acc)
    elif isinstance(e, fpc.NaryExpr):
        for c in e.children:
            names_in(c, acc)
    return acc


class CoreExport:
    """titanfp FPCore -> Coq `cprog` (raises Outside for anything the model does not cover)."""

    def props(self, d):
        return props_term({str(k): data_py(v) for k, v in d.items()})

    def expr(self, e):
        import titanfp.fpbench.fpcast as fpc
        if isinstance(e, fpc.Var):
            return f'(CVar {cs(e.value)})'
        if isinstance(e, fpc.Integer):
            return f'(CNum {cz(e.i)})'
        if isinstance(e, fpc.Decnum):
            return f'(CLit {cs(e.value)})'
        # titanfp operator class -> the model's operator (= the like-named FPy node class, FPC_UN / FPC_BIN)
        if type(e).__name__ in FPC_UN and len(e.children) == 1:
            return f'(CUn U{FPC_UN[type(e).__name__]} {self.expr(e.children[0])})'
        if type(e).__name__ in FPC_BIN and len(e.children) == 2:
            return f'(CBin B{FPC_BIN[type(e).__name__]} {self.expr(e.children[0])} {self.expr(e.children[1])})'
        cm = {fpc.LT: 'CLt', fpc.LEQ: 'CLe', fpc.GT: 'CGt', fpc.GEQ: 'CGe', fpc.EQ: 'CEq', fpc.NEQ: 'CNe'}
        if type(e) in cm:
            if len(e.children) != 2:
                raise Outside('n-ary comparison')
            return f'(CCmp {cm[type(e)]} {self.expr(e.children[0])} {self.expr(e.children[1])})'
        if type(e) in (fpc.And, fpc.Or):
            if len(e.children) != 2:
                raise Outside('n-ary and/or')
            k = 'CAnd' if type(e) is fpc.And else 'COr'
            return f'({k} {self.expr(e.children[0])} {self.expr(e.children[1])})'
        if type(e) is fpc.Not:
            return f'(CNot {self.expr(e.children[0])})'
        if type(e) is fpc.If:
            return f'(CIf {self.expr(e.cond)} {self.expr(e.then_body)} {self.expr(e.else_body)})'
        if type(e) in (fpc.Let, fpc.LetStar):
            f = self.for_range(e)
            if f is not None:
                return f
            bs = 'LNil'
            for n, v in reversed(e.let_bindings):
                bs = f'(LCons {cs(n)} {self.expr(v)} {bs})'
            return f'(CLet {cb(type(e) is fpc.LetStar)} {bs} {self.expr(e.body)})'
        if type(e) in (fpc.While, fpc.WhileStar):
            return (f'(CWhile {cb(type(e) is fpc.WhileStar)} {self.expr(e.cond)} '
                    f'{self.wbinds(e.while_bindings)} {self.expr(e.body)})')
        if type(e) is fpc.Ctx:
            return f'(CAnn {self.props(e.props)} {self.expr(e.body)})'
        raise Outside(f'core expression {type(e).__name__}')

    def wbinds(self, ws):
        t = 'WNil'
        for n, i, u in reversed(ws):
            t = f'(WCons {cs(n)} {self.expr(i)} {self.expr(u)} {t})'
        return t

    def for_range(self, e):
        """(let ([t (tensor ([j n]) j)]) (for ([k (size t 0)]) ([x I (let ([i (ref t k)]) U)]) R))
        with t, j, k used nowhere else  ->  CFor false i n [(x, I, U)] R   (see Backend/FPCore.v)."""
        import titanfp.fpbench.fpcast as fpc
        if type(e) is not fpc.Let or len(e.let_bindings) != 1:
            return None
        t, ten = e.let_bindings[0]
        f = e.body
        if type(ten) is not fpc.Tensor or type(f) is not fpc.For:
            return None
        if len(ten.dim_bindings) != 1 or len(f.dim_bindings) != 1 or len(f.while_bindings) != 1:
            return None
        j, n = ten.dim_bindings[0]
        if not (isinstance(ten.body, fpc.Var) and str(ten.body.value) == str(j)):
            return None
        k, sz = f.dim_bindings[0]
        if not (type(sz) is fpc.Size and len(sz.children) == 2 and isinstance(sz.children[0], fpc.Var)
                and str(sz.children[0].value) == str(t) and isinstance(sz.children[1], fpc.Integer)
                and int(sz.children[1].i) == 0):
            return None
        x, init, upd = f.while_bindings[0]
        if type(upd) is not fpc.Let or len(upd.let_bindings) != 1:
            return None
        i, ref = upd.let_bindings[0]
        if not (type(ref) is fpc.Ref and len(ref.children) == 2
                and all(isinstance(c, fpc.Var) for c in ref.children)
                and str(ref.children[0].value) == str(t) and str(ref.children[1].value) == str(k)):
            return None
        gens = {str(t), str(j), str(k)}
        if len(gens) != 3:
            return None
        others = set()
        for sub in (n, init, upd.body, f.body):
            names_in(sub, others)
        others |= {str(x), str(i)}
        if gens & others:
            return None
        return (f'(CFor false {cs(i)} {self.expr(n)} (WCons {cs(x)} {self.expr(init)} {self.expr(upd.body)} WNil) '
                f'{self.expr(f.body)})')

    def core(self, core):
        args = []
        for name, props, shape in core.inputs:
            if shape is not None or props:
                raise Outside('tensor / annotated argument')
            args.append(str(name))
        return f'(mkCprog {clist(args, cs)} {self.props(core.props)} {self.expr(core.e)})'


# ---------------------------------------------------------------------------- program generator
CTX_POOL = [
    ('fp.FP64', 3), ('fp.FP32', 4), ('fp.FP16', 2),
    ('fp.IEEEContext(8, 32, fp.RM.RTZ)', 2), ('fp.IEEEContext(11, 64, fp.RM.RTP)', 1),
    ('fp.IEEEContext(5, 16, fp.RM.RAZ)', 1), ('fp.IEEEContext(8, 32, fp.RM.RNA)', 1),
]
LITS = ['0.1', '1.5', '3', '0.7', '2', '0.25', '10', '1.1', '7', '0.001']


class ProgGen:
    """Random programs of the FPCore-expressible subset, as Python source text."""

    def __init__(self, rng, multi):
        self.r = rng
        self.multi = multi          # allow statements that change two variables (tuple bundling)
        self.n = 0
        self.ctx_defs = []

    def fresh(self):
        self.n += 1
        return 'v%s' % 'abcdefghjkmnpqrsuwz'[self.n % 19] * (1 + self.n // 19)

    def wchoice(self, items):
        tot = sum(w for _, w in items)
        x = self.r.random() * tot
        for v, w in items:
            x -= w
            if x <= 0:
                return v
        return items[-1][0]

    def ctx(self):
        src = self.wchoice(CTX_POOL)
        if src.startswith('fp.IEEEContext'):
            name = 'C%d' % len(self.ctx_defs)
            self.ctx_defs.append(f'{name} = {src}')
            return name
        return src

    def lit(self):
        return f'fp.round({self.r.choice(LITS)})'

    def expr(self, vs, depth=2):
        k = self.r.random()
        if depth == 0 or k < .3:
            return self.r.choice(vs) if (vs and self.r.random() < .8) else self.lit()
        if k < .4:
            op = self.r.choice(['-', 'abs', 'fp.sqrt'])
            a = self.expr(vs, depth - 1)
            return f'(-{a})' if op == '-' else (f'{op}(abs({a}))' if op == 'fp.sqrt' else f'abs({a})')
        if k < .5:
            # round-to-integer family (their results are exact, so they cannot overflow a format)
            # (not nearbyint: titanfp's is wrong — the repo's own test shim replaces it; it is in the operator corpus)
            op = self.r.choice(['fp.roundint', 'fp.floor', 'fp.ceil', 'fp.trunc'])
            return f'{op}({self.expr(vs, depth - 1)})'
        op = self.r.choice(['+', '-', '*', '*', '/', '+'])
        return f'({self.expr(vs, depth - 1)} {op} {self.expr(vs, depth - 1)})'

    def cond(self, vs):
        op = self.r.choice(['<', '<=', '>', '>=', '==', '!='])
        c = f'{self.expr(vs, 1)} {op} {self.expr(vs, 1)}'
        k = self.r.random()
        if k < .15:
            return f'{c} and {self.expr(vs, 1)} < {self.expr(vs, 1)}'
        if k < .25:
            return f'{c} or {self.expr(vs, 1)} > {self.expr(vs, 1)}'
        if k < .32:
            return f'not ({c})'
        return c

    def compute(self, ind, vs, target, rhs_of, depth):
        """Statements (visible names: vs) that end by assigning `target`; may go through
        temporaries and `with` blocks (with or without statements after them)."""
        out = []
        k = self.r.random()
        if depth > 0 and k < .45:
            t = self.fresh()
            c = self.ctx()
            out.append(f'{ind}with {c}:')
            if self.r.random() < .3 and depth > 1:
                out += self.compute(ind + '    ', vs, t, lambda v: self.expr(v), depth - 1)
            else:
                out.append(f'{ind}    {t} = {self.expr(vs)}')
            out.append(f'{ind}{target} = {rhs_of(vs + [t])}')
        elif depth > 0 and k < .6:
            c = self.ctx()
            out.append(f'{ind}with {c}:')
            out.append(f'{ind}    {target} = {rhs_of(vs)}')
        else:
            if self.r.random() < .3:
                t = self.fresh()
                out.append(f'{ind}{t} = {self.expr(vs)}')
                vs = vs + [t]
            out.append(f'{ind}{target} = {rhs_of(vs)}')
        return out

    def stmts(self, ind, vs, n, depth):
        """n statements; returns (lines, visible names afterwards)."""
        out = []
        vs = list(vs)
        for _ in range(n):
            kind = self.wchoice([('new', 3), ('upd', 2), ('with', 3 if depth > 0 else 0), ('if', 2), ('if1', 1),
                                 ('while', 1.2), ('for', 1.2), ('multi', 1.5 if self.multi else 0)])
            if kind == 'new':
                v = self.fresh()
                out.append(f'{ind}{v} = {self.expr(vs)}')
                vs.append(v)
            elif kind == 'upd':
                v = self.r.choice(vs)
                out.append(f'{ind}{v} = {self.expr(vs)}')
            elif kind == 'with':
                c = self.ctx()
                out.append(f'{ind}with {c}:')
                body, vs2 = self.stmts(ind + '    ', vs, self.r.randint(1, 2), depth - 1)
                out += body
                vs = vs2          # a `with` does not open a scope
            elif kind == 'if':
                new = self.r.random() < .4
                v = self.fresh() if new else self.r.choice(vs)
                out.append(f'{ind}if {self.cond(vs)}:')
                out += self.compute(ind + '    ', vs, v, lambda w: self.expr(w), depth)
                out.append(f'{ind}else:')
                out += self.compute(ind + '    ', vs, v, lambda w: self.expr(w), depth)
                if new:
                    vs.append(v)
            elif kind == 'if1':
                v = self.r.choice(vs)
                out.append(f'{ind}if {self.cond(vs)}:')
                out += self.compute(ind + '    ', vs, v, lambda w: self.expr(w), depth)
            elif kind == 'while':
                v = self.r.choice(vs)
                bound = self.r.choice(['20', '50', '100'])
                out.append(f'{ind}while {v} < fp.round({bound}):')
                # 2|v| + |e| + 1 grows, so the loop ends (NaN ends it too)
                out += self.compute(ind + '    ', vs, v,
                                    lambda w: f'((abs({v}) * fp.round(2)) + (abs({self.expr(w, 1)}) + fp.round(1)))', depth)
            elif kind == 'for':
                v = self.r.choice(vs)
                i = self.fresh()
                out.append(f'{ind}for {i} in range({self.r.randint(1, 3)}):')
                out += self.compute(ind + '    ', vs + [i], v,
                                    lambda w: f'({v} {self.r.choice("+-*")} {self.expr(w, 1)})', depth)
            else:
                out += self.multi_stmt(ind, vs)
        return out, vs

    def multi_stmt(self, ind, vs):
        """Statements that change two variables (bundled into a tuple by the passes)."""
        k = self.r.random()
        a = self.r.choice(vs)
        out = []
        if k < .4:
            c = self.fresh()
            out.append(f'{ind}{c} = fp.round(0)')
            out.append(f'{ind}while {c} < fp.round({self.r.randint(1, 3)}):')
            if self.r.random() < .5:
                t = self.fresh()
                out.append(f'{ind}    with {self.ctx()}:')
                out.append(f'{ind}        {t} = {self.expr(vs + [c], 1)}')
                out.append(f'{ind}    {a} = ({a} * fp.round(0.5)) + {t}')
            else:
                out.append(f'{ind}    {a} = ({a} * fp.round(0.5)) + {self.expr(vs + [c], 1)}')
            out.append(f'{ind}    {c} = {c} + fp.round(1)')
        elif k < .7 and len(vs) >= 2:
            b = self.r.choice([v for v in vs if v != a])
            i = self.fresh()
            out.append(f'{ind}for {i} in range({self.r.randint(1, 3)}):')
            out.append(f'{ind}    {a} = {a} + {self.expr(vs + [i], 1)}')
            out.append(f'{ind}    {b} = {b} * {self.expr(vs + [i], 1)}')
        elif len(vs) >= 2:
            b = self.r.choice([v for v in vs if v != a])
            out.append(f'{ind}if {self.cond(vs)}:')
            out.append(f'{ind}    {a} = {self.expr(vs)}')
            out.append(f'{ind}    {b} = {self.expr(vs)}')
            out.append(f'{ind}else:')
            out.append(f'{ind}    {b} = {self.expr(vs)}')
            out.append(f'{ind}    {a} = {self.expr(vs)}')
        else:
            out.append(f'{ind}{a} = {self.expr(vs)}')
        return out

    def program(self, name):
        self.n = 0
        self.ctx_defs = []
        fctx = self.wchoice([('ctx=fp.FP64', 6), ('ctx=fp.FP32', 2), ('', 2)])
        body, vs = self.stmts('    ', ['x', 'y'], self.r.randint(2, 5), 2)
        if self.r.random() < .25:
            c = self.ctx()
            body.append(f'    with {c}:')
            if self.r.random() < .5:
                t = self.fresh()
                body.append(f'        {t} = {self.expr(vs)}')
                vs = vs + [t]
            body.append(f'        return {self.expr(vs)}')
        else:
            body.append(f'    return {self.expr(vs)}')
        deco = f'@fp.fpy({fctx})' if fctx else '@fp.fpy'
        return '\n'.join(['import fpy2 as fp', ''] + self.ctx_defs + ['', deco, f'def {name}(x, y):'] + body) + '\n'


FIXED_PROGRAMS = [
    # the recorded witness
    ('kw0', 'import fpy2 as fp\n\n@fp.fpy(ctx=fp.FP64)\ndef kw0(x, y):\n    with fp.FP32:\n        a = x + y\n'
            '    b = a * x\n    return b\n'),
    # statement after a `with` nested in a loop body
    ('kw1', 'import fpy2 as fp\n\n@fp.fpy(ctx=fp.FP64)\ndef kw1(x, y):\n    a = x\n    while a < fp.round(50):\n'
            '        with fp.FP16:\n            b = abs(a) * fp.round(2.1)\n        a = b + (abs(y) + fp.round(1))\n'
            '    return a\n'),
    # `with` last in every block: the code as it is must be right here
    ('kw2', 'import fpy2 as fp\n\n@fp.fpy(ctx=fp.FP64)\ndef kw2(x, y):\n    a = x / y\n    if a < y:\n        with fp.FP16:\n'
            '            a = a * x\n    else:\n        with fp.FP32:\n            a = a / fp.round(3)\n'
            '    with fp.FP32:\n        c = a + fp.round(0.1)\n        return c * a\n'),
    # sequential / nested contexts
    ('kw3', 'import fpy2 as fp\n\n@fp.fpy(ctx=fp.FP64)\ndef kw3(x, y):\n    with fp.FP32:\n        a = x / y\n'
            '        with fp.FP16:\n            b = a * fp.round(1.1)\n        c = a + b\n    d = c / fp.round(3)\n'
            '    with fp.FP16:\n        e = d * x\n    return e + d\n'),
    # an explicit rounding of an operator that selects / projects without rounding (max, min, fst, snd) is the only
    # rounding step of the inner block
    ('kw4', 'import fpy2 as fp\n\n@fp.fpy(ctx=fp.FP64)\ndef kw4(x, y):\n    u = x / y\n    v = x * y\n    with fp.FP16:\n'
            '        a = fp.round(max(u, v))\n        b = fp.round(min(u, y))\n        return a + b\n'),
    ('kw5', 'import fpy2 as fp\n\n@fp.fpy(ctx=fp.FP64)\ndef kw5(x, y):\n    t = (x / y, x * y)\n    with fp.FP16:\n'
            '        a = fp.round(fp.fst(t))\n        b = fp.round(fp.snd(t))\n        return a - b\n'),
    # if/else that both mutates variables and introduces new ones in both arms (bundled into one tuple by the backend)
    ('kw7', 'import fpy2 as fp\n\n@fp.fpy(ctx=fp.FP64)\ndef kw7(x, y):\n    a = x + y\n    if x < y:\n        a = a * x\n'
            '        b = a + y\n    else:\n        a = a / y\n        b = x - a\n    return (a * b) + a\n'),
    ('kw8', 'import fpy2 as fp\n\n@fp.fpy(ctx=fp.FP64)\ndef kw8(x, y):\n    a = x + y\n    c = x * y\n    if a < c:\n        c = c - a\n'
            '        p = c * x\n        a = a + fp.round(1)\n        q = p / y\n    else:\n        q = a / y\n        a = a * c\n'
            '        p = q - x\n        c = c + fp.round(2)\n    return ((a - c) * p) + q\n'),
    ('kw6', 'import fpy2 as fp\n\n@fp.fpy(ctx=fp.FP64)\ndef kw6(x, y):\n    u = x / y\n    with fp.FP32:\n'
            '        a = fp.round(max(u, y))\n        with fp.FP16:\n            b = fp.round(min(a, u))\n            return b\n'),
]

ARG_POOL_HEX = ['0x1p-1', '0x1.4p+0', '-0x1.6p+1', '0x1.8p+1', '0x1.ep+2', '0x1.99999ap-4', '0x1.19999ap+0',
                '0x1.266666p+1', '0x1.9p+6', '-0x1.333334p-2', '0x1.0624dep-10', '0x1.81cd6cp+13', '0x1p+0', '0x0p+0',
                '0x1.4p+1', '-0x1.4p+1', '0x1.2p+2', '-0x1p-1', '0x1.8p+0', '-0x1.8p+0', '0x1.cp+1', '-0x0p+0']


# ---------------------------------------------------------------------------- evaluation
def load_module(name, path):
    spec = importlib.util.spec_from_file_location(name, str(path))
    mod = importlib.util.module_from_spec(spec)
    sys.modules[name] = mod
    spec.loader.exec_module(mod)
    return mod


def norm_value(v):
    """fpy2 Float / titanfp MPMF / bool -> comparable exact value."""
    if isinstance(v, bool):
        return ('bool', v)
    isnan = bool(getattr(v, 'isnan'))
    isinf = bool(getattr(v, 'isinf'))
    neg = bool(v.s) if hasattr(v, 's') else bool(v.negative)
    if isnan:
        return ('nan',)
    if isinf:
        return ('inf', neg)
    c, e = int(v.c), int(v.exp)
    if c == 0:
        return ('zero', neg)
    q = Fraction(c) * (Fraction(2) ** e)
    return ('num', str(-q if neg else q))


def guarded(f):
    try:
        return norm_value(f())
    except Exception as e:  # noqa
        return ('err', type(e).__name__)


def coq_eval2(ck, terms, chunk=1500, timeout=1500, jobs=16):
    """One Coq run per shard deciding both `check12_sound` and `check12_coded` (own variant of
    Check.coq_eval_mismatches, which decides one function per run).  Returns (bad_sound, bad_coded, err)."""
    import re
    from ..common import sh, COQ
    shards = []
    # few large shards: starting coqc and loading the libraries costs more than deciding the cases
    groups, cur, size = [], [], 0
    for i, t in enumerate(terms):
        if cur and (len(cur) >= chunk or size + len(t) > 400000):
            groups.append(cur)
            cur, size = [], 0
        cur.append((i, t))
        size += len(t)
    if cur:
        groups.append(cur)
    strlit = re.compile(r'"(?:[^"]|"")*"')
    for gi, part in enumerate(groups):
        name = f'cases_{gi:04d}'
        # every distinct string literal is parsed once per shard (a string literal is a large term)
        table = {}

        def intern(m):
            return table.setdefault(m.group(0), f'str{len(table)}')
        body = ';\n'.join(f'({i}%nat, {strlit.sub(intern, c)})' for i, c in part)
        defs = ''.join(f'Definition {v} : string := {lit}.\n' for lit, v in table.items())
        text = (HEADER + '\n' + defs +
                f'Definition cases : list (nat * case12) := [\n{body}\n].\n'
                'Definition bad_sound := map fst (filter (fun ic => negb (check12_sound (snd ic))) cases).\n'
                'Definition bad_coded := map fst (filter (fun ic => negb (check12_coded (snd ic))) cases).\n'
                'Eval vm_compute in (bad_sound, bad_coded).\n')
        (ck.dir / f'{name}.v').write_text(text)
        shards.append(name)
    if not shards:
        return [], [], None
    cmd = (f"xargs -P{jobs} -I{{}} sh -c 'timeout {timeout} coqc -noglob -Q {COQ} FpyV -Q . Dyn {{}}.v > {{}}.out 2>&1 "
           f"|| echo FAIL >> {{}}.out'")
    sh(cmd, cwd=ck.dir, input='\n'.join(shards), timeout=timeout * (len(shards) // jobs + 1) + 60)
    ck.checker_cmds.append(f'coqc -Q coq FpyV build/{ck.pid}/cases_*.v  # vm_compute of check12_sound / check12_coded')
    bs, bc, err = [], [], None

    def nums(t):
        t = t.strip()
        return [int(x.replace('%nat', '').strip()) for x in t.split(';')] if t else []
    for name in shards:
        out = (ck.dir / f'{name}.out').read_text()
        m = re.search(r'=\s*\(\[(.*?)\],\s*\[(.*?)\]\)\s*:\s*list nat \* list nat', out, re.S)
        if 'FAIL' in out or not m:
            err = (err or '') + f'{name}: {out[-500:]}\n'
            continue
        bs += nums(m.group(1))
        bc += nums(m.group(2))
    return sorted(bs), sorted(bc), err


def gensym_reused_a_name(core):
    """Did the frontend's Gensym hand out a name twice while reading `core`?  (direct observation of the
    stale-hash defect on the implementation, for cores outside the modelled reading subset)"""
    from fpy2.frontend.fpc import _FPCore2FPy
    conv = _FPCore2FPy(core, 'f')
    conv.convert()
    names = [str(i) for i in conv.gensym._idents]
    return len(set(names)) < len(names)


# ---------------------------------------------------------------------------- operator tables (data in the source)
def operator_tables():
    """The operator tables of backend/fpc.py and frontend/fpc.py as they are in the working tree, plus the
    mappings that are code rather than data, observed by probing (`_compile_compareop`; the frontend's
    handling of `-`, n-ary `and`/`or` and the comparison classes)."""
    import titanfp.fpbench.fpcast as fpc
    from fpy2.ast.fpyast import CompareOp
    from fpy2.backend import fpc as B
    from fpy2.frontend import fpc as F
    from fpy2.utils import NamedId
    t = {}
    t['back_unary'] = [(k.__name__, v.name) for k, v in B._get_unary_table().items()]
    t['back_binary'] = [(k.__name__, v.name) for k, v in B._get_binary_table().items()]
    t['back_ternary'] = [(k.__name__, v.name) for k, v in B._get_ternary_table().items()]
    t['back_nary'] = [(k.__name__, v.name) for k, v in B._get_nary_table().items()]
    t['back_const'] = [(k.__name__, str(v.value)) for k, v in B._get_nullary_table().items()]
    inst = B._FPCoreCompileInstance.__new__(B._FPCoreCompileInstance)
    t['back_compare'] = [(op.name, inst._compile_compareop(op).name) for op in CompareOp]
    # the frontend is keyed by titanfp's printed operator name; `-` is tested by hand before the table is read
    conv = F._FPCore2FPy(fpc.FPCore([], fpc.Integer(0)), 'f')
    cx = F._Ctx(env={'x': NamedId('x'), 'y': NamedId('y')})
    x, y = fpc.Var('x'), fpc.Var('y')
    front_un = [(k, v.__name__) for k, v in F._get_unary_table().items() if k != 'neg']
    front_un.append((fpc.Neg.name, type(conv._visit(fpc.Neg(x), cx)).__name__))
    t['front_unary'] = front_un
    t['front_binary'] = [(k, v.__name__) for k, v in F._get_binary_table().items()]
    t['front_ternary'] = [(k, v.__name__) for k, v in F._get_ternary_table().items()]
    t['front_const'] = [(k, type(v).__name__) for k, v in F._get_constants().items()]
    t['front_nary'] = [(c.name, type(conv._visit(c(fpc.LT(x, y), fpc.LT(y, x)), cx)).__name__) for c in (fpc.Or, fpc.And)]
    t['front_compare'] = [(c.name, conv._visit(c(x, y), cx).ops[0].name)
                          for c in (fpc.LT, fpc.LEQ, fpc.GEQ, fpc.GT, fpc.EQ, fpc.NEQ)]
    return t


def tables_theory(ck):
    """build/C12/C12Tables.v: the tables of the working tree as Coq data, `fwd_ok` / `bwd_ok` / coverage by
    vm_compute, and the instance of tables_roundtrip for them."""
    try:
        t = operator_tables()
    except Exception:  # noqa
        ck.broken.append('operator tables could not be read from the source: ' + traceback.format_exc()[-400:])
        return

    def lst(name, pairs):
        return (f'Definition {name} : list (string * string) := [\n  ' +
                ';\n  '.join(f'({cs(a)}, {cs(b)})' for a, b in pairs) + '\n].\n')
    text = ('From Coq Require Import List String Bool.\nFrom FpyV Require Import Backend.OpTables Backend.OpTablesProofs.\n'
            'Import ListNotations.\nOpen Scope string_scope.\n')
    for k, v in t.items():
        text += lst(k, v)
    kinds = ['unary', 'binary', 'ternary', 'nary', 'compare', 'const']
    for k in kinds:
        text += (f'Lemma back_{k}_ok : fwd_ok spec_{k} back_{k} = true.\nProof. vm_compute. reflexivity. Qed.\n'
                 f'Lemma front_{k}_ok : bwd_ok spec_{k} front_{k} = true.\nProof. vm_compute. reflexivity. Qed.\n')
    # coverage: every operator of the spec is handled (cast / range / dim are handled by code, not by the tables)
    text += ('Lemma front_unary_covers : covers (filter (fun p => negb (String.eqb (fst p) "cast")) spec_unary) '
             '(map fst front_unary) = true.\nProof. vm_compute. reflexivity. Qed.\n'
             'Lemma back_unary_covers : covers (filter (fun p => negb (String.eqb (fst p) "Range1" || String.eqb (fst p) "Dim")) '
             '(swap spec_unary)) (map fst back_unary) = true.\nProof. vm_compute. reflexivity. Qed.\n')
    for k in kinds[1:]:
        text += (f'Lemma front_{k}_covers : covers spec_{k} (map fst front_{k}) = true.\nProof. vm_compute. reflexivity. Qed.\n')
        if k != 'const':
            text += (f'Lemma back_{k}_covers : covers (swap spec_{k}) (map fst back_{k}) = true.\n'
                     'Proof. vm_compute. reflexivity. Qed.\n')
    for k in kinds[:-1]:
        text += (f'Lemma {k}_roundtrip : forall cls nm cls\', In (cls, nm) back_{k} -> In (nm, cls\') front_{k} -> cls\' = cls.\n'
                 f'Proof. apply (tables_roundtrip spec_{k}); [vm_compute; reflexivity|exact back_{k}_ok|exact front_{k}_ok]. Qed.\n')
    ok, out = ck.dyn_theory('C12Tables', text=text)
    n = sum(len(v) for v in t.values())
    ck.evaluations += n
    ck.count('operator-table entries', n)
    if not ok:
        # which entries break the obligation (diagnosis only; the spec is coq/Backend/OpTables.v)
        spec = {}
        raw = (__import__('harness.common', fromlist=['COQ']).COQ / 'Backend' / 'OpTables.v').read_text()
        import re
        for k in kinds:
            body = re.search(r'Definition spec_%s[^\[]*\[(.*?)\]\.' % k, raw, re.S).group(1)
            spec[k] = set(re.findall(r'\("([^"]*)", "([^"]*)"\)', body))
        bad = {}
        for k in kinds:
            b = [(c, nm) for c, nm in t['back_' + k] if (nm, c) not in spec[k]]
            f = [(nm, c) for nm, c in t['front_' + k] if (nm, c) not in spec[k]]
            if b or f:
                bad[k] = {'backend (node class, FPCore name)': b, 'frontend (FPCore name, node class)': f}
        ck.violation('an operator table of the FPCore backend / frontend pairs an operator name with a node class of a '
                     'different meaning, or no longer covers an operator (see C12Tables.log)',
                     {'entries_not_in_spec': bad, 'log': out[-600:]}, no_input=not bad)


# exact references for operators whose result is a small dyadic rational (independent of fpy2 and titanfp)
def _fl(q):
    return q.numerator // q.denominator


def exact_reference(op, x, y):
    """Exact result of `op` on binary64 arguments as ('num', str) / ('zero', neg), or None when not covered."""
    import math
    if any(math.isnan(v) or math.isinf(v) for v in (x, y)):
        return None
    qx, qy = Fraction(x), Fraction(y)
    sx, sy = math.copysign(1.0, x) < 0, math.copysign(1.0, y) < 0

    def val(q, zero_neg):
        return ('zero', bool(zero_neg)) if q == 0 else ('num', str(q))
    if op == 'floor':
        return val(Fraction(_fl(qx)), sx)
    if op == 'ceil':
        return val(Fraction(-_fl(-qx)), sx)
    if op == 'trunc':
        return val(Fraction(_fl(abs(qx))) * (-1 if qx < 0 else 1), sx)
    if op == 'roundint':         # C99 round: ties away from zero
        return val(Fraction(_fl(abs(qx) + Fraction(1, 2))) * (-1 if qx < 0 else 1), sx)
    if op == 'nearbyint':        # under round-to-nearest-even: ties to even
        f = _fl(qx)
        d = qx - f
        n = f if d < Fraction(1, 2) else f + 1 if d > Fraction(1, 2) else (f if f % 2 == 0 else f + 1)
        return val(Fraction(n), sx)
    if op == 'abs':
        return val(abs(qx), False)
    if op == 'neg':
        return val(-qx, not sx)
    if op == 'copysign':
        return val(abs(qx) * (-1 if sy else 1), sy)
    if op == 'fdim':
        return val(qx - qy, False) if qx > qy else ('zero', False)
    if op == 'fmod' and qy != 0:
        t = qx / qy
        n = _fl(abs(t)) * (-1 if t < 0 else 1)
        return val(qx - n * qy, sx)
    if op == 'remainder' and qy != 0:
        t = qx / qy
        f = _fl(t)
        d = t - f
        n = f if d < Fraction(1, 2) else f + 1 if d > Fraction(1, 2) else (f if f % 2 == 0 else f + 1)
        return val(qx - n * qy, sx)
    return None


CORPUS_UNARY = ['neg', 'abs', 'sqrt', 'cbrt', 'ceil', 'floor', 'nearbyint', 'roundint', 'trunc', 'acos', 'asin', 'atan',
                'cos', 'sin', 'tan', 'acosh', 'asinh', 'atanh', 'cosh', 'sinh', 'tanh', 'exp', 'exp2', 'expm1', 'log',
                'log10', 'log1p', 'log2', 'erf', 'erfc', 'lgamma', 'tgamma']
CORPUS_BINARY = ['copysign', 'fdim', 'fmod', 'remainder', 'hypot', 'atan2', 'pow', 'min', 'max']
CORPUS_PRED = ['isfinite', 'isinf', 'isnan', 'isnormal', 'signbit']
# FPCore operator name for the hand-written cores of the reading direction
FPCORE_NAME = {'neg': '-', 'abs': 'fabs', 'roundint': 'round'}
# exact ties (even and odd floor), negatives, signed zeros, a non-dyadic value, specials
CORPUS_VALUES = [0.5, 2.5, -2.5, 4.5, -0.5, 1.5, -1.5, 3.5, 0.0, -0.0, 3.0, -3.0, float.fromhex('0x1.99999ap-4'),
                 7.25, -7.75, 100.0, 0.75, 1.0, float('inf'), float('-inf'), float('nan')]


def titanfp_trusted(op, args):
    """titanfp is the reference evaluator except where it is known to deviate from C99 / IEEE 754:
    nearbyint (the repo's own test shim replaces it) and special values of copysign/fdim/hypot/pow/atan2."""
    import math
    if op == 'nearbyint':
        return False
    if op in ('copysign', 'fdim', 'hypot', 'pow', 'atan2', 'min', 'max', 'fmod', 'remainder'):
        return all(math.isfinite(a) for a in args)
    return True


def corpus_source(kind, op):
    name = f'c{kind}_{op}'
    if kind == 'u':
        call = '(-x)' if op == 'neg' else 'abs(x)' if op == 'abs' else f'fp.{op}(x)'
        body = f'    return {call}\n'
    elif kind == 'b':
        call = f'{op}(x, y)' if op in ('min', 'max') else f'fp.{op}(x, y)'
        body = f'    return {call}\n'
    elif kind == 'p':
        body = f'    r = y\n    if fp.{op}(x):\n        r = x + y\n    return r\n'
    else:
        body = '    return fp.fma(x, y, x)\n'
    return name, f'import fpy2 as fp\n\n@fp.fpy(ctx=fp.FP64)\ndef {name}(x, y):\n{body}'


def replay_one(ck):
    """--replay FILE: re-run the stored program (or core) on the stored arguments, three ways."""
    import json
    import fpy2 as fp
    from fpy2 import FPCoreCompiler, Function
    from titanfp.arithmetic.mpmf import MPMF, Interpreter
    from titanfp.fpbench import fpcparser
    rep = json.loads(open(ck.replay).read()).get('replay', {})

    def to_mpmf(x):
        f = fp.Float.from_float(x)
        return MPMF(negative=f.s, exp=f.exp, c=f.c, isinf=f.isinf, isnan=f.isnan)
    args = [float.fromhex(a) for a in rep.get('args', [])]
    if 'source' in rep and args:
        import re
        name = re.search(r'def (\w+)\(', rep['source']).group(1)
        path = ck.dir / f'c12_replay_{name}.py'
        path.write_text(rep['source'])
        f = getattr(load_module(f'c12_replay_{name}', path), name)
        core = FPCoreCompiler(unsafe_int_cast=True).compile(f)
        want = guarded(lambda: f(*args))
        got_core = guarded(lambda: Interpreter().interpret(core, [to_mpmf(a) for a in args]))
        got_re = guarded(lambda: Function.from_fpcore(fpcparser.compile(core.sexp)[0])(*args))
        ck.log(f'core: {core.sexp}')
        ck.log(f'interpreter={want} titanfp={got_core} re-read={got_re}')
        ck.evaluations += 1
        if not (want == got_core == got_re):
            ck.violation('replayed program: interpreter, titanfp on the core and the re-read function disagree',
                         dict(rep, interpreter=want, titanfp=got_core, reread=got_re),
                         key=KEY_WITH if rep.get('stmt_after_with') and got_core == got_re else None)
    elif 'core' in rep and args:
        core = fpcparser.compile(rep['core'])[0]
        a = guarded(lambda: Function.from_fpcore(core)(*args))
        b = guarded(lambda: Interpreter().interpret(core, [to_mpmf(v) for v in args]))
        ck.log(f're-read={a} titanfp={b}')
        ck.evaluations += 1
        if a != b:
            ck.violation('replayed core: the function read from it and titanfp disagree', dict(rep, reread=a, titanfp=b),
                         key=KEY_GENSYM if gensym_reused_a_name(core) else None)
    else:
        ck.log('nothing to replay in this file (structural / context cases are re-checked by a normal run)')


def run(ck):
    import fpy2 as fp
    from fpy2 import FPCoreCompiler, Function, FPCoreContext, NoSuchContextError
    from fpy2.analysis import DefineUse
    from fpy2.backend.fpc import _apply_fpc_passes
    from fpy2.frontend.fpc import fpcore_to_fpy
    from fpy2.number import (IEEEContext, MPFixedContext, FixedContext, MPFloatContext, REAL, RM, OV)
    from titanfp.arithmetic.mpmf import MPMF, Interpreter
    from titanfp.fpbench import fpcparser

    thorough = ck.tier == 'thorough'
    ck.trusted += [
        'Coq 8.16.1 kernel (coqc); vm_compute evaluates the model on the correspondence cases and the refutation witnesses',
        'hand-written Gallina models coq/Backend/{FPCore,ToFPCore,FromFPCore}.v of backend/fpc.py (_visit_block, '
        '_visit_context, _visit_if/_if1/_while/_for, single changed variable), frontend/fpc.py (expression/let/if/! '
        'subset, Gensym naming) and fpc_context.py, tied to /repo by the structural comparison below',
        'functional extensionality (environments are functions; used for the loop cases of to_fpcore_sound)',
        'exporters in harness/props/c12.py (fpy2 AST -> Coq func on the post-pass AST, titanfp AST -> Coq cprog, '
        'normalisation of the range-tensor detour of `for` to the model\'s CFor)',
        'titanfp (reference FPCore evaluator) — only inside the behavioural comparison; not used where it is known '
        'to deviate from C99/IEEE (nearbyint, special values of copysign/fdim/hypot/pow/atan2, overflow under '
        'directed rounding, empty tensors): there the exact rational reference / interpreter-vs-re-read decide',
        'coq/Backend/OpTables.v spec_*: the pairing FPCore operator name <-> FPy node class of the same meaning '
        '(hand-written from FPBench 2.0 / C99 names); the tables of backend/fpc.py and frontend/fpc.py are '
        'regenerated per run (build/C12/C12Tables.v) and checked against it by vm_compute',
        'the normalisation passes ForBundling/WhileBundling/IfBundling/ForUnpack and DefineUse (mutated_in/introed_in) '
        'are not modelled: the model starts from the post-pass AST; they are covered by the behavioural comparison only',
    ]
    ck.assumptions += [
        'arithmetic is abstract in the theorems: a value domain V with operations indexed by the active context; '
        'the only law used: an integer literal read under `:precision integer` is that integer',
        'the FPCore evaluator of the model derives the number format from the merged property dictionary by '
        '`to_context` (agreement of titanfp with this is checked behaviourally, not proved)',
        'source semantics is block-scoped for if/while/for (only the changed variable escapes); equal to the '
        'interpreter on programs accepted by the def-use discipline the backend itself requires',
        'function arguments are values representable in the function context (titanfp rounds arguments, fpy2 does not)',
    ]
    ok, _ = ck.build_static(['Props/C12.v', 'Cases/C12Cases.v'])
    if ok:
        ck.props('Props/C12.v')
        tables_theory(ck)

    rng = Rng(ck.seed, 'c12')
    cases = []      # (kind, term, info)

    if ck.replay:
        replay_one(ck)
        return

    # ------------------------------------------------------------------ contexts: exhaustive small domain
    rms = list(RM)
    ovs = [OV.OVERFLOW, OV.SATURATE, OV.WRAP]
    ctxs = []
    for es, nb in [(5, 16), (8, 32), (11, 64), (15, 79), (15, 128), (4, 9), (3, 8), (2, 4), (8, 10), (11, 32)]:
        for rm in rms:
            for ov in (OV.OVERFLOW, OV.SATURATE):
                ctxs.append(IEEEContext(es, nb, rm, ov))
    for nmin in (-1, -3, 0, 4):
        for rm in rms:
            # the integer contexts are INTEGER with another rounding mode (its other parameters are not modelled)
            ctxs.append(fp.INTEGER.with_params(rm=rm) if nmin == -1 else MPFixedContext(nmin, rm))
    for signed in (True, False):
        for scale in ((-2, 0, 3, 8, 16) if thorough else (-2, 0, 8)):
            for nb in ((2, 8, 16) if thorough else (2, 8)):
                for rm in (rms if thorough else [RM.RNE, RM.RTZ, RM.RAZ, RM.RTO]):
                    for ov in ovs:
                        ctxs.append(FixedContext(signed, scale, nb, rm, ov))
    ctxs += [REAL, MPFloatContext(10, RM.RNE), fp.FP64, fp.FP32, fp.FP16, fp.INTEGER]
    n_iso = 0
    for c in ctxs:
        try:
            p = FPCoreContext.from_context(c)
            obs = props_term(p.props)
            pd = p
        except Outside:
            continue
        except Exception:  # noqa
            obs, pd = None, None
        t = ctx_term(c)
        cases.append(('ctxfrom', f'(KCtxFrom {t} {copt(obs, str)})', {'ctx': repr(c), 'props': repr(pd)}))
        ck.count('from_context')
        ck.nontriv(('from', t))
        # the property itself, on the implementation: to_context inverts from_context
        if pd is not None and 'precision' in pd.props and not (isinstance(c, IEEEContext) and c.overflow != OV.OVERFLOW):
            n_iso += 1
            try:
                back = pd.to_context()
            except Exception as e:  # noqa
                back = e
            if not (back == c):
                ck.violation('FPCoreContext.to_context does not invert from_context',
                             {'ctx': repr(c), 'props': repr(pd), 'back': repr(back)},
                             key=KEY_FIXED if isinstance(c, FixedContext) else None)
    ck.count('to_context(from_context(c)) == c on the implementation', n_iso)
    ck.evaluations += n_iso

    precs = [None, 'binary16', 'binary32', 'binary64', 'binary80', 'binary128', 'integer', 'real', 'posit16', 'binary256',
             ['float', 4, 9], ['float', 0, 8], ['float', 8, 9], ['float', 8, 10], ['float', 11, 64], ['float', 3, 2],
             ['fixed', -2, 8], ['fixed', 8, -2], ['fixed', 0, 1], ['fixed', 3, 2], ['fixed', 16, 16]]
    rnds = [None, 'nearestEven', 'nearestAway', 'toPositive', 'toNegative', 'toZero', 'awayZero', 'bogus']
    ovns = [None, 'wrap', 'clamp', 'infinity', 'bogus']
    for pr in precs:
        for rd in rnds:
            # the overflow property is read for fixed-point precisions only
            for ov in (ovns if (thorough or (isinstance(pr, list) and pr[0] == 'fixed')) else [None, 'clamp']):
                d = {}
                if pr is not None:
                    d['precision'] = pr
                if rd is not None:
                    d['round'] = rd
                if ov is not None:
                    d['overflow'] = ov
                try:
                    got = FPCoreContext(**d).to_context()
                    obs = ctx_term(got)
                except NoSuchContextError:
                    obs = None
                except Exception as e:  # noqa
                    ck.violation('FPCoreContext.to_context raised something else than NoSuchContextError',
                                 {'props': repr(d), 'error': repr(e)})
                    continue
                t = props_term(d)
                cases.append(('ctxto', f'(KCtxTo {t} {copt(obs, str)})', {'props': repr(d)}))
                ck.count('to_context')
                ck.nontriv(('to', t))

    ck.log(f'{len(cases)} context cases')
    # ------------------------------------------------------------------ programs
    progdir = ck.dir / 'progs'
    progdir.mkdir(parents=True, exist_ok=True)
    n_single = 900 if thorough else 110
    n_multi = 300 if thorough else 40
    sources = list(FIXED_PROGRAMS)
    g1 = ProgGen(rng, multi=False)
    for i in range(n_single):
        sources.append((f'ps{i}', g1.program(f'ps{i}')))
    g2 = ProgGen(rng, multi=True)
    for i in range(n_multi):
        sources.append((f'pm{i}', g2.program(f'pm{i}')))

    comp = FPCoreCompiler(unsafe_int_cast=True)
    pool = [float.fromhex(h) for h in ARG_POOL_HEX]

    def to_mpmf(x):
        f = fp.Float.from_float(x)
        return MPMF(negative=f.s, exp=f.exp, c=f.c, isinf=f.isinf, isnan=f.isnan)

    # behavioural disagreements are classified after Coq has given the structural verdicts:
    # (what, replay, blame, compile-case index or None, read-case index or None, stmt_after_with)
    pending = []

    def read_case(core2, info):
        """Structural case for the reading direction; returns its index or None (outside the model)."""
        try:
            pterm = CoreExport().core(core2)
        except Outside:
            return None
        if 'CWhile' in pterm or 'CFor' in pterm:
            return None                      # loops: not in the modelled reading subset
        try:
            fd2 = fpcore_to_fpy(core2)
            oterm = AstExport(fd2, DefineUse.analyze(fd2)).func()
        except Outside:
            oterm = None
        except Exception:  # noqa
            oterm = None
        cases.append(('read', f'(KRead {pterm} {copt(oterm, str)})', info))
        ck.count('structural: read')
        ck.nontriv(('read', pterm))
        return len(cases) - 1

    progs = {}     # name -> info
    for name, src in sources:
        path = progdir / f'c12_{name}.py'
        path.write_text(src)
        info = {'name': name, 'source': src}
        try:
            mod = load_module(f'c12_{name}', path)
            f = getattr(mod, name)
        except Exception as e:  # noqa
            ck.count('generator-reject (fpy2 refused the program)')
            info['reject'] = repr(e)[:200]
            continue
        try:
            core = comp.compile(f)
        except Exception as e:  # noqa
            ck.count('compile-error')
            ck.violation('FPCoreCompiler raised on a program of the FPCore-expressible subset',
                         {'source': src, 'error': repr(e)[:300]})
            continue
        info['core'] = core.sexp
        post = _apply_fpc_passes(f.ast)
        after = stmt_after_with(post.body)
        info['stmt_after_with'] = after
        progs[name] = info
        ck.count('program: statement after an inner with' if after else 'program: every with last in its block')

        # ---- structural: post-pass AST and emitted core, both as Coq terms
        ci = None
        try:
            fterm = AstExport(post, DefineUse.analyze(post)).func()
        except Outside as e:
            fterm = None
            ck.count('structural: outside the model (%s)' % str(e).split(' ')[0])
        if fterm is not None:
            try:
                cterm = CoreExport().core(core)
            except Outside:
                cterm = None
            cases.append(('compile', f'(KCompile {fterm} {copt(cterm, str)})', info))
            ci = len(cases) - 1
            ck.count('structural: compile')
            ck.nontriv(('compile', fterm))
            ck.sample(f'(KCompile {fterm} {copt(cterm, str)})')

        # ---- re-read the printed core
        reread, ri, dup = None, None, False
        try:
            core2 = fpcparser.compile(core.sexp)[0]
            reread = Function.from_fpcore(core2)
            ri = read_case(core2, info)
            dup = gensym_reused_a_name(core2)
            if dup:
                ck.count('re-read: Gensym handed out a name twice')
        except Exception as e:  # noqa
            ck.violation('Function.from_fpcore raised on a core the backend emitted',
                         {'source': src, 'core': core.sexp, 'error': repr(e)[:300]})

        # ---- behavioural: interpreter vs titanfp vs re-read function
        for _ in range(6 if thorough else 4):
            args = [rng.choice(pool), rng.choice(pool)]
            want = guarded(lambda: f(*args))
            if want[0] == 'err':
                ck.count('behavioural: the interpreter itself raised (no reference result)')
                continue
            got_core = guarded(lambda: Interpreter().interpret(core, [to_mpmf(a) for a in args]))
            ck.evaluations += 1
            ck.count('behavioural: f(*args) vs titanfp')
            ck.nontriv(('beh', name, args[0].hex(), args[1].hex()))
            rep = {'source': src, 'core': core.sexp, 'args': [a.hex() for a in args], 'stmt_after_with': after}
            if want != got_core:
                pending.append(('fpy2 interpreter and titanfp on the compiled core disagree',
                                dict(rep, interpreter=want, titanfp=got_core), 'compile', ci, ri, after, dup))
            if reread is not None:
                got_re = guarded(lambda: reread(*args))
                ck.evaluations += 1
                ck.count('behavioural: re-read function vs titanfp')
                if got_re != got_core:
                    pending.append(('the function read back from the core and titanfp on the core disagree',
                                    dict(rep, reread=got_re, titanfp=got_core, gensym_reused_a_name=dup), 'read', ci, ri, after, dup))
                if got_re != want:
                    # compile o read changed the behaviour; the compile half is the culprit iff titanfp agrees with the re-read function
                    pending.append(('compiling and re-reading a function changed its behaviour',
                                    dict(rep, interpreter=want, reread=got_re),
                                    'compile' if got_re == got_core else 'read', ci, ri, after, dup))

    # ------------------------------------------------------------------ operator corpus (both directions)
    # every real-valued / predicate operator of the tables, on operands that tell similar operators apart
    # (exact ties with even and odd floor, negative values, signed zeros, specials)
    import itertools
    import math
    corpus = ([('u', o) for o in CORPUS_UNARY] + [('b', o) for o in CORPUS_BINARY] +
              [('p', o) for o in CORPUS_PRED] + [('t', 'fma')])
    bvals = CORPUS_VALUES if thorough else CORPUS_VALUES[:7] + CORPUS_VALUES[8:12] + CORPUS_VALUES[18:]
    for kind, op in corpus:
        name, src = corpus_source(kind, op)
        path = progdir / f'c12_{name}.py'
        path.write_text(src)
        info = {'name': name, 'source': src, 'stmt_after_with': False}
        try:
            f = getattr(load_module(f'c12_{name}', path), name)
            core = comp.compile(f)
            info['core'] = core.sexp
            core2 = fpcparser.compile(core.sexp)[0]
            reread = Function.from_fpcore(core2)
        except Exception as e:  # noqa
            ck.violation('an operator of the FPCore tables does not compile / read back',
                         {'source': src, 'error': repr(e)[:300]})
            continue
        ci = None
        try:
            post = _apply_fpc_passes(f.ast)
            fterm = AstExport(post, DefineUse.analyze(post)).func()
            try:
                cterm = CoreExport().core(core)
            except Outside:
                cterm = None
            cases.append(('compile', f'(KCompile {fterm} {copt(cterm, str)})', info))
            ci = len(cases) - 1
            ck.count('structural: compile')
            ck.nontriv(('compile', fterm))
        except Outside:
            pass
        ri = read_case(core2, info)
        # the same operator, written as a core by hand (reading direction alone)
        hand = None
        if kind in ('u', 'b') and op not in ('min', 'max'):
            nm = FPCORE_NAME.get(op, op)
            hsrc = (f'(FPCore (x y) :precision binary64 :round nearestEven ({nm} x))' if kind == 'u' else
                    f'(FPCore (x y) :precision binary64 :round nearestEven ({nm} x y))')
            try:
                hcore = fpcparser.compile(hsrc)[0]
                hri = read_case(hcore, {'core': hsrc})
                hand = (hsrc, hcore, Function.from_fpcore(hcore), hri)
            except Exception as e:  # noqa
                ck.violation('reading a hand-written core with an operator of the tables failed',
                             {'core': hsrc, 'error': repr(e)[:300]})
        pairs = ([(x, 1.25) for x in CORPUS_VALUES] if kind in ('u', 'p') else list(itertools.product(bvals, bvals)))
        for x, y in pairs:
            args = [x, y]
            rep = {'source': src, 'core': core.sexp, 'args': [a.hex() for a in args], 'stmt_after_with': False}
            want = guarded(lambda: f(*args))
            if want[0] == 'err':
                ck.count('behavioural: the interpreter itself raised (no reference result)')
                continue
            got_re = guarded(lambda: reread(*args))
            ref = exact_reference(op, x, y) if kind in ('u', 'b') else None
            trusted = titanfp_trusted(op, args if kind != 'u' else [x])
            got_core = guarded(lambda: Interpreter().interpret(core, [to_mpmf(a) for a in args])) if trusted else None
            ck.evaluations += 1
            ck.count('operator corpus: f(*args) vs re-read function' + (' vs titanfp' if trusted else '') +
                     (' vs exact reference' if ref is not None else ''))
            ck.nontriv(('op', name, x.hex(), y.hex()))
            if ref is not None and want != ref:
                ck.violation('the interpreter itself disagrees with the exact value of the operator (not a translation '
                             'matter, but the corpus cannot arbitrate on this input)', dict(rep, interpreter=want, exact=ref))
            if trusted and want != got_core:
                pending.append(('fpy2 interpreter and titanfp on the compiled core disagree',
                                dict(rep, interpreter=want, titanfp=got_core), 'compile', ci, ri, False, False))
            if got_re != want:
                culprit = 'compile' if (trusted and got_re == got_core) else 'read'
                pending.append(('compiling and re-reading a function changed its behaviour',
                                dict(rep, interpreter=want, reread=got_re, titanfp=got_core, exact=ref),
                                culprit, ci, ri, False, False))
            if hand is not None:
                hsrc, hcore, hfun, hri = hand
                a = guarded(lambda: hfun(*args))
                ck.evaluations += 1
                ck.count('operator corpus: function read from a hand-written core' +
                         (' vs titanfp' if trusted else '') + (' vs exact reference' if ref is not None else ''))
                hrep = {'core': hsrc, 'args': [v.hex() for v in args]}
                if ref is not None and a != ref and a[0] != 'err':
                    pending.append(('the function read from a core disagrees with the exact value of the operator',
                                    dict(hrep, reread=a, exact=ref), 'read', None, hri, False, False))
                elif trusted:
                    b = guarded(lambda: Interpreter().interpret(hcore, [to_mpmf(v) for v in args]))
                    if a != b:
                        pending.append(('the function read from a core and titanfp on the core disagree',
                                        dict(hrep, reread=a, titanfp=b), 'read', None, hri, False, False))

    # ------------------------------------------------------------------ hand-written cores for the reading direction
    READ_CORES = [
        '(FPCore (x y) :precision binary64 :round nearestEven (let ([a (+ x y)] [b (* x y)]) (let ([a b] [b a]) (- a b))))',
        '(FPCore (x y) :precision binary32 :round toZero (let* ([a (+ x y)] [b (* a y)]) (if (< a b) (/ a b) (/ b a))))',
        '(FPCore (x y) (if (and (< x y) (not (== y 0))) (! :precision binary32 :round nearestEven (/ x y)) (- y)))',
        '(FPCore (x y) :precision binary64 :round nearestEven (+ (if (< x y) x y) (let ([x (* x x)]) (! :precision binary16 :round toPositive (sqrt (fabs x))))))',
        '(FPCore (t t0) :precision binary64 :round nearestEven (let ([t (+ t t0)]) (let ([t (* t t0)]) (if (<= t t0) t (- t t0)))))',
        '(FPCore (x y) :precision binary64 :round nearestEven (! :precision binary32 :round nearestEven (let ([a (/ x y)]) (! :precision binary16 :round nearestEven (let ([b (* a 1.1)]) (+ a b))))))',
        '(FPCore (a a1) :precision binary64 :round nearestEven (let* ([a (- a a1)] [a (* a a1)] [a (+ a a1)]) (/ a a1)))',
    ]
    for src in READ_CORES:
        try:
            core2 = fpcparser.compile(src)[0]
            ri = read_case(core2, {'core': src})
            g = Function.from_fpcore(core2)
            dup = gensym_reused_a_name(core2)
            for _ in range(4):
                args = [rng.choice(pool), rng.choice(pool)]
                a = guarded(lambda: g(*args))
                b = guarded(lambda: Interpreter().interpret(core2, [to_mpmf(v) for v in args]))
                ck.evaluations += 1
                ck.count('behavioural: re-read function vs titanfp')
                if a != b:
                    pending.append(('the function read from a core and titanfp on the core disagree',
                                    {'core': src, 'args': [v.hex() for v in args], 'reread': a, 'titanfp': b,
                                     'gensym_reused_a_name': dup}, 'read', None, ri, False, dup))
        except Exception:  # noqa
            ck.violation('reading a core of the modelled subset failed', {'core': src, 'error': traceback.format_exc()[-400:]})

    # ------------------------------------------------------------------ let Coq decide the structural cases
    ck.evaluations += len(cases)
    ck.rule = ('programs: random statement blocks over {assign, with (9 contexts, nested, with and without statements '
               'after them), if/else, if, while, for-range, tail with/return}, 2 arguments from 14 binary32 values; '
               'contexts: all IEEE/MPFixed/Fixed parameter combinations listed in the harness x rounding modes x overflow '
               'modes, all property dictionaries over 21 precisions x 8 rounds x 5 overflows; operator corpus: every '
               'unary / binary / predicate / fma operator of the FPCore tables (compiled from FPy and as a hand-written '
               'core) on exact ties, negatives, signed zeros and specials, against exact rational references where the '
               'result is dyadic; operator tables regenerated from the source; non-trivial = distinct '
               'program / context / dictionary / (program, arguments)')
    ck.exhaustive = False
    terms = [c[1] for c in cases]
    ck.log(f'{len(terms)} structural cases ({len(progs)} programs), {len(pending)} behavioural disagreements to classify')
    bad_fixed, bad_coded, err = coq_eval2(ck, terms)
    if err:
        ck.broken.append('correspondence evaluation failed: ' + err[:600])
    bad_coded = set(bad_coded)
    bad_sound = set(bad_fixed)
    known_shape = bad_sound - bad_coded     # output equals the model of the code as it is, and no theorem covers it

    for what, rep, blame, ci, ri, after, dup in pending:
        key = None
        if blame == 'compile':
            # the recorded defect: a statement after an inner `with`, and (when the program is inside the
            # model) the emitted core is exactly the one the refuted model of the code predicts
            if after and (ci is None or ci in known_shape):
                key = KEY_WITH
        else:
            # the recorded Gensym defect: the frontend's output is exactly the one the model of the code as
            # it is predicts (and differs from the sound one), or — outside the modelled reading subset —
            # the real Gensym was observed handing out a name twice
            if (ri in known_shape) if ri is not None else dup:
                key = KEY_GENSYM
        ck.violation(what, rep, key=key)

    for i in sorted(bad_sound):
        kind, term, info = cases[i]
        as_coded = i not in bad_coded
        if kind == 'compile':
            if as_coded:
                ck.violation('the compiler nests the continuation of a `with` block inside its `!` annotation '
                             '(output equals the model of the code as it is, which the proof refutes)',
                             {'source': info['source'], 'core': info['core'], 'case': term}, key=KEY_WITH)
            else:
                ck.violation('the emitted core differs from the model of backend/fpc.py',
                             {'source': info['source'], 'core': info['core'], 'case': term})
        elif kind == 'ctxfrom':
            if as_coded and 'Fixed' in info['ctx']:
                ck.violation('FPCoreContext.from_context writes (fixed nbits scale); to_context and the FPCore '
                             'standard read (fixed scale nbits)', dict(info, case=term), key=KEY_FIXED)
            else:
                ck.violation('FPCoreContext.from_context differs from the model', dict(info, case=term,
                                                                                      equals_model_as_coded=as_coded))
        elif kind == 'ctxto':
            ck.violation('FPCoreContext.to_context differs from the model', dict(info, case=term))
        else:
            if as_coded:
                ck.violation('fpcore_to_fpy reuses a name that is already taken (Gensym.refresh re-checks the renamed '
                             'identifier under a stale cached hash)', dict(info, case=term), key=KEY_GENSYM)
            else:
                ck.violation('fpcore_to_fpy output differs from the model of frontend/fpc.py', dict(info, case=term))
