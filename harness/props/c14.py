"""C14 — format inference bounds every run-time value.

(a) abstract arithmetic of AbstractFormat: Coq model coq/Analysis/AbsFormat.v,
    unbounded soundness theorems coq/Analysis/AbsFormatProofs.v (statements in
    coq/Props/C14.v).  Tie: every operation is executed on fpy2's AbstractFormat
    and on the model for all pairs of a small format domain plus seeded random
    pairs (Coq decides agreement); the exact results fpy2 computes under REAL are
    compared with the IEEE model (fl_add ...) and tested for membership in the
    implementation's result format (direct property test, the search for
    failing inputs).
(b) program level (testing-level support, see harness/c14_programs.py): FormatInfer
    is run on generated programs with pinned context / argument formats, every
    definition's run-time value is traced and tested for membership in the
    inferred format.
"""
import itertools
from fractions import Fraction

from ..common import Rng, cb, cz
from ..numlib import fl_of, err_of, rf_of

MANIFEST = {
    'text': 'Coq proof that the model of AbstractFormat arithmetic (+, -, *, neg, abs, |, <=, round_is_identity) is sound '
            'w.r.t. a concretisation into extended reals with signed zero, for all formats and all members (unbounded): '
            'full for +, -, |, round_is_identity on bounded float contexts; partial with machine-checked counterexamples '
            '(refuted) for neg, abs, *, <= where the code is unsound. Tied to /repo by running every operation on all pairs '
            'of a small format domain on fpy2 and on the model, and by membership tests of exact results computed by fpy2 '
            'under REAL. Program-level inference (branches, loops, contexts) is covered by traced run-time membership '
            'testing only.',
    'technique': 'machine-checked proof in Coq (Flocq reals) + model/implementation correspondence by vm_compute + '
                 'traced run-time membership testing of FormatInfer results',
}

HEADER = ('From Coq Require Import ZArith List Bool.\n'
          'From FpyV Require Import Num.RealFloat Num.Float Num.Out Analysis.AbsFormat Cases.C14Cases.\n'
          'Import ListNotations.\nOpen Scope Z_scope.\n')

INF = float('inf')

# known-finding keys (known_findings.d/C14.json)
K_NEG = 'neg_has_neg_zero'
K_MULZ = 'mul_has_neg_zero'
K_ABS = 'abs_asymmetric_bound'
K_MULB = 'mul_infinite_bound'
K_LE = 'le_finite_prec_unbounded_exp'


# ---------------------------------------------------------------- printers
def ext_term(v):
    if isinstance(v, float):
        if v == INF:
            return 'EPInf'
        if v == -INF:
            return 'EMInf'
        raise ValueError(f'unexpected float {v}')
    return f'(EFin {cz(v)})'


def bnd_term(b):
    if isinstance(b, float):
        if b != b:
            return 'BNaN'
        return f'(BInf {cb(b < 0)})'
    return f'(BFin {rf_of(b)})'


def af_term(A):
    return (f'(AF {ext_term(A.prec)} {ext_term(A.exp)} {bnd_term(A.pos_bound)} {bnd_term(A.neg_bound)} '
            f'{cb(A.has_pos_inf)} {cb(A.has_neg_inf)} {cb(A.has_nan)} {cb(A.has_neg_zero)})')


def r_af(f):
    try:
        return f'(RAf {af_term(f())})'
    except Exception as e:  # noqa
        return f'(RErr {err_of(e)})'


def r_ext(f):
    try:
        return f'(RExt {ext_term(f())})'
    except Exception as e:  # noqa
        return f'(RErr {err_of(e)})'


# ---------------------------------------------------------------- membership (harness side, by definition)
def oddnorm(c, e):
    while c % 2 == 0:
        c //= 2
        e += 1
    return c, e


def bound_q(b):
    return b if isinstance(b, float) else b.as_rational()


def why_not_member(A, v):
    """None if the Float v is a member of the AbstractFormat A, else the reason."""
    if v.isnan:
        return None if A.has_nan else 'nan'
    if v.isinf:
        return None if (A.has_neg_inf if v.s else A.has_pos_inf) else 'inf'
    if v.c == 0:
        return None if (not v.s or A.has_neg_zero) else 'negzero'
    c, e = oddnorm(v.c, v.exp)
    why = []
    if A.prec != INF and c.bit_length() > A.prec:
        why.append('prec')
    if A.exp != -INF and e < A.exp:
        why.append('exp')
    q = Fraction(v.c) * Fraction(2) ** v.exp * (-1 if v.s else 1)
    if not q <= bound_q(A.pos_bound):
        why.append('pos')
    if not bound_q(A.neg_bound) <= q:
        why.append('neg')
    return '+'.join(why) or None


def run(ck):
    import fpy2 as fp
    import fpy2.ops as ops
    from fpy2.analysis.format_infer import AbstractFormat
    from fpy2.number import Float, RealFloat
    thorough = ck.tier == 'thorough'
    ck.trusted += [
        'Coq 8.16.1 kernel (coqc), vm_compute for evaluating the model on correspondence cases and in the refutation witnesses; no native_compute',
        'Flocq 4 (Core, Calc.Operations, FLT/Generic_fmt) as the definition of real denotation, representability and rounding',
        'hand-written Gallina model coq/Analysis/AbsFormat.v of analysis/format_infer/format.py (tied by differential execution, not by translation)',
        'the concretisation gamma (coq/Analysis/AbsFormatProofs.v) as the meaning of an AbstractFormat; the harness-side membership test '
        '(harness/props/c14.py why_not_member) is cross-checked against the proved-sound executable `mem` on every run',
        'the exact IEEE operations on extended reals are the Float model of C05 (fl_add, ...), compared on every run with fpy2 ops under REAL',
        'program level (b): FormatInfer itself is NOT modelled; traced run-time membership is testing-level support only '
        '(harness/c14_programs.py, tracer = DefaultInterpreter subclass living in /verif)',
    ]
    ck.assumptions += [
        'formats obey the class convention prec >= 1, pos_bound >= 0 >= neg_bound (af_wf; proved closed under neg, abs, |, +, -)',
        'model of AbstractFormat is hand-written; tie to /repo is the correspondence run',
    ]
    ok, _ = ck.build_static(['Props/C14.v', 'Cases/C14Cases.v'])
    if ok:
        ck.props('Props/C14.v')

    rng = Rng(ck.seed, 'c14')

    # ------------------------------------------------------------ the format domain
    def rf(s, e, c):
        return RealFloat(s, e, c)

    Z0, NZ0 = rf(False, 0, 0), rf(True, 0, 0)
    bound_pairs = [
        (INF, -INF), (rf(False, 1, 3), rf(True, 1, 3)), (rf(False, 0, 3), rf(True, -1, 1)), (rf(False, 0, 1), NZ0),
        (Z0, Z0), (NZ0, Z0), (rf(False, -1, 1), -INF), (INF, rf(True, 0, 3)),
    ]
    if thorough:
        bound_pairs += [(rf(False, 0, 5), -INF), (rf(False, -2, 5), rf(True, 0, 8)), (rf(False, 2, 1), rf(True, 0, 7))]
    precs = [1, 2, 3, INF] if thorough else [1, 3, INF]
    exps = [-2, -1, 0, 1, -INF] if thorough else [-1, 0, -INF]
    shapes = [(p, e, pb, nb) for p in precs for e in exps for (pb, nb) in bound_pairs]
    all_flags = list(itertools.product((False, True), repeat=4))

    def mk(shape, flags):
        p, e, pb, nb = shape
        return AbstractFormat(p, e, pb, neg_bound=nb, has_pos_inf=flags[0], has_neg_inf=flags[1],
                              has_nan=flags[2], has_neg_zero=flags[3])

    # the wider space the random pairs are drawn from
    wide_precs = [1, 2, 3, 4, 5, 8, 11, INF]
    wide_exps = [-6, -3, -2, -1, 0, 1, 2, 5, -INF]

    def rand_bound(neg):
        k = rng.random()
        if k < 0.2:
            return -INF if neg else INF
        if k < 0.3:
            return rf(rng.random() < .5, rng.randint(-2, 2), 0)
        return rf(neg, rng.randint(-4, 4), rng.randint(1, 40))

    def rand_fmt():
        return AbstractFormat(rng.choice(wide_precs), rng.choice(wide_exps), rand_bound(False), neg_bound=rand_bound(True),
                              has_pos_inf=rng.random() < .5, has_neg_inf=rng.random() < .5,
                              has_nan=rng.random() < .5, has_neg_zero=rng.random() < .5)

    cases = []   # (term, description, known-finding key)

    def add(term, desc, nt=None):
        cases.append((term, desc))
        ck.evaluations += 1
        ck.count(desc)
        if nt is not None:
            ck.nontriv(nt)

    def binary_cases(A, B, tag):
        ta, tb = af_term(A), af_term(B)
        add(f'(AAdd {ta} {tb}, {r_af(lambda: A + B)})', 'AAdd', ('add', ta, tb))
        add(f'(ASub {ta} {tb}, {r_af(lambda: A - B)})', 'ASub', ('sub', ta, tb))
        add(f'(AMul {ta} {tb}, {r_af(lambda: A * B)})', 'AMul', ('mul', ta, tb))
        add(f'(AOr {ta} {tb}, {r_af(lambda: A | B)})', 'AOr', ('or', ta, tb))
        add(f'(AAnd {ta} {tb}, {r_af(lambda: A & B)})', 'AAnd', ('and', ta, tb))
        add(f'(ALe {ta} {tb}, (RB {cb(A <= B)}))', 'ALe', ('le', ta, tb))

    def unary_cases(A):
        ta = af_term(A)
        add(f'(ANeg {ta}, {r_af(lambda: -A)})', 'ANeg', ('neg', ta))
        add(f'(AAbs {ta}, {r_af(lambda: abs(A))})', 'AAbs', ('abs', ta))
        add(f'(AEffPrec {ta}, {r_ext(lambda: A.effective_prec())})', 'AEffPrec', ('effprec', ta))

    # ------------------------------------------------------------ members and exact results under REAL
    vals = [Float(s=False, exp=0, c=0), Float(s=True, exp=0, c=0), Float(isinf=True, s=False), Float(isinf=True, s=True),
            Float(isnan=True)]
    seen = set()
    for m in range(1, 9):
        for e in range(-3, 4):
            q = Fraction(m) * Fraction(2) ** e
            if q in seen:
                continue
            seen.add(q)
            vals += [Float(s=False, exp=e, c=m), Float(s=True, exp=e, c=m)]
    # a few wider values, to reach large bounds / precisions
    for m, e in [(127, 0), (128, 0), (255, -4), (1023, 0), (3, 10), (1, -8), (37, 3)]:
        vals += [Float(s=False, exp=e, c=m), Float(s=True, exp=e, c=m)]
    nvals = len(vals)
    exact_cache = {}
    OPS2 = {'add': ops.add, 'sub': ops.sub, 'mul': ops.mul}
    OPS1 = {'neg': ops.neg, 'abs': ops.fabs}

    def exact2(op, i, j):
        k = (op, i, j)
        if k not in exact_cache:
            exact_cache[k] = OPS2[op](vals[i], vals[j], ctx=fp.REAL)
        return exact_cache[k]

    def exact1(op, i):
        k = (op, i)
        if k not in exact_cache:
            exact_cache[k] = OPS1[op](vals[i], ctx=fp.REAL)
        return exact_cache[k]

    def members(A):
        return [i for i in range(nvals) if why_not_member(A, vals[i]) is None]

    def is_float(b):
        return isinstance(b, float)

    mem_checks = 0
    fail_hist = {}

    def report(op, A, B, x, y, r, C, why):
        """classify a failing membership: known class (exactly the arm the partial theorem excludes) or violation"""
        key = None
        if op == 'neg' and why == 'negzero' and x.c == 0 and not x.s and not x.isinf and not x.isnan and not A.has_neg_zero:
            key = K_NEG
        elif op == 'abs' and why == 'pos' and x.s and not is_float(A.pos_bound) and \
                Fraction(x.c) * Fraction(2) ** x.exp > A.pos_bound.as_rational():
            key = K_ABS
        elif op == 'mul' and why == 'negzero' and not A.has_neg_zero and not B.has_neg_zero:
            key = K_MULZ
        elif op == 'mul' and why in ('pos', 'neg', 'pos+neg') and \
                any(is_float(b) for b in (A.pos_bound, A.neg_bound, B.pos_bound, B.neg_bound)):
            key = K_MULB
        elif op == 'le' and why == 'prec' and not is_float(B.prec) and B.exp == -INF and A.prec > B.prec:
            key = K_LE
        fail_hist[(op, why, key)] = fail_hist.get((op, why, key), 0) + 1
        ck.violation(f'exact result of `{op}` is not a member of the format AbstractFormat computes ({why})',
                     {'op': op, 'A': str(A), 'B': str(B) if B is not None else None, 'x': str(x),
                      'y': str(y) if y is not None else None, 'exact_result': str(r), 'result_format': str(C),
                      'how': 'fpy2.ops.<op>(x, y, ctx=REAL) vs AbstractFormat.<op>(A, B); membership by definition'}, key=key)

    def membership(A, B, k):
        nonlocal mem_checks
        ma, mb = members(A), members(B)
        sa = ma if len(ma) <= k else rng.sample(ma, k)
        sb = mb if len(mb) <= k else rng.sample(mb, k)
        for op, f in (('add', lambda: A + B), ('sub', lambda: A - B), ('mul', lambda: A * B)):
            try:
                C = f()
            except (ValueError, AssertionError):
                continue       # a crash, not a wrong format; the model agrees on it (correspondence above)
            for i in sa:
                for j in sb:
                    r = exact2(op, i, j)
                    mem_checks += 1
                    why = why_not_member(C, r)
                    if why:
                        report(op, A, B, vals[i], vals[j], r, C, why)
        C = A | B
        for i in ma:
            mem_checks += 1
            why = why_not_member(C, vals[i])
            if why:
                report('or', A, B, vals[i], None, vals[i], C, why)
        for j in mb:
            mem_checks += 1
            why = why_not_member(C, vals[j])
            if why:
                report('or', A, B, None, vals[j], vals[j], C, why)
        if A <= B:
            for i in ma:
                mem_checks += 1
                why = why_not_member(B, vals[i])
                if why:
                    report('le', A, B, vals[i], None, vals[i], B, why)

    def membership1(A):
        nonlocal mem_checks
        for op, f in (('neg', lambda: -A), ('abs', lambda: abs(A))):
            C = f()
            for i in members(A):
                r = exact1(op, i)
                mem_checks += 1
                why = why_not_member(C, r)
                if why:
                    report(op, A, None, vals[i], None, r, C, why)

    # ------------------------------------------------------------ streams
    # 1. all pairs of the small domain (thorough); quick: all pairs of a core sub-domain + a seeded third of the rest.
    #    The flags of each format vary with its index.
    fmts = [mk(sh, all_flags[(7 * i + 3) % 16]) for i, sh in enumerate(shapes)]
    for A in fmts:
        unary_cases(A)
        membership1(A)
    core = {i for i, sh in enumerate(shapes) if sh[0] in (1, INF) and sh[1] in (0, -INF) and (i % len(bound_pairs)) in (0, 1, 2, 6)}
    pick = rng.randint(0, 7)
    for n, ((i, A), (j, B)) in enumerate(itertools.product(enumerate(fmts), enumerate(fmts))):
        if thorough or (i in core and j in core) or n % 8 == pick:
            binary_cases(A, B, 'grid')
            if thorough or n % 2 == 0:
                membership(A, B, 5)
    # 2. all 256 flag pairs on a few shape pairs
    for (s1, s2) in [(shapes[1], shapes[2]), (shapes[0], shapes[-1]), (shapes[len(shapes) // 2], shapes[3])][:3 if thorough else 1]:
        for f1 in all_flags:
            for f2 in all_flags:
                A, B = mk(s1, f1), mk(s2, f2)
                binary_cases(A, B, 'flags')
                membership(A, B, 3)
            unary_cases(mk(s1, f1))
            membership1(mk(s1, f1))
    # 3. seeded random pairs of a wider space
    for _ in range(6000 if thorough else 300):
        A, B = rand_fmt(), rand_fmt()
        binary_cases(A, B, 'random')
        unary_cases(A)
        membership(A, B, 6)
        membership1(A)
    # 4. the formats of real contexts (what the analysis actually feeds the arithmetic)
    ctxs = [fp.SINT8, fp.UINT8, fp.FP16, fp.FP32, fp.FP64, fp.INTEGER, fp.REAL, fp.MPFloatContext(5), fp.MPSFloatContext(4, -3),
            fp.MPFixedContext(-3), fp.FixedContext(True, -2, 6), fp.FixedContext(False, 1, 4),
            fp.MPBFloatContext(3, -2, RealFloat(False, 0, 6)), fp.ExpContext(4, -3)]
    real_fmts = []
    for c in ctxs:
        try:
            real_fmts.append(AbstractFormat.from_format(c.format()))
        except Exception as e:  # noqa
            ck.broken.append(f'from_format failed for {c!r}: {e!r}')
    for A, B in itertools.product(real_fmts, real_fmts):
        binary_cases(A, B, 'contexts')
        membership(A, B, 8)
    for A in real_fmts:
        unary_cases(A)
        membership1(A)
    # from_format itself, for EVERY context family: every value of a small format is a member of its abstraction.
    # Encodable families (Fixed signed/unsigned, SMFixed, Exp, EFloat with each NaN kind, IEEE): all bit patterns are
    # decoded (exhaustive); ordinal families (MPS/MPB float, MP/MPB fixed, asymmetric bounds included): a window of
    # ordinals around zero and below the extremes plus min/max; every family: the value grid filtered by representable_in.
    from fpy2.number import EFloatNanKind
    fam = []
    for signed in (False, True):
        for scale in (-3, 0, 2):
            for nb in (2, 3, 5):
                fam.append(('Fixed', fp.FixedContext(signed, scale, nb)))
    for scale in (-2, 0, 1):
        for nb in (2, 4):
            fam.append(('SMFixed', fp.SMFixedContext(scale, nb)))
    for nb in (1, 2, 4, 5):
        for off in (-3, 0, 2):
            fam.append(('Exp', fp.ExpContext(nb, off)))
    for es, nb in ((2, 4), (2, 5), (3, 6), (4, 8), (1, 3)):
        for inf_ in (False, True):
            for nk in EFloatNanKind:
                for off in (0, 1, -2):
                    try:
                        fam.append(('EFloat', fp.EFloatContext(es, nb, inf_, nk, off)))
                    except Exception:  # noqa  (parameter combination the constructor rejects)
                        pass
    for es, nb in ((2, 4), (3, 6), (4, 8), (5, 16)):
        fam.append(('IEEE', fp.IEEEContext(es, nb)))
    for p_ in (1, 2, 4):
        fam.append(('MPFloat', fp.MPFloatContext(p_)))
        for emin in (-3, 0, 2):
            fam.append(('MPSFloat', fp.MPSFloatContext(p_, emin)))
            for mx, ng in ((RealFloat(False, 0, 6), None), (RealFloat(False, 1, 5), RealFloat(True, -1, 3)), (RealFloat(False, -2, 7), RealFloat(True, 2, 3))):
                try:
                    fam.append(('MPBFloat', fp.MPBFloatContext(p_, emin, mx, neg_maxval=ng)))
                except Exception:  # noqa
                    pass
    for nmin in (-4, -1, 2):
        fam.append(('MPFixed', fp.MPFixedContext(nmin)))
        for mx, ng in ((RealFloat(False, nmin + 1, 9), None), (RealFloat(False, nmin + 1, 5), RealFloat(True, nmin + 2, 7)),
                       (RealFloat(False, nmin + 3, 1), RealFloat(False, 0, 0))):
            for nz in (True, False):
                try:
                    fam.append(('MPBFixed', fp.MPBFixedContext(nmin, mx, neg_maxval=ng, enable_neg_zero=nz)))
                except Exception:  # noqa
                    pass
    fam += [('Real', fp.REAL), ('INTEGER', fp.INTEGER)]
    ff = 0
    ffam = {}

    def ff_check(kind, c, F, A, v, how):
        nonlocal ff
        ff += 1
        ffam[kind] = ffam.get(kind, 0) + 1
        why = why_not_member(A, v)
        if why:
            ck.violation('a value of a Format is not a member of AbstractFormat.from_format(Format)',
                         {'family': kind, 'context': repr(c), 'format': repr(F), 'value': repr(v), 'abstract': str(A), 'why': why,
                          'value_obtained_by': how})

    for kind, c in fam:
        F = c.format()
        try:
            A = AbstractFormat.from_format(F)
        except Exception as e:  # noqa
            ck.count(f'from_format: {kind} not abstractable ({type(e).__name__})')
            continue
        nbits = getattr(F, 'nbits', None) or getattr(c, 'nbits', None)
        if hasattr(c, 'decode') and isinstance(nbits, int) and nbits <= 10:
            for i in range(2 ** nbits):
                try:
                    v = c.decode(i)
                except Exception:  # noqa
                    continue
                ff_check(kind, c, F, A, v, f'decode({i})')
        elif hasattr(c, 'from_ordinal'):
            ords = set(range(-40, 41))
            for ext in ('maxval', 'minval'):
                for sgn in (False, True):
                    try:
                        m = getattr(c, ext)(sgn)
                        if F.representable_in(m):       # (a constructor may accept a bound its own format cannot represent)
                            ff_check(kind, c, F, A, m, f'{ext}({sgn})')
                        o = c.to_ordinal(m)
                        ords |= set(range(o - 6, o + 7))
                    except Exception:  # noqa
                        pass
            for o in sorted(ords):
                try:
                    v = c.from_ordinal(o)
                except Exception:  # noqa
                    continue
                try:
                    if not F.representable_in(v):
                        continue
                except Exception:  # noqa
                    continue
                ff_check(kind, c, F, A, v, f'from_ordinal({o})')
        for v in vals:
            try:
                rep = F.representable_in(v)
            except Exception:  # noqa
                continue
            if rep:
                ff_check(kind, c, F, A, v, 'representable_in(grid value)')
    for c, A in zip(ctxs, real_fmts):
        F = c.format()
        for v in vals:
            try:
                if F.representable_in(v):
                    ff_check('named', c, F, A, v, 'representable_in(grid value)')
            except Exception:  # noqa
                continue
    ck.count('from_format membership (all values of small formats of every family)', ff)
    ck.extra['from_format_values_by_family'] = ffam
    ck.evaluations += ff

    # 5. harness-side membership vs the proved-sound executable `mem`; exact ops vs the IEEE model
    pool = fmts + real_fmts + [rand_fmt() for _ in range(60)]
    for _ in range(6000 if thorough else 1000):
        A = rng.choice(pool)
        v = rng.choice(vals)
        add(f'(AMem {af_term(A)} {fl_of(v)}, (RB {cb(why_not_member(A, v) is None)}))', 'AMem', ('mem', af_term(A), fl_of(v)))
    sub = list(range(rng.randint(0, 2) if not thorough else 0, nvals, 1 if thorough else 3))
    for i in sub:
        for j in sub:
            tx, ty = fl_of(vals[i]), fl_of(vals[j])
            add(f'(XAdd {tx} {ty}, (RFl {fl_of(exact2("add", i, j))}))', 'XAdd', ('xadd', tx, ty))
            add(f'(XSub {tx} {ty}, (RFl {fl_of(exact2("sub", i, j))}))', 'XSub', ('xsub', tx, ty))
            add(f'(XMul {tx} {ty}, (RFl {fl_of(exact2("mul", i, j))}))', 'XMul', ('xmul', tx, ty))
    for i in range(nvals):
        tx = fl_of(vals[i])
        add(f'(XNeg {tx}, (RFl {fl_of(exact1("neg", i))}))', 'XNeg', ('xneg', tx))
        add(f'(XAbs {tx}, (RFl {fl_of(exact1("abs", i))}))', 'XAbs', ('xabs', tx))

    ck.count('membership of exact results (direct property test on fpy2)', mem_checks)
    ck.evaluations += mem_checks
    ck.extra['membership_failures_by_class'] = {f'{op}/{why}/{key}': n for (op, why, key), n in sorted(fail_hist.items(), key=str)}

    ck.rule = ('formats: all pairs of %d small formats (prec in %s, exp in %s, %d bound pairs incl. infinite, signed-zero and '
               'off-grid bounds), all 256 flag pairs on 3 shape pairs, seeded random pairs of a wider space, pairs of the formats of %d '
               'real contexts; members: grid m*2^e (m<=8, |e|<=3) + wide values, both signs, both zeros, both infinities, NaN; '
               'non-trivial = distinct (operation, operand formats / operand values)'
               % (len(shapes), precs, exps, len(bound_pairs), len(ctxs)))
    ck.exhaustive = False
    for t, _ in cases[:2] + cases[len(cases) // 2:len(cases) // 2 + 2]:
        ck.sample(t)
    ck.log(f'{len(cases)} model cases, {mem_checks} membership checks, failures by class: {ck.extra["membership_failures_by_class"]}')
    bad, err = ck.coq_eval_mismatches(HEADER, 'op14 * out14', [c[0] for c in cases], 'check14', chunk=500)
    if err:
        ck.broken.append('correspondence evaluation failed: ' + err[:500])
    for i in bad:
        term, desc = cases[i]
        ck.violation(f'implementation and model disagree on {desc}',
                     {'case': term, 'note': 'first component: operation and operands; second: what fpy2 returned; the model '
                                            '(coq/Analysis/AbsFormat.v, theorems in Props/C14.v) returns something else'})

    # ------------------------------------------------------------ (b) program level (testing)
    try:
        from .. import c14_programs
        c14_programs.run_programs(ck, rng, thorough)
    except ImportError:
        ck.log('program-level part (b) not available')
