"""C10 — rounding-lowering rewrites leave the rounding function unchanged.

Proof: coq/Lang/Lowering/Lower.v (templates of the five rewrites + the rewriting
of whole lowered programs), Lower*Proofs.v, statements in coq/Props/C10.v.
Tie: for every context of the enumeration (harness/c10lib.py) the real FPy
function `def q(x): with C: y = fp.round(x)` is written to build/C10/*.py, each
real strategy and every prefix of the documented chains is applied, and
  * original vs lowered are run on the eighth-ulp grid (+-0, +-inf, +-NaN) and
    compared exactly in Python (class, sign incl. zeros and NaN, value, exception class),
  * the original is compared with the model `vround` (= ctx_round0), the lowered
    program with the model's template `sem (rw T (LRound C))`, refusals with the
    model's `leaf_of T C = None`, the emitted contexts with the template's
    contexts -- all decided by the extracted Gallina checker (ocaml oracle);
  * elim_round / insert_round are run on monomorphized `round` programs for
    pairs (argument format, target context): wherever the real pass acts, the
    rounding must be the identity on every member of the argument format.
"""
import os
import subprocess
import time
from multiprocessing import Pool

from ..common import BUILD
from ..oracle import Oracle, enc
from .. import c10lib as L

MANIFEST = {
    'text': 'Coq proof that each rounding-lowering rewrite (unfold_special, unfold_overflow incl. early_check, '
            'unfold_neg_zero, float_to_fixed, rescale_fixed) is an identity between rounding functions on the proved '
            'context model (every family, mode, overflow mode, NaN/inf option, substitute, every operand), that a '
            'refused context is left unchanged, that representable operands make round_elim/round_insert sound, and '
            'that chains of rewrites preserve results (chain theorem partial: constructor invariants of emitted contexts '
            'are hypotheses); two refusal conditions of the code as found are refuted (known findings). The Gallina '
            'templates are tied to /repo on every run by applying the real strategies and chain prefixes to generated '
            'FPy functions for ~2600 small contexts and comparing original, lowered program, model and template on '
            'exhaustive eighth-ulp operand grids.',
    'technique': 'machine-checked proof in Coq (Flocq monotonicity/generic-format lemmas via N1) + extracted-model and '
                 'differential correspondence of the real strategies on exhaustive small-format grids',
}

KEY_WRAP = 'unfold_overflow-accepts-wrap'
KEY_NEGZ = 'unfold_neg_zero-zero-bound'
KEY_DEGEN = 'float_to_fixed-zero-only-format'

WORKDIR = BUILD / 'C10'

# witness contexts of the three known defects: which version of the code is this?
W_WRAP = {'kind': 'smfixed', 'scale': 0, 'nbits': 3, 'rm': 'RNE', 'ov': 'WRAP'}
W_NEGZ = {'kind': 'mpbfixed', 'nmin': -1, 'maxval': (False, 0, 3), 'neg_maxval': (False, 0, 0), 'rm': 'RNE', 'ov': 'SATURATE'}
W_DEGEN = {'kind': 'efloat', 'es': 0, 'nbits': 2, 'enable_inf': True, 'nk': 'NONE', 'eoffset': 0, 'rm': 'RNE', 'ov': 'OVERFLOW'}

WHAT = {'orig': 'Context.round and the proved context model disagree',
        'declines': 'the strategy and the model disagree about refusing the context',
        'template': 'the program the strategy emitted and the proved template disagree on an operand',
        'structure': 'the contexts of the emitted program are not those of the proved template',
        'identity': 'a rounding the pass removed/inserted is not the identity of the proved context model'}


def probe_fixes():
    """(fx_wrap, fx_zero_bound, fx_degenerate): does the code under test already refuse the witness?"""
    mod = L.load_module(WORKDIR, 'c10_probe', L.module_source([W_WRAP, W_NEGZ, W_DEGEN], 'c10_probe'))
    out = []
    for i, t in ((0, L.T_OVERFLOW), (1, L.T_NEGZERO), (2, L.T_F2F)):
        try:
            out.append(1 if L.refusals_T(t, getattr(mod, f'q{i}')) else 0)
        except Exception:  # noqa
            out.append(0)
    return out


def _is_zero_bound(d):
    if d['kind'] != 'mpbfixed' or d.get('ov') not in ('SATURATE', 'OVERFLOW'):
        return False
    nm = d.get('neg_maxval')
    return (nm is not None and nm[2] == 0 and not nm[0]) or (d['maxval'][2] == 0 and d['maxval'][0])


def _classify(steps, d, want, got, degenerate):
    """known-finding key of a disagreement original/lowered, or None.
    steps: the rewrites that changed the program; want/got: res_key of original/lowered (None = several)"""
    if d.get('ov') == 'WRAP' and (L.T_OVERFLOW in steps or L.T_OVERFLOW_EARLY in steps):
        return KEY_WRAP
    if _is_zero_bound(d) and L.T_NEGZERO in steps:
        # exactly: the original saturated onto the zero bound and the lowered program flipped its sign
        if want is None or (want[0] == 'fin' and got[0] == 'fin' and want[2] == 0 and got[2] == 0 and want[1] != got[1]):
            return KEY_NEGZ
    if degenerate and L.T_F2F in steps:
        return KEY_DEGEN
    return None


def _nan_blind(k):
    return ('nan',) if k[0] == 'nan' else k


def _run_oracle(exe, lines):
    """failing indices of the encoded lines, or an error string"""
    if not lines:
        return []
    p = subprocess.run([exe], input='\n'.join(lines) + '\n', text=True, stdout=subprocess.PIPE, stderr=subprocess.PIPE)
    bad, done = [], None
    for ln in p.stdout.split('\n'):
        if ln.startswith('DONE'):
            done = int(ln.split()[1])
        elif ln.strip():
            bad.append(int(ln))
    if p.returncode != 0 or done != len(lines):
        return f'oracle run failed: {(p.stderr or "")[-300:]} (done={done}, expected {len(lines)})'
    return bad


def work(args):
    ci, descs, cap, full_chains, fx, exe = args
    import fpy2  # noqa
    from fpy2.transform.error import TransformDeclined
    t_cpu = time.process_time()
    res = {'viol': [], 'counts': {}, 'nontriv': [], 'broken': [], 'samples': [], 'nlines': 0}
    lines, meta = [], []

    def cnt(k, n=1):
        res['counts'][k] = res['counts'].get(k, 0) + n

    def line(wire, kind, m):
        lines.append(enc(wire))
        meta.append((kind, m))
        cnt('oracle:' + kind)

    live = []
    for d in descs:
        try:
            L.mk_ctx10(d)
            live.append(d)
        except Exception:  # noqa  the constructor refuses the combination
            cnt('ctx-constructor-refused')
    try:
        mod = L.load_module(WORKDIR, f'c10_mod_{ci}', L.module_source(live, f'c10_mod_{ci}'))
    except Exception as e:  # noqa
        res['broken'].append(f'module {ci} did not load: {type(e).__name__}: {e}')
        return res
    for i, d in enumerate(live):
        q = getattr(mod, f'q{i}')
        ctx = getattr(mod, f'C{i}')
        wctx = L.e_ctx10(d)
        stoch = L.is_stochastic(d)
        ops = L.operands_for(d, cap)
        if stoch:
            ops = [o for o in ops if o[0] != 'fin' or o[3] == 0][:12]
        xs = [L.mk_operand(o) for o in ops]
        wx = [_e_op(o) for o in ops]
        base = [L.run_fn(q, x) for x in xs]
        bkeys = [L.res_key(r) for r in base]
        cnt('ctx:' + d['kind'])
        degenerate = False
        if d['kind'] in ('efloat', 'ieee'):
            try:
                degenerate = bool(ctx.maxval().is_zero())
            except Exception:  # noqa
                degenerate = False
        for o, r, w in zip(ops, base, wx):
            line([0] + wctx + w + L.e_res(r), 'orig', (d, o))
        variants = []       # (name, wire prefix, function, steps that changed the program)
        crashed = set()
        for t in range(6):
            name = L.TNAMES[t]
            try:
                ref = L.refusals_T(t, q)
                sites = L.sites_T(t, q)
                f = L.apply_T(t, q)
            except Exception as e:  # noqa
                key = KEY_DEGEN if (t == L.T_F2F and isinstance(e, ValueError) and degenerate and not fx[2]) else None
                res['viol'].append((f'{name} raised {type(e).__name__} instead of rewriting or declining',
                                    {'ctx': d, 'error': str(e)[:300]}, key))
                crashed.add(t)
                continue
            declined = bool(ref)
            changed = not f.ast.is_equiv(q.ast)
            cnt(f'{name}:{"declined" if declined else "applied"}')
            if declined == changed or (len(sites) == 1) == declined:
                res['viol'].append((f'{name}: refusals()/sites() and the rewrite disagree about the block',
                                    {'ctx': d, 'refusals': [r[1] for r in ref], 'sites': len(sites), 'changed': changed}, None))
            if declined:
                # naming the refused block with a cursor must raise TransformDeclined
                try:
                    _apply_at(t, q, ref[0][0])
                    res['viol'].append((f'{name}: a refused block named by a cursor was not declined', {'ctx': d}, None))
                except TransformDeclined:
                    cnt('TransformDeclined raised for a cursor naming a refused block')
                except Exception as e:  # noqa
                    res['viol'].append((f'{name}: cursor naming a refused block raised {type(e).__name__}', {'ctx': d, 'error': str(e)[:200]}, None))
            line([2] + fx + [t] + wctx + [1 if declined else 0], 'declines', (d, name))
            if changed:
                variants.append((name, [1] + fx + [t], f, [t]))
                # structure: the contexts the emitted program rounds under
                cs = [c for c in L.block_ctxs(f) if c is not None]
                ds = [L.desc_of_ctx(c) for c in cs]
                if any(x is None for x in ds):
                    res['broken'].append(f'{name}: emitted context of an unknown class {cs}')
                else:
                    ws = [L.e_ctx10(x) for x in ds if x['kind'] != 'real']
                    if t == L.T_SPECIAL:
                        if len(ws) == 1:
                            line([5] + wctx + ws[0], 'structure', (d, name))
                        else:
                            res['broken'].append(f'unfold_special: expected one surviving context, got {ds}')
                    else:
                        line([4] + fx + [t] + wctx + [len(ws)] + [v for w in ws for v in w], 'structure', (d, name))
        if not stoch:
            seen = []
            for cname, ch in L.CHAINS.items():
                if not full_chains and cname not in ('float-recipe', 'fixed-recipe', 'property-chain'):
                    continue
                f = q
                steps = []
                for j, t in enumerate(ch):
                    if t in crashed:
                        break         # reported above
                    try:
                        g = L.apply_T(t, f)
                    except Exception as e:  # noqa
                        res['viol'].append((f'chain {cname}: step {L.TNAMES[t]} raised {type(e).__name__}',
                                            {'ctx': d, 'error': str(e)[:300]}, None))
                        break
                    if not g.ast.is_equiv(f.ast):
                        steps = steps + [t]
                        if j >= 1 and not any(g.ast.is_equiv(s) for s in seen):
                            seen.append(g.ast)
                            variants.append((f'{cname}[:{j + 1}]', [3] + fx + [j + 1] + ch[:j + 1], g, steps))
                    f = g
        for name, wpre, f, steps in variants:
            nbad = 0
            keys = set()
            # 2^k * NaN computed under fp.REAL is +NaN: a program that scales does not keep the sign of a NaN
            blind = L.T_RESCALE in steps
            for o, x, w, b, bk in zip(ops, xs, wx, base, bkeys):
                r = L.run_fn(f, x)
                rk = L.res_key(r)
                cnt('lowered-run:' + name.split('[')[0])
                if (rk != bk) if not blind else (_nan_blind(rk) != _nan_blind(bk)):
                    nbad += 1
                    key = _classify(steps, d, bk, rk, degenerate and not fx[2])
                    keys.add(key)
                    if nbad <= 3:
                        res['viol'].append((f'{name} changed the result of the rounding',
                                            {'ctx': d, 'operand': o, 'original': L.show_res(b), 'lowered': L.show_res(r),
                                             'program': f.format() if nbad == 1 else '...'}, key))
                line(wpre + wctx + w + L.e_res(r), 'template', (d, name, o))
                if o[0] != 'fin' or b[0] == 'err' or (b[0] == 'ok' and bk[1:] != (o[1], _val(o))):
                    res['nontriv'].append(hash((name, str(sorted(d.items(), key=str)), o)))
            if nbad > 3:
                res['viol'].append((f'{name} changed the result of the rounding',
                                    {'ctx': d, 'failing operands in total': nbad},
                                    keys.pop() if len(keys) == 1 else None))
        if i == 0 and variants:
            res['samples'].append({'ctx': d, 'variant': variants[-1][0], 'program': variants[-1][2].format()[:600]})
    res['nlines'] = len(lines)
    bad = _run_oracle(exe, lines)
    if isinstance(bad, str):
        res['broken'].append(bad)
    else:
        for i in bad:
            kind, m = meta[i]
            res['viol'].append((WHAT[kind], {'ctx': m[0], 'case': [str(x) for x in m[1:]], 'wire': lines[i]}, None))
    cnt('worker-cpu-seconds', round(time.process_time() - t_cpu, 1))
    return res


def _val(o):
    from fractions import Fraction
    return Fraction(o[3]) * Fraction(2) ** o[2]


def _e_op(o):
    from ..numenc import e_fl
    return e_fl(o)


def _apply_at(t, q, cursor):
    from fpy2 import strategies as S
    if t == L.T_SPECIAL:
        return S.unfold_special(q, cursor)
    if t == L.T_OVERFLOW:
        return S.unfold_overflow(q, cursor)
    if t == L.T_OVERFLOW_EARLY:
        return S.unfold_overflow(q, cursor, early_check=True)
    if t == L.T_NEGZERO:
        return S.unfold_neg_zero(q, cursor)
    if t == L.T_F2F:
        return S.float_to_fixed(q, cursor)
    return S.rescale_fixed(q, cursor)


# ---------------------------------------------------------------- round_elim / round_insert
def identity_pairs(thorough):
    """(argument format A, target context C) descriptors"""
    fx_ = [{'kind': 'fixed', 'signed': True, 'scale': -1, 'nbits': 3, 'rm': 'RNE', 'ov': 'SATURATE'},
           {'kind': 'fixed', 'signed': True, 'scale': -2, 'nbits': 5, 'rm': 'RTZ', 'ov': 'WRAP'},
           {'kind': 'fixed', 'signed': False, 'scale': 0, 'nbits': 3, 'rm': 'RNE', 'ov': 'SATURATE'},
           {'kind': 'fixed', 'signed': True, 'scale': 1, 'nbits': 3, 'rm': 'RNA', 'ov': 'OVERFLOW'},
           {'kind': 'smfixed', 'scale': -1, 'nbits': 3, 'rm': 'RNE', 'ov': 'SATURATE'},
           {'kind': 'smfixed', 'scale': -2, 'nbits': 5, 'rm': 'RTP', 'ov': 'SATURATE'},
           {'kind': 'mpfixed', 'nmin': -3, 'rm': 'RNE'},
           {'kind': 'mpbfixed', 'nmin': -2, 'maxval': (False, -1, 5), 'rm': 'RNE', 'ov': 'SATURATE'},
           {'kind': 'mpbfixed', 'nmin': -3, 'maxval': (False, -2, 11), 'rm': 'RNE', 'ov': 'OVERFLOW', 'enable_inf': True, 'enable_nan': True}]
    fl_ = [{'kind': 'ieee', 'es': 2, 'nbits': 4, 'rm': 'RNE', 'ov': 'OVERFLOW'},
           {'kind': 'ieee', 'es': 3, 'nbits': 6, 'rm': 'RTZ', 'ov': 'OVERFLOW'},
           {'kind': 'ieee', 'es': 2, 'nbits': 5, 'rm': 'RNE', 'ov': 'SATURATE'},
           {'kind': 'efloat', 'es': 2, 'nbits': 4, 'enable_inf': False, 'nk': 'MAX_VAL', 'eoffset': 0, 'rm': 'RNE', 'ov': 'SATURATE'},
           {'kind': 'efloat', 'es': 2, 'nbits': 5, 'enable_inf': False, 'nk': 'NEG_ZERO', 'eoffset': 0, 'rm': 'RNE', 'ov': 'OVERFLOW'},
           {'kind': 'mpbfloat', 'p': 2, 'emin': -1, 'maxval': (False, 0, 3), 'rm': 'RNE', 'ov': 'OVERFLOW'},
           {'kind': 'mpbfloat', 'p': 3, 'emin': -2, 'maxval': (False, 0, 7), 'rm': 'RAZ', 'ov': 'SATURATE'},
           {'kind': 'mpsfloat', 'p': 2, 'emin': -1, 'rm': 'RNE'},
           {'kind': 'mpsfloat', 'p': 4, 'emin': -3, 'rm': 'RTO'},
           {'kind': 'mpfloat', 'p': 3, 'rm': 'RNE'}]
    allc = fx_ + fl_
    return [(a, c) for a in allc for c in allc]


def identity_source(pairs):
    lines = ['import fpy2 as fp', 'from harness.c10lib import mk_ctx10', '']
    for i, (a, c) in enumerate(pairs):
        lines += [f'A{i} = mk_ctx10({a!r})', f'C{i} = mk_ctx10({c!r})', '',
                  '@fp.fpy', f'def e{i}(x: fp.Real) -> fp.Real:', f'    with C{i}:', '        y = fp.round(x)', '    return y', '',
                  '@fp.fpy', f'def n{i}(x: fp.Real) -> fp.Real:', '    with fp.REAL:', '        y = fp.round(x)', '    return y', '']
    return '\n'.join(lines) + '\n'


def identity_work(args):
    ci, pairs, exe = args
    from fpy2.strategies import elim_round, insert_round, monomorphize
    from fpy2.types import RealType
    import fpy2 as fp
    res = {'viol': [], 'counts': {}, 'nontriv': [], 'broken': [], 'samples': [], 'nlines': 0}
    lines, meta = [], []

    def cnt(k, n=1):
        res['counts'][k] = res['counts'].get(k, 0) + n

    try:
        mod = L.load_module(WORKDIR, f'c10_ident_{ci}', identity_source(pairs))
    except Exception as e:  # noqa
        res['broken'].append(f'identity module {ci} did not load: {type(e).__name__}: {e}')
        return res
    for i, (a, c) in enumerate(pairs):
        A, C = getattr(mod, f'A{i}'), getattr(mod, f'C{i}')
        fmtA = A.format()
        # every member of the argument format on the grid (and the specials it has)
        members = []
        for o in L.operands_for(a, 160):
            x = L.mk_operand(o)
            try:
                if fmtA.representable_in(x):
                    members.append((o, x))
            except Exception:  # noqa
                pass
        for which, fn in (('elim_round', getattr(mod, f'e{i}')), ('insert_round', getattr(mod, f'n{i}'))):
            try:
                pinned = monomorphize(fn, fp.REAL, [RealType(A)])
                out = elim_round(pinned) if which == 'elim_round' else insert_round(pinned, C)
                acted = not out.ast.is_equiv(pinned.ast)
            except Exception as e:  # noqa
                if type(e).__name__ in ('TransformDeclined', 'TransformReferenceError'):
                    cnt(which + ':refused')
                    continue
                # the pass did not run: format inference (C14) could not describe the pair; nothing was rewritten
                cnt(f'{which}:raised {type(e).__name__} (format inference; not a rewrite)')
                continue
            cnt(which + (':acted' if acted else ':left alone'))
            if not acted:
                continue
            wc = L.e_ctx10(c)
            for o, x in members:
                r0, r1 = L.run_fn(pinned, x), L.run_fn(out, x)
                cnt('identity-run')
                # a float context returns the one NaN it has: the sign of a NaN is not a value
                if _nan_blind(L.res_key(r0)) != _nan_blind(L.res_key(r1)):
                    res['viol'].append((f'{which} changed the result: the rounding it took for an identity is not one',
                                        {'arg format': a, 'ctx': c, 'operand': o, 'before': L.show_res(r0), 'after': L.show_res(r1)}, None))
                if o[0] == 'nan':
                    continue
                # the model: rounding this member under C returns it
                lines.append(enc([0] + wc + _e_op(o) + L.e_res(('ok', x))))
                meta.append(('identity', (c, which, a, o)))
                cnt('oracle:identity')
                res['nontriv'].append(hash((which, str(a), str(c), o)))
    res['nlines'] = len(lines)
    bad = _run_oracle(exe, lines)
    if isinstance(bad, str):
        res['broken'].append(bad)
    else:
        for i in bad:
            kind, m = meta[i]
            res['viol'].append((WHAT[kind], {'ctx': m[0], 'case': [str(x) for x in m[1:]], 'wire': lines[i]}, None))
    return res


def chain_stream(ck, thorough):
    """Two chained roundings `with C1: a = round(x)` / `with C2: y = round(a)` of an argument whose format is known
    (monomorphized): every lowering, applied to the second rounding alone and to all sites, must leave the function
    unchanged on every member of the argument format.  The operand of the second rounding is a *result* (it can be the
    NaN / infinity / substitute an overflow of C1 produces although the argument never is): the rewrites' use of
    value-class and format facts about an operand is exercised here."""
    import fpy2 as fp  # noqa: F401
    from fpy2.strategies import monomorphize
    from fpy2.types import RealType
    args = [{'kind': 'fixed', 'signed': True, 'scale': 0, 'nbits': 6, 'rm': 'RNE', 'ov': 'SATURATE'},
            {'kind': 'fixed', 'signed': True, 'scale': -1, 'nbits': 6, 'rm': 'RNE', 'ov': 'SATURATE'}]
    first = [{'kind': 'efloat', 'es': 2, 'nbits': 4, 'enable_inf': False, 'nk': 'MAX_VAL', 'eoffset': 0, 'rm': 'RNE', 'ov': 'OVERFLOW'},
             {'kind': 'efloat', 'es': 2, 'nbits': 5, 'enable_inf': False, 'nk': 'NEG_ZERO', 'eoffset': 0, 'rm': 'RTZ', 'ov': 'OVERFLOW'},
             {'kind': 'ieee', 'es': 2, 'nbits': 4, 'rm': 'RNE', 'ov': 'OVERFLOW'},
             {'kind': 'ieee', 'es': 3, 'nbits': 5, 'rm': 'RAZ', 'ov': 'OVERFLOW'},
             {'kind': 'mpbfloat', 'p': 2, 'emin': -1, 'maxval': (False, 0, 3), 'rm': 'RNE', 'ov': 'OVERFLOW'},
             {'kind': 'efloat', 'es': 3, 'nbits': 5, 'enable_inf': False, 'nk': 'IEEE_754', 'eoffset': 0, 'rm': 'RNE', 'ov': 'OVERFLOW'}]
    second = [{'kind': 'ieee', 'es': 3, 'nbits': 6, 'rm': 'RNE', 'ov': 'OVERFLOW'},
              {'kind': 'ieee', 'es': 2, 'nbits': 4, 'rm': 'RTZ', 'ov': 'OVERFLOW'},
              {'kind': 'mpsfloat', 'p': 3, 'emin': -2, 'rm': 'RNE'},
              {'kind': 'efloat', 'es': 2, 'nbits': 4, 'enable_inf': False, 'nk': 'MAX_VAL', 'eoffset': 0, 'rm': 'RNE', 'ov': 'OVERFLOW'},
              {'kind': 'fixed', 'signed': True, 'scale': -1, 'nbits': 5, 'rm': 'RNE', 'ov': 'SATURATE'}]
    combos = [(a, c1, c2) for a in args for c1 in first for c2 in second]
    lines = ['import fpy2 as fp', 'from harness.c10lib import mk_ctx10', '']
    for i, (a, c1, c2) in enumerate(combos):
        lines += [f'A{i} = mk_ctx10({a!r})', f'P{i} = mk_ctx10({c1!r})', f'Q{i} = mk_ctx10({c2!r})', '',
                  '@fp.fpy(ctx=fp.REAL)', f'def s{i}(x):', f'    with P{i}:', '        a = fp.round(x)', '        y = fp.round(a)', '    return y', '',
                  '@fp.fpy(ctx=fp.REAL)', f'def t{i}(x):', f'    with P{i}:', '        a = fp.round(x)', f'    with Q{i}:', '        y = fp.round(a)', '    return y', '']
    try:
        mod = L.load_module(WORKDIR, 'c10_chain', '\n'.join(lines) + '\n')
    except Exception as e:  # noqa
        ck.broken.append(f'chained-rounding module did not load: {type(e).__name__}: {e}')
        return
    n = lowered = 0
    for i, (a, c1, c2) in enumerate(combos):
        A = getattr(mod, f'A{i}')
        fmtA = A.format()
        try:
            members = [A.round(fp.Float.from_int(k)) if a['scale'] == 0 else A.round(fp.Float(c=abs(k), exp=a['scale'], s=k < 0))
                       for k in range(-(2 ** (a['nbits'] - 1)), 2 ** (a['nbits'] - 1))]
        except Exception as e:  # noqa
            ck.broken.append(f'chained roundings: cannot enumerate the argument format: {e}')
            return
        for nm, how in ((f's{i}', A), (f't{i}', A), (f's{i}', fmtA), (f't{i}', fmtA)):
            try:
                # the argument pinned to a context (its values are that context's roundings: never NaN / inf for a
                # fixed-point one) or to the bare format
                mono = monomorphize(getattr(mod, nm), args=[RealType(how)])
            except Exception as e:  # noqa   (a combination fpy2 refuses to specialise is not a case)
                ck.count('chain:monomorphize-refused')
                continue
            base = [L.res_key(L.run_fn(mono, x)) for x in members]
            for t in (L.T_F2F, L.T_SPECIAL, L.T_OVERFLOW, L.T_OVERFLOW_EARLY, L.T_NEGZERO, L.T_RESCALE):
                variants = []
                try:
                    variants.append(('all', L.apply_T(t, mono)))
                except Exception as e:  # noqa   refusal of the whole function: nothing to compare
                    ck.count('chain:refused')
                try:
                    sites = L.sites_T(t, mono)
                    if len(sites) >= 2:
                        variants.append(('second', _apply_at(t, mono, sites[1])))
                except Exception:  # noqa
                    ck.count('chain:refused')
                for where, g in variants:
                    if g is None or g.ast.is_equiv(mono.ast):
                        continue
                    lowered += 1
                    for x, want in zip(members, base):
                        n += 1
                        got = L.res_key(L.run_fn(g, x))
                        if got != want:
                            ck.violation('a lowering applied to the second of two chained roundings changed the result',
                                         {'argument_format': a, 'first_context': c1, 'second_context': c2, 'program': nm[0],
                                          'strategy': t, 'where': where, 'operand': repr(x), 'original': repr(want), 'lowered': repr(got)})
                            break
    ck.evaluations += n
    ck.count('chain: lowered programs (second of two chained roundings, known argument format)', lowered)
    ck.count('chain: operand evaluations', n)


def run(ck):
    thorough = ck.tier == 'thorough'
    ck.trusted += [
        'Coq 8.16.1 kernel; Flocq (generic_format, round_le, round_generic, abs_round_ge/le_generic, FLT/FIX formats)',
        'hand-written Gallina templates coq/Lang/Lowering/Lower.v of fpy2/transform/unfold_*.py, float_to_fixed.py, '
        'rescale_fixed.py (decisions, probes and emitted program shapes); tie = this run: the real strategies are applied '
        'and executed, the extracted checker compares them with the templates',
        'the context model coq/Num/Ctx.v (C01) and its correspondence',
        'extraction (ExtrOcamlBasic only) + OCaml + ocaml/driver.ml',
        'semantics of the FPy operations the lowered programs use under fp.REAL (isnan, isinf, signbit, ==, <, >, copysign, '
        'logb, min, max, multiplication by a power of two) are modelled in Lower.v and validated by execution only',
        'value-class analysis (which branches a rewrite may omit) and format inference (round_is_identity, C14) are exercised '
        'through the chains and through elim_round/insert_round on monomorphized programs, not modelled',
        'Context.infval (the early-check threshold) is modelled (next_away); that it is a format member above maxval is a '
        'hypothesis of early_check_sound, discharged for an example and validated by execution',
    ]
    ck.assumptions += [
        'operands are Float values (dyadic); non-dyadic reals reach a rounding only through an earlier rounding (C02)',
        'stochastic contexts: only refusals and special/zero operands are compared',
        'the sign of a NaN is compared exactly except through rescale_fixed (2^k * NaN is +NaN under fp.REAL); the theorems do not compare it',
        'chain theorem: constructor invariants of the contexts a rewrite emits are hypotheses (chain_ok), shown satisfiable on an example',
    ]
    ok, _ = ck.build_static(['Props/C10.v', 'Cases/C10Cases.v'])
    if ok:
        ck.props('Props/C10.v')
    orc = Oracle(ck, 'c10', 'Cases.C10Cases', 'check_line10')
    if not orc.ok:
        return

    descs = L.enumerate_contexts(thorough)
    lim = os.environ.get('C10_LIMIT')
    if lim:
        a, b = lim.split('/')
        descs = descs[int(a)::int(b)]
    if ck.replay:
        import json
        rp = json.loads(open(ck.replay).read()).get('replay', {})
        if 'ctx' in rp:
            descs = [_undict(rp['ctx'])]
    cap = 400 if thorough else 200
    n = 8
    WORKDIR.mkdir(parents=True, exist_ok=True)
    fx = probe_fixes()
    ck.extra['code_version_switches'] = dict(zip(('fx_wrap', 'fx_zero_bound', 'fx_degenerate'), fx))
    # interleave so that every worker gets a mix of cheap and expensive families
    order = sorted(range(len(descs)), key=lambda i: (i % 89, i))
    descs = [descs[i] for i in order]
    chunks = [(ci, descs[i:i + n], cap, thorough, fx, str(orc.exe)) for ci, i in enumerate(range(0, len(descs), n))]
    pairs = identity_pairs(thorough)
    if lim:
        pairs = pairs[::7]
    ichunks = [(ci, pairs[i:i + 12], str(orc.exe)) for ci, i in enumerate(range(0, len(pairs), 12))]
    ck.log(f'{len(descs)} contexts in {len(chunks)} modules, {len(pairs)} (argument format, context) pairs; '
           f'refusals already present in the code under test: {fx}')
    t0 = time.time()
    with Pool(min(16, os.cpu_count() or 4)) as pool:
        r1 = pool.map_async(work, chunks, chunksize=1)
        r2 = pool.map_async(identity_work, ichunks, chunksize=1)
        results = r1.get() + r2.get()
    ck.log(f'strategies applied, executed and compared with the extracted model in {time.time() - t0:.1f}s')

    for r in results:
        for k, v in r['counts'].items():
            ck.count(k, v)
        for b in r['broken']:
            ck.broken.append(b)
        for what, replay, key in r['viol']:
            ck.violation(what, replay, key=key)
        for s in r['samples']:
            ck.sample(s)
        for h in r['nontriv']:
            ck.nontrivial.add(h)
        ck.evaluations += r['nlines']
    t1 = time.time()
    try:
        chain_stream(ck, thorough)
    except Exception as e:  # noqa
        import traceback
        ck.broken.append('chained-rounding stream crashed: ' + traceback.format_exc()[-500:])
    ck.log(f'chained roundings done in {time.time() - t1:.1f}s')
    ck.checker_cmds.append('build/C10/oracle_c10/oracle < <cases of each worker>  # extracted check_line10')
    ck.rule = ('per context of the enumeration (ten families, small parameters, 8 modes, 4 overflow modes, NaN/inf options, '
               'substitutes incl. zeros/inf/NaN): every k*2^(nmin-3) up to past twice the bound, both zeros, +-inf, +-NaN, far '
               'operands; x {original, 6 single rewrites, every prefix of 3-5 documented chains}; elim_round/insert_round on '
               '19x19 (argument format, context) pairs x every member of the argument format; non-trivial = distinct '
               '(rewrite, context, operand) where the rounding is inexact, overflows, is special or raises')


def _undict(d):
    out = {}
    for k, v in d.items():
        out[k] = tuple(v) if isinstance(v, list) else v
    return out
