"""C20 — library decompositions are exact.

Proof: coq/Lib/EftProofs.v, EftMulProofs.v, EftExecProofs.v, DecompProofs.v
(statements in coq/Props/C20.v), on top of Flocq's Pff2Flocq.

Tie to /repo, redone on every run:
 (A) the bodies of the FPy library functions (eft.*, core.ldexp) are exported
     from the decorated functions' FPy ASTs into the program language of
     coq/Lib/Eft.v (fail-closed) and compiled as build/C20/GenLib.v; for each
     function a per-run lemma `lookup f gen_lib = Ok <proved body>` is checked by
     vm_compute -- that lemma is exactly the hypothesis of the theorems.
 (B) every library function is run on all operand pairs/triples of small
     float formats; the outputs are checked directly against the property
     (exact Fractions) and compared with the regenerated program evaluated by
     Coq on the shared RealFloat rounding model.
"""
import itertools
import multiprocessing
import os
from fractions import Fraction

from ..common import Rng, cz, copt
from ..numlib import err_of, rf_term

MANIFEST = {
    'text': 'Coq proofs (Flocq Pff2Flocq: Fast2Sum, TwoSum, Veltkamp, Dekker, ErrFMA; mult_error_FLT) that the '
            'error-free transformations of fpy2.libraries.eft, interpreted over the reals with a Flocq rounding '
            'operator for every precision and every format with subnormals, return parts whose exact sum is the exact '
            'sum/product/fma under their stated preconditions; ideal_* under any rounding operator; ldexp = one rounding '
            'of the exact power-of-two product; split/modf/frexp recombine exactly (all operand classes). The function '
            'bodies are re-exported from the FPy ASTs in /repo on every run and matched against the proved bodies by '
            'vm_compute; all operand pairs/triples of small formats are run on fpy2, checked with exact Fractions and '
            'compared with the Coq model. Known defects (classic_2sum, classic_2mul, classic_2fma, frexp) are refuted in Coq.',
    'technique': 'machine-checked proof in Coq (Flocq) + regenerated program terms + model/implementation correspondence by vm_compute',
}

HEADER = ('From Coq Require Import ZArith List Bool String.\n'
          'From FpyV Require Import Num.RealFloat Num.Float Num.Out Lib.Eft Lib.Decomp Cases.C20Cases.\n'
          'From Dyn Require Import GenLib.\n'
          'Import ListNotations.\nOpen Scope Z_scope.\nOpen Scope string_scope.\n'
          'Definition chk := check20 gen_lib.\n')

EFT_FUNCS = ['veltkamp_split', 'ideal_2sum', 'fast_2sum', 'classic_2sum', 'priest_2sum', 'ideal_2mul',
             'classic_2mul', 'fast_2mul', 'ideal_fma', 'classic_2fma']
# function -> [(Coq body, known-finding key or None)], first = the proved body
BODIES = {
    'veltkamp_split': [('veltkamp_split_body', None)],
    'ideal_2sum': [('ideal_2sum_body', None)],
    'fast_2sum': [('fast_2sum_body', None)],
    'classic_2sum': [('classic_2sum_body', None), ('classic_2sum_body_bad', 'classic_2sum_bb')],
    'priest_2sum': [('priest_2sum_body', None)],
    'ideal_2mul': [('ideal_2mul_body', None)],
    'classic_2mul': [('classic_2mul_body', None), ('classic_2mul_body_bad', 'classic_2mul_max_p')],
    'fast_2mul': [('fast_2mul_body', None)],
    'ideal_fma': [('ideal_fma_body', None)],
    'classic_2fma': [('classic_2fma_body', None), ('classic_2fma_body_fast', 'classic_2fma_fast2sum_assert')],
    'ldexp': [('ldexp_body', None)],
}
NEAREST = ('RNE', 'RNA')
# who calls whom (callers inherit the suspicion of an unproved callee)
CALLS = {'classic_2mul': ['veltkamp_split'], 'classic_2fma': ['fast_2mul', 'classic_2sum', 'fast_2sum']}


# ---------------------------------------------------------------- exporter (FPy AST -> coq/Lib/Eft.v terms)
class ExportError(Exception):
    pass


def _qs(s):
    if not isinstance(s, str) or not s.isidentifier():
        raise ExportError(f'unexpected identifier {s!r}')
    return f'"{s}"'


class Exporter:
    """Fail-closed: any node outside the modelled fragment raises ExportError."""

    def __init__(self, libs):
        import fpy2
        from fpy2.ast import fpyast as A
        self.A = A
        self.eft, self.core = libs
        self.Function = fpy2.Function
        from fpy2.primitive import Primitive
        self.Primitive = Primitive
        self.known = {}   # id(Function) -> exported name
        self._check_helpers()

    def register(self, name, fn):
        self.known[id(fn)] = name

    def _check_helpers(self):
        """The predicates the model treats as primitives must be what the model says they are."""
        A = self.A
        nar = self.core.isnar.ast
        ok = (len(nar.args) == 1 and len(nar.body.stmts) == 1 and isinstance(nar.body.stmts[0], A.ReturnStmt)
              and isinstance(nar.body.stmts[0].expr, A.Or) and len(nar.body.stmts[0].expr.args) == 2
              and isinstance(nar.body.stmts[0].expr.args[0], A.IsNan) and isinstance(nar.body.stmts[0].expr.args[1], A.IsInf)
              and nar.ctx is None)
        if not ok:
            raise ExportError('core.isnar is no longer `isnan(x) or isinf(x)`')
        isi = self.core.isinteger.ast
        st = isi.body.stmts
        ok = (len(isi.args) == 1 and len(st) == 2 and isinstance(st[0], A.Assign) and isinstance(st[0].expr, A.Call)
              and st[0].expr.fn is self.core.modf and isinstance(st[0].target, A.TupleBinding)
              and isinstance(st[1], A.ReturnStmt) and isinstance(st[1].expr, A.And)
              and isinstance(st[1].expr.args[0], A.IsFinite) and isinstance(st[1].expr.args[1], A.Compare)
              and tuple(o.name for o in st[1].expr.args[1].ops) == ('EQ',) and isi.ctx is None)
        if not ok:
            raise ExportError('core.isinteger is no longer `_, f = modf(x); isfinite(f) and f == 0`')
        fp = self.eft.fp
        if type(fp.REAL).__name__ != 'RealContext':
            raise ExportError('fp.REAL is not a RealContext')
        i = fp.INTEGER
        if not (type(i).__name__ == 'MPFixedContext' and i.nmin == -1 and i.rm.name == 'RTZ'):
            raise ExportError('fp.INTEGER is not MPFixedContext(-1, RTZ)')

    # expressions
    def name(self, ident):
        if type(ident).__name__ not in ('SourceId', 'NamedId'):
            raise ExportError(f'unexpected binder {ident!r}')
        return _qs(str(ident))

    def expr(self, e):
        A = self.A
        t = type(e)
        un = {A.Neg: 'ENeg', A.Abs: 'EAbs', A.Round: 'ERound', A.Ceil: 'ECeil'}
        bi = {A.Add: 'EAdd', A.Sub: 'ESub', A.Mul: 'EMul', A.Div: 'EDiv', A.Pow: 'EPow'}
        if t is A.Var:
            return f'(EVar {self.name(e.name)})'
        if t is A.Integer:
            return f'(EConst {cz(e.val)})'
        if t in un:
            if len(e.args) != 1:
                raise ExportError(f'arity of {e!r}')
            return f'({un[t]} {self.expr(e.args[0])})'
        if t in bi:
            if len(e.args) != 2:
                raise ExportError(f'arity of {e!r}')
            return f'({bi[t]} {self.expr(e.args[0])} {self.expr(e.args[1])})'
        if t is A.Fma:
            if len(e.args) != 3:
                raise ExportError(f'arity of {e!r}')
            return '(EFma ' + ' '.join(self.expr(a) for a in e.args) + ')'
        if t is A.Call and e.fn is self.core.max_p and not e.args and not e.kwargs:
            return 'EMaxP'
        raise ExportError(f'expression outside the modelled fragment: {type(e).__name__}: {e!r}'[:300])

    def cond(self, e):
        A = self.A
        t = type(e)
        if t is A.Compare:
            if len(e.ops) != 1 or len(e.args) != 2:
                raise ExportError('chained comparison')
            c = {'LT': 'CLt', 'LE': 'CLe', 'GT': 'CGt', 'GE': 'CGe', 'EQ': 'CEq', 'NE': 'CNe'}[e.ops[0].name]
            return f'({c} {self.expr(e.args[0])} {self.expr(e.args[1])})'
        if t is A.Or:
            parts = [self.cond(a) for a in e.args]
            out = parts[-1]
            for p in reversed(parts[:-1]):
                out = f'(COr {p} {out})'
            return out
        if t is A.Call and not e.kwargs and len(e.args) == 1:
            if e.fn is self.core.isnar:
                return f'(CIsNar {self.expr(e.args[0])})'
            if e.fn is self.core.isinteger:
                return f'(CIsInt {self.expr(e.args[0])})'
        raise ExportError(f'condition outside the modelled fragment: {type(e).__name__}: {e!r}'[:300])

    def targets(self, tg):
        A = self.A
        if isinstance(tg, A.TupleBinding):
            return [self.name(x) for x in tg.elts]
        return [self.name(tg)]

    def stmt(self, s):
        A = self.A
        t = type(s)
        if t is A.Assign:
            xs = self.targets(s.target)
            e = s.expr
            if isinstance(e, A.Call) and isinstance(e.fn, self.Function):
                if id(e.fn) not in self.known or e.kwargs:
                    raise ExportError(f'call to a function outside the exported library: {getattr(e.fn, "name", e.fn)!r}')
                args = '; '.join(self.expr(a) for a in e.args)
                return f'SCall [{"; ".join(xs)}] "{self.known[id(e.fn)]}" [{args}]'
            if isinstance(e, A.TupleExpr):
                es = [self.expr(a) for a in e.elts]
            else:
                es = [self.expr(e)]
            if len(es) != len(xs):
                raise ExportError('tuple assignment of different lengths')
            return f'SAssign [{"; ".join(xs)}] [{"; ".join(es)}]'
        if t is A.ContextStmt:
            if type(s.target).__name__ != 'UnderscoreId':
                raise ExportError('`with ... as name`')
            c = s.ctx
            if not (isinstance(c, A.Attribute) and isinstance(c.value, A.Var) and str(c.value.name) == 'fp'
                    and c.attr in ('REAL', 'INTEGER')):
                raise ExportError(f'context outside the modelled fragment: {c!r}')
            return f'SWith {"CReal" if c.attr == "REAL" else "CInt"} {self.block(s.body.stmts)}'
        if t is A.If1Stmt:
            return f'SIf {self.cond(s.cond)} {self.block(s.body.stmts)}'
        if t is A.AssertStmt:
            return f'SAssert {self.cond(s.test)}'
        raise ExportError(f'statement outside the modelled fragment: {type(s).__name__}')

    def block(self, stmts):
        return '[' + ';\n      '.join(self.stmt(s) for s in stmts) + ']'

    def function(self, fn):
        A = self.A
        d = fn.ast
        if d.ctx is not None:
            raise ExportError(f'{d.name}: has an overriding context')
        if d.free_vars - {x for x in d.free_vars if str(x) in ('fp', 'core') or str(x) in EFT_FUNCS or str(x) == 'isinteger'}:
            raise ExportError(f'{d.name}: unexpected free variables {d.free_vars}')
        params = [self.name(a.name) for a in d.args]
        st = list(d.body.stmts)
        if not st or not isinstance(st[-1], A.ReturnStmt):
            raise ExportError(f'{d.name}: does not end in a return')
        r = st[-1].expr
        rets = [self.expr(x) for x in r.elts] if isinstance(r, A.TupleExpr) else [self.expr(r)]
        for s in st[:-1]:
            if isinstance(s, A.ReturnStmt):
                raise ExportError(f'{d.name}: early return')
        return f'FN [{"; ".join(params)}]\n     {self.block(st[:-1])}\n     [{"; ".join(rets)}]'


def export_library():
    """Returns (text of GenLib.v, {function: why it could not be exported}).  A function
    outside the modelled fragment is left out of gen_lib (as is every function that calls
    it); a failure of the helpers the model treats as primitives raises ExportError."""
    from fpy2.libraries import core, eft
    ex = Exporter((eft, core))
    fns = [(n, getattr(eft, n)) for n in EFT_FUNCS] + [('ldexp', core.ldexp)]
    out = ['(* REGENERATED from fpy2/libraries/eft.py and core.py by harness/props/c20.py -- do not edit *)',
           'From Coq Require Import ZArith List Bool String.',
           'From FpyV Require Import Num.RealFloat Lib.Eft.',
           'Import ListNotations.', 'Open Scope Z_scope.', 'Open Scope string_scope.', '']
    done, failed = [], {}
    for n, f in fns:      # callees come before their callers in this order
        try:
            if not isinstance(f, ex.Function) or f.ast.name != n:
                raise ExportError(f'{n} is not an FPy function of that name')
            out.append(f'Definition gen_{n} : fn :=\n  {ex.function(f)}.\n')
            ex.register(n, f)
            done.append(n)
        except ExportError as e:
            failed[n] = str(e)
    out.append('Definition gen_lib : prog :=\n  [' + ';\n   '.join(f'("{n}", gen_{n})' for n in done) + '].')
    return '\n'.join(out) + '\n', failed


# ---------------------------------------------------------------- the Python primitives: source fingerprints
PRIM_SHA = {'split': '610995c16fb90de6', 'modf': '3ef3e8925d682280', 'frexp': 'b647c436d7109cb9'}   # canonical ast.dump, sha256/16


def _prim_ast(prim):
    import ast
    import inspect
    import textwrap
    t = ast.parse(textwrap.dedent(inspect.getsource(prim.func))).body[0]
    t.decorator_list = []
    if (t.body and isinstance(t.body[0], ast.Expr) and isinstance(getattr(t.body[0], 'value', None), ast.Constant)
            and isinstance(t.body[0].value.value, str)):
        t.body = t.body[1:]
    return t


def primitive_fingerprints():
    """Returns ({name: sha}, (fv_normalize, fv_exact_e)).  frexp is brought to a
    canonical form first: the two details the Coq model is parametrised by
    (a leading `x = x.normalize()` in the finite arm; `exact=True` on the
    rounding of the exponent) are recorded and removed."""
    import ast
    import hashlib
    from fpy2.libraries import core
    out = {}
    for n in ('split', 'modf'):
        out[n] = hashlib.sha256(ast.dump(_prim_ast(getattr(core, n))).encode()).hexdigest()[:16]
    t = _prim_ast(core.frexp)
    try:
        fin = t.body[0].orelse[0].orelse[0].orelse
    except (AttributeError, IndexError):
        raise ExportError('core.frexp no longer is an if/elif/elif/else ladder')
    norm = False
    if fin and ast.dump(fin[0]) == ast.dump(ast.parse('x = x.normalize()').body[0]):
        norm = True
        del fin[0]
    exact_e = None
    for st in fin:
        if (isinstance(st, ast.Assign) and len(st.targets) == 1 and isinstance(st.targets[0], ast.Name) and st.targets[0].id == 'e'
                and isinstance(st.value, ast.Call) and ast.dump(st.value.func) == ast.dump(ast.parse('ctx.round').body[0].value)):
            kws = {k.arg: ast.dump(k.value) for k in st.value.keywords}
            if kws == {}:
                exact_e = False
            elif kws == {'exact': ast.dump(ast.Constant(True))}:
                exact_e = True
                st.value.keywords = []
            else:
                raise ExportError('core.frexp: unexpected keywords on the rounding of the exponent')
    if exact_e is None:
        raise ExportError('core.frexp: no `e = ctx.round(...)` in the finite arm')
    out['frexp'] = hashlib.sha256(ast.dump(t).encode()).hexdigest()[:16]
    return out, (norm, exact_e)


# ---------------------------------------------------------------- formats and operands
def rm_of(name):
    from fpy2 import RM
    return getattr(RM, name)


def make_ctx(desc):
    from fpy2 import MPFloatContext, MPSFloatContext
    kind, p, emin, rm = desc
    if kind == 'mp':
        return MPFloatContext(p, rm_of(rm))
    return MPSFloatContext(p, emin, rm_of(rm))


def fc_term(desc):
    kind, p, emin, rm = desc
    n = None if kind == 'mp' else emin - p
    return f'(FC {cz(p)} {copt(n)} {rm})'


def fmt_values(kind, p, emin, lo=-2, hi=2):
    """All finite values (s, exp, c) of the format in binades lo..hi, subnormals included for 'mps'."""
    vals = [(False, 0, 0)]
    for e in range(lo, hi + 1):
        for c in range(1 << (p - 1), 1 << p):
            vals.append((False, e - p + 1, c))
    if kind == 'mps':
        for c in range(1, 1 << (p - 1)):
            vals.append((False, emin - p + 1, c))
    vals += [(True, e, c) for (_, e, c) in vals if c]
    return vals


def frac(v):
    s, e, c = v
    q = Fraction(c) * Fraction(2) ** e
    return -q if s else q


def fits(q, digits, expmin=None):
    """|q| = m * 2^e with m < 2^digits (and e >= expmin)."""
    if q == 0:
        return True
    n, d = abs(q.numerator), q.denominator
    if d & (d - 1):
        return False
    e = -(d.bit_length() - 1)
    while n % 2 == 0:
        n //= 2
        e += 1
    if expmin is not None and e < expmin:
        return False
    if expmin is not None:
        # may use a smaller exponent: m * 2^(e - expmin) must still fit
        return n.bit_length() <= digits
    return n.bit_length() <= digits


# ---------------------------------------------------------------- worker: run fpy2 and check the property directly
_W = {}
_ARGSETS = []      # operand lists, registered before the worker pool forks (shared copy-on-write)


def reg_args(argl):
    _ARGSETS.append(argl)
    return len(_ARGSETS) - 1


def _winit():
    from fpy2 import Float
    from fpy2.libraries import core, eft
    _W['Float'] = Float
    _W['eft'] = eft
    _W['core'] = core


def _mkfloat(v):
    return _W['Float'](s=v[0], exp=v[1], c=v[2])


def _outcome(f):
    try:
        r = f()
    except Exception as e:  # noqa
        return ('err', err_of(e), type(e).__name__)
    if not isinstance(r, tuple):
        r = (r,)
    vs = []
    for x in r:
        if x.isnan or x.isinf:
            return ('nar', repr(x))
        vs.append((bool(x.s), int(x.exp), int(x.c)))
    return ('ok', tuple(vs))


def direct_check(fname, desc, args, out):
    """Property C20 stated directly on the implementation's answer.
    Returns 'ok', 'na' (outside the stated preconditions) or a failure text."""
    kind, p, emin, rm = desc
    expmin = None if kind == 'mp' else emin - p + 1
    near = rm in NEAREST
    qs = [frac(a) for a in args]

    def no_underflow(prod, k):
        return expmin is None or prod == 0 or abs(prod) >= Fraction(2) ** (expmin + k)

    if fname in ('ideal_2sum', 'fast_2sum', 'classic_2sum', 'priest_2sum'):
        want = qs[0] + qs[1]
    elif fname in ('ideal_2mul', 'classic_2mul', 'fast_2mul'):
        want = qs[0] * qs[1]
    elif fname in ('ideal_fma', 'classic_2fma'):
        want = qs[0] * qs[1] + qs[2]
    else:
        want = None
    # preconditions
    if fname == 'fast_2sum':
        if not near:
            return 'na'
        if abs(qs[0]) < abs(qs[1]):
            return 'ok' if out[0] == 'err' and out[2] == 'AssertionError' else 'fast_2sum accepted |a| < |b|'
    elif fname == 'classic_2sum':
        if not near:
            return 'na'
    elif fname == 'fast_2mul':
        if not no_underflow(want, 2 * p - 1):
            return 'na'
    elif fname == 'classic_2mul':
        if not near or p < 4 or not no_underflow(want, 2 * p - 1):
            return 'na'
    elif fname == 'classic_2fma':
        if not near or p < 3 or not no_underflow(qs[0] * qs[1], 4 * p - 3) or not no_underflow(qs[2], 2 * p):
            return 'na'
    elif fname == 'veltkamp_split':
        s = qs[1]
        if not near or s.denominator != 1 or not (2 <= s <= p - 2) or p < 3:
            return 'na'
    elif fname == 'ldexp':
        if qs[1].denominator != 1:
            return 'ok' if out[0] == 'err' and out[2] == 'AssertionError' else 'ldexp accepted a non-integer n'
    if out[0] != 'ok':
        return f'{fname} raised {out[2]}' if out[0] == 'err' else f'{fname} returned a non-finite value {out[1]}'
    res = [frac(v) for v in out[1]]
    if fname == 'veltkamp_split':
        s = int(qs[1])
        if res[0] + res[1] != qs[0]:
            return 'veltkamp_split: hi + lo != x'
        if not fits(res[1], s, expmin):
            return 'veltkamp_split: lo does not fit in s digits'
        if not fits(res[0], p - s, expmin):
            return 'veltkamp_split: hi does not fit in p - s digits'
        return 'ok'
    if fname == 'ldexp':
        return 'ok'   # compared with the single rounding by the caller
    if sum(res) != want:
        return f'{fname}: parts sum to {sum(res)}, exact result is {want}'
    return 'ok'


def _work(job):
    """job = (desc, fname, id of an operand list registered in _ARGSETS before the fork,
    slice bounds, index of the first case, Coq stride).  Returns a summary: counts, hashes of the non-trivial cases, failures by outcome
    class (count + a few examples), and the cases selected for the Coq comparison
    (every `stride`-th case by global index and the first two of every
    (verdict, outcome) class of this job)."""
    desc, fname, sid, lo, hi, base, stride = job
    argl = _ARGSETS[sid][lo:hi]
    ctx = make_ctx(desc)
    eft, core = _W['eft'], _W['core']
    fn = core.ldexp if fname == 'ldexp' else getattr(eft, fname)
    counts, nontriv, fails, terms, nar, seen = {}, [], {}, [], [], {}
    fct = fc_term(desc)
    for i, args in enumerate(argl):
        fl = [_mkfloat(a) for a in args]
        out = _outcome(lambda: fn(*fl, ctx=ctx))
        verdict = direct_check(fname, desc, args, out)
        if fname == 'ldexp' and out[0] == 'ok' and frac(args[1]).denominator == 1:
            # one rounding of the exact product x * 2^n
            x, n = args
            k = int(frac(n))
            once = ctx.round(_W['Float'](s=x[0], exp=x[1] + k, c=x[2]))
            if once.isnan or once.isinf or frac((once.s, once.exp, once.c)) != frac(out[1][0]):
                verdict = 'ldexp: not the exact product rounded once'
        vc = verdict if verdict in ('ok', 'na') else 'FAIL'
        counts[vc] = counts.get(vc, 0) + 1
        if verdict == 'ok' and out[0] == 'ok' and any(v[2] for v in out[1][1:]):
            nontriv.append(hash((fname, desc, args)))      # a non-zero error term that the property constrains
        ocls = (out[0], out[2] if out[0] == 'err' else None)
        if vc == 'FAIL':
            f = fails.setdefault(ocls, [0, []])
            f[0] += 1
            if len(f[1]) < 5:
                f[1].append((args, out, verdict))
        t = out_term(out)
        if t is None:
            nar.append((args, out))
            continue
        cls = (vc, ocls)
        seen[cls] = seen.get(cls, 0) + 1
        if (base + i) % stride == 0 or seen[cls] <= 2:
            a = '; '.join(rf_term(*x) for x in args)
            terms.append((f'(KEft {fct} "{fname}" [{a}], {t})', args, out))
    return {'n': len(argl), 'counts': counts, 'nontriv': nontriv, 'fails': fails, 'terms': terms, 'nar': nar}


def out_term(out):
    if out[0] == 'ok':
        return '(OList [' + '; '.join(f'(ORf {rf_term(*v)})' for v in out[1]) + '])'
    if out[0] == 'err':
        return f'(OErr {out[1]})'
    return None



def coq_eval_z(ck, header, case_type, cases, check_fn, chunk=3000, timeout=3000, jobs=16, tag='c20'):
    """Like Check.coq_eval_mismatches, but case indices are Z (binary) instead of
    nat (unary): with > 10^5 cases unary literals dominate the elaboration time."""
    import re
    from ..common import COQ, sh
    shards = []
    for si in range(0, len(cases), chunk):
        part = cases[si:si + chunk]
        name = f'{tag}_{si // chunk:04d}'
        body = ';\n'.join(f'({si + j}%Z, {c})' for j, c in enumerate(part))
        text = (header + '\n'
                f'Definition cases : list (Z * ({case_type})) := [\n{body}\n].\n'
                f'Definition bad := map fst (filter (fun ic => negb ({check_fn} (snd ic))) cases).\n'
                'Eval vm_compute in bad.\n')
        (ck.dir / f'{name}.v').write_text(text)
        shards.append(name)
    if not shards:
        return [], None
    cmd = (f"xargs -P{jobs} -I{{}} sh -c 'timeout {timeout} coqc -Q {COQ} FpyV -Q . Dyn {{}}.v > {{}}.out 2>&1 || echo FAIL >> {{}}.out'")
    sh(cmd, cwd=ck.dir, input='\n'.join(shards), timeout=timeout * (len(shards) // jobs + 1) + 60)
    # a shard that produced neither an answer nor a Coq error was killed (overloaded machine): once more, fewer at a time
    again = [n for n in shards if 'Error' not in (ck.dir / f'{n}.out').read_text() and 'list Z' not in (ck.dir / f'{n}.out').read_text()]
    if again:
        sh(cmd.replace(f'-P{jobs}', '-P4'), cwd=ck.dir, input='\n'.join(again), timeout=timeout * (len(again) // 4 + 1) + 60)
    bad, err = [], None
    for name in shards:
        out = (ck.dir / f'{name}.out').read_text()
        m = re.search(r'=\s*\[(.*?)\]\s*:\s*list Z', out, re.S)
        if 'FAIL' in out or not m:
            err = (err or '') + f'{name}: {out[-500:]}\n'
            continue
        body = m.group(1).strip()
        if body:
            bad += [int(x.replace('%Z', '').strip()) for x in body.split(';')]
    return sorted(bad), err


# ---------------------------------------------------------------- reporting helper
_SEEN = {}


def report(ck, what, replay, key=None, cap=5):
    """ck.violation, but at most `cap` replay files per kind of failure (known findings are only counted)."""
    if key is not None and key in ck.known:
        return ck.violation(what, replay, key=key)
    _SEEN[what] = _SEEN.get(what, 0) + 1
    if _SEEN[what] <= cap:
        return ck.violation(what, replay, key=key)
    ck.count('further failing inputs not written as replay files: ' + what)
    return True


# ---------------------------------------------------------------- the check
def match_bodies(ck):
    """(A) regenerate the library program from /repo and match every body against the
    proved (or known-defective) bodies of coq/Lib/Eft.v.  Returns (have_lib, recognised, exported)."""
    recognised = {}     # fname -> (body name, key)
    failed = {}
    try:
        text, failed = export_library()
        for n, why in failed.items():
            ck.broken.append(f'exporter: {n}: {why}'[:400])
    except ExportError as e:
        ck.broken.append(f'exporter: {e}')
        text = None
    except Exception as e:  # noqa  (import failure etc.)
        ck.broken.append(f'exporter crashed: {type(e).__name__}: {e}')
        text = None
    have_lib = False
    if text is not None:
        have_lib, out = ck.dyn_theory('GenLib', text=text, timeout=2400)
    if have_lib:
        hdr = ('From Coq Require Import ZArith List Bool String.\n'
               'From FpyV Require Import Num.RealFloat Lib.Eft.\nFrom Dyn Require Import GenLib.\n'
               'Open Scope string_scope.\n')
        # step 1 (dispatch only, proves nothing): which recognised body does each regenerated body equal?
        probe = hdr + ('Ltac probe n t := first [ assert t by (vm_compute; reflexivity); idtac "BODY-IS" n | idtac "BODY-ISNOT" n ].\n'
                       'Goal True.\n')
        for fname, cands in BODIES.items():
            if fname in failed:
                continue
            for body, _ in cands:
                probe += f'  probe "{fname}:{body}" (lookup "{fname}" gen_lib = Ok {body}).\n'
        probe += '  exact I.\nQed.\n'
        def dyn_retry(name, text):
            # a run that ends without success and without a Coq error was killed by the timeout
            # (overloaded machine): try once more with twice the time
            okx, outx = ck.coqc_dyn(name, text=text, timeout=1800)
            if not okx and 'Error' not in outx:
                okx, outx = ck.coqc_dyn(name, text=text, timeout=3600)
            return okx, outx

        okp, outp = dyn_retry('BodyProbe', probe)
        import re as _re
        isb = set(_re.findall(r'BODY-IS "([^"]+)"', outp))
        if not okp:
            ck.broken.append('body probe did not compile: ' + outp[-400:])
        # step 2: the lemmas themselves (Leibniz equality, checked by the kernel)
        lem = hdr
        for fname, cands in BODIES.items():
            if fname in failed:
                continue
            hit = [(b, k) for (b, k) in cands if f'{fname}:{b}' in isb]
            if hit:
                recognised[fname] = hit[0]
                lem += (f'Lemma gen_{fname}_is_{hit[0][0]} : lookup "{fname}" gen_lib = Ok {hit[0][0]}.\n'
                        'Proof. vm_compute. reflexivity. Qed.\n')
            elif okp:
                ck.broken.append(f'body of {fname} in /repo matches no proved body (lookup "{fname}" gen_lib = Ok {cands[0][0]} fails): '
                                 f'the C20 theorems no longer apply to it')
        okl, outl = dyn_retry('BodyLemmas', lem)
        ck.checker_cmds.append('coqc -Q coq FpyV -Q . Dyn build/C20/BodyLemmas.v')
        ck.obligations += len(BODIES)       # one per library function: its body is the proved one
        if okl:
            ck.discharged += sum(1 for f, (b, k) in recognised.items() if k is None)
        else:
            ck.broken.append('body lemmas did not compile: ' + outl[-400:])
            recognised.clear()
        ck.extra['bodies'] = {k: v[0] for k, v in recognised.items()}
        ck.log('bodies recognised as known-defective: ' + (', '.join(f'{k}={v[0]}' for k, v in recognised.items() if v[1]) or 'none'))

    return have_lib, recognised, set(BODIES) - set(failed)


def run(ck):
    thorough = ck.tier == 'thorough'
    ck.trusted += [
        'Coq 8.16.1 kernel (coqc); vm_compute for the per-run body lemmas, the refutation witnesses and the correspondence cases; no native_compute',
        'Flocq 4.1 (Core, Pff2Flocq: Fast2Sum_correct, TwoSum_correct, Veltkamp, Veltkamp_tail, Dekker, ErrFMA_correct_simpl, Pff.MDekker; mult_error_FLT, plus_error) as the theory of rounding',
        'exporter harness/props/c20.py (FPy AST of the decorated library functions -> coq/Lib/Eft.v program terms, fail-closed) and the meaning given to those terms by Eft.run/eval (a hand-written interpreter of the FPy fragment: rounded + - * / fma neg abs pow ceil round, with REAL/INTEGER blocks, if, assert, calls) -- tied to the fpy2 interpreter by the correspondence run',
        'hand-written models of the Python primitives core.split/modf/frexp (coq/Lib/Decomp.v) and of MPFloatContext/MPSFloatContext.round (Decomp.fl_round over the shared RealFloat.round model), tied by the correspondence run',
        'CPython Fraction arithmetic for the direct statement of the property on the implementation outputs',
    ]
    ck.assumptions += [
        'FPy rounding under a float context = Flocq `round radix2 (FLT_exp emin prec) rnd` (theorem N1 of property C01; here only tested through the correspondence with the RealFloat.round model)',
        'MPFloatContext (unbounded exponent) is covered by the FLT theorems with emin chosen below every exponent that occurs',
        'operands are finite (property excludes overflow); NaN/inf operands of the EFTs are outside the model',
        'priest_2sum: proof for round-to-nearest only; directed modes are covered by exhaustive small-format runs only',
        'classic_2fma: proof for RNE with Flocq\'s simplified no-underflow hypotheses; RNA covered by exhaustive small-format runs',
    ]
    ok, _ = ck.build_static(['Props/C20.v', 'Cases/C20Cases.v'])
    if ok:
        ck.props('Props/C20.v')

    # ---------------- (A) regenerate the library program and match bodies
    have_lib, recognised, exported = match_bodies(ck)
    # functions whose body in /repo is not (known to be) a proved or known-defective body, and
    # their callers: the theorems say nothing about them, so the failing-input search below is
    # widened for exactly these (more precisions, odd ones included)
    suspects = {f for f in BODIES if f not in recognised}
    suspects |= {f for f, cs in CALLS.items() if suspects & set(cs)}
    if suspects:
        ck.log('no theorem applies to: ' + ', '.join(sorted(suspects)) + ' -- widening the failing-input search for them')
    ck.extra['suspect_functions'] = sorted(suspects)

    def key_for(fname, out, verdict):
        """Known-finding key for a failure of exactly a recognised defective body."""
        b = recognised.get(fname, (None, None))
        if fname == 'classic_2sum' and b[1] == 'classic_2sum_bb' and out[0] == 'ok':
            return 'classic_2sum_bb'
        if fname == 'classic_2mul' and b[1] == 'classic_2mul_max_p' and out[0] == 'err' and out[2] == 'ValueError':
            return 'classic_2mul_max_p'
        if fname == 'classic_2fma':
            if recognised.get('classic_2sum', (None, None))[1] == 'classic_2sum_bb':
                return 'classic_2sum_bb'          # built on the defective two-sum
            if b[1] == 'classic_2fma_fast2sum_assert' and out[0] == 'err' and out[2] == 'AssertionError':
                return 'classic_2fma_fast2sum_assert'
        return None

    # ---------------- replay the Coq refutation witnesses on the implementation
    _winit()
    from fpy2 import Float, MPFloatContext, RM
    from fpy2.libraries import core, eft

    def q(m, e):
        return Float(s=m < 0, exp=e, c=abs(m))

    if recognised.get('classic_2sum', (0, 0))[1] == 'classic_2sum_bb':
        r = _outcome(lambda: eft.classic_2sum(q(1, -3), q(3, -4), ctx=MPFloatContext(2, RM.RNE)))
        if r[0] == 'ok' and sum(frac(v) for v in r[1]) != Fraction(5, 16):
            ck.violation('eft.classic_2sum: s + t != a + b (theorem C20_classic_2sum_pinned_refuted, witness replayed on fpy2)',
                         {'ctx': 'MPFloatContext(2, RNE)', 'a': '1/8', 'b': '3/16', 'got': [str(frac(v)) for v in r[1]]},
                         key='classic_2sum_bb')
        else:
            ck.broken.append(f'Coq witness of classic_2sum_pinned_refuted does not reproduce on fpy2: {r}')
    if recognised.get('classic_2mul', (0, 0))[1] == 'classic_2mul_max_p':
        r = _outcome(lambda: eft.classic_2mul(q(3, 0), q(5, 0), ctx=MPFloatContext(4, RM.RNE)))
        if r[0] == 'err' and r[2] == 'ValueError':
            ck.violation('eft.classic_2mul raises ValueError on every call (theorem C20_classic_2mul_pinned_refuted, witness replayed on fpy2)',
                         {'ctx': 'MPFloatContext(4, RNE)', 'a': '3', 'b': '5', 'got': r}, key='classic_2mul_max_p')
        else:
            ck.broken.append(f'Coq witness of classic_2mul_pinned_refuted does not reproduce on fpy2: {r}')
    if recognised.get('classic_2fma', (0, 0))[1] == 'classic_2fma_fast2sum_assert':
        r = _outcome(lambda: eft.classic_2fma(q(-11, -2), q(-15, 0), q(-36, 0), ctx=MPFloatContext(4, RM.RNE)))
        if r[0] == 'err' and r[2] == 'AssertionError':
            ck.violation('eft.classic_2fma raises AssertionError although its preconditions hold: fast_2sum(g, a2) with |g| < |a2| '
                         '(theorem C20_classic_2fma_pinned_refuted, witness replayed on fpy2)',
                         {'ctx': 'MPFloatContext(4, RNE)', 'a': '-11/4', 'b': '-15', 'c': '-36', 'got': r},
                         key='classic_2fma_fast2sum_assert')
        else:
            ck.broken.append(f'Coq witness of classic_2fma_pinned_refuted does not reproduce on fpy2: {r}')

    # ---------------- --replay FILE: re-run the single stored EFT case on the implementation
    if ck.replay:
        import json
        rp = json.loads(open(ck.replay).read()).get('replay', {})
        if 'function' in rp and 'args_encoded' in rp:
            desc = tuple(rp['ctx'])
            args = tuple(tuple(a) for a in rp['args_encoded'])
            r = _work((desc, rp['function'], reg_args([args]), 0, 1, 0, 1))
            ck.evaluations += 1
            for ocls, (n, ex) in r['fails'].items():
                a, out, verdict = ex[0]
                ck.violation(f'property C20 violated by the implementation: {verdict}',
                             {'function': rp['function'], 'ctx': desc, 'args': [str(frac(x)) for x in a],
                              'args_encoded': a, 'got': out}, key=key_for(rp['function'], out, verdict))
            ck.log(f'replayed {rp["function"]}{[str(frac(a)) for a in args]} under {desc}: {r["counts"]}')
            return
        ck.log('replay file has no re-runnable EFT case; running the full check')

    # ---------------- (B) correspondence: EFTs on all operand pairs / triples of small formats
    rng = Rng(ck.seed, 'c20')
    jobs = []

    def add_jobs(desc, fname, sid, chunk=400):
        n = len(_ARGSETS[sid])
        for i in range(0, n, chunk):
            jobs.append((desc, fname, sid, i, min(n, i + chunk)))

    pair_fns_near = ['fast_2sum', 'classic_2sum', 'classic_2mul']
    pair_fns_any = ['ideal_2sum', 'priest_2sum', 'ideal_2mul', 'fast_2mul']
    any_modes = ['RNE', 'RNA', 'RTP'] + (['RTZ', 'RTN', 'RAZ', 'RTO', 'RTE'] if thorough else [])
    formats = [('mp', 2, None), ('mp', 3, None), ('mps', 2, -2), ('mps', 3, -2), ('mp', 4, None)]
    if thorough:
        formats += [('mps', 4, -2), ('mp', 5, None), ('mps', 5, -2)]
    for kind, p, emin in formats:
        vals = fmt_values(kind, p, emin)
        big = len(vals) > 60 and not thorough
        if big:
            bs = vals[rng.randrange(3)::3]
        pairs = reg_args([(a, b) for a in vals for b in (bs if big else vals)])
        velt = reg_args([(a, (False, 0, s)) for a in vals for s in range(1, p + 1)])
        ldx = reg_args([(a, (n < 0, 0, abs(n))) for a in vals for n in (-7, -3, -1, 0, 1, 2, 5)]
                       + [(vals[1], (False, -1, 1)), (vals[2], (True, -2, 3))])
        for rm in NEAREST:
            for f in pair_fns_near:
                add_jobs((kind, p, emin, rm), f, pairs)
        for rm in any_modes if not big else ('RNE', 'RTZ'):
            for f in pair_fns_any:
                add_jobs((kind, p, emin, rm), f, pairs)
        # veltkamp_split: every value, every split point (valid and invalid)
        for rm in NEAREST:
            add_jobs((kind, p, emin, rm), 'veltkamp_split', velt)
        # ldexp: every value, shifts across the format (incl. into the subnormal range)
        for rm in any_modes:
            add_jobs((kind, p, emin, rm), 'ldexp', ldx)
    # triples: (kind, p, emin, lowest binade, highest binade, exhaustive?)
    tri_formats = [('mp', 3, None, -1, 1, 1), ('mps', 3, -2, -2, 2, 0), ('mp', 4, None, -2, 2, 0), ('mp', 2, None, -2, 2, 0)]
    if thorough:
        tri_formats = [('mp', 3, None, -2, 2, 1), ('mps', 3, -2, -2, 2, 1), ('mp', 2, None, -2, 2, 1), ('mps', 2, -2, -2, 2, 1),
                       ('mp', 4, None, -2, 2, 0), ('mps', 4, -2, -2, 2, 0), ('mp', 5, None, -2, 2, 0)]
    for kind, p, emin, lo, hi, full in tri_formats:
        vals = fmt_values(kind, p, emin, lo, hi)
        if full:
            tr = list(itertools.product(vals, vals, vals if thorough else vals[rng.randrange(2)::2]))
        else:
            n = 40000 if thorough else 3000
            tr = [(rng.choice(vals), rng.choice(vals), rng.choice(vals)) for _ in range(n)]
        tr_id = reg_args(tr)
        tr3_id = tr_id if thorough or not full else reg_args(tr[::3])
        for rm in NEAREST:
            add_jobs((kind, p, emin, rm), 'classic_2fma', tr_id)
        for rm in (['RNE', 'RTP'] if not thorough else any_modes[:4]):
            add_jobs((kind, p, emin, rm), 'ideal_fma', tr3_id)

    # ---- widened search for the functions no theorem applies to (normally none)
    if suspects:
        def window(kind, p, emin, lo, hi, cap):
            vals = fmt_values(kind, p, emin, lo, hi)
            step = max(1, len(vals) ** 2 // cap)
            return vals, vals[rng.randrange(step)::step]

        for f in sorted(suspects):
            if f in ('classic_2mul', 'veltkamp_split'):
                # splitting-based: the split point depends on the parity of p -- 4..7, two odd precisions
                wide = [('mp', 4, None, 0, 1), ('mp', 5, None, 0, 1), ('mp', 6, None, 0, 1), ('mp', 7, None, 0, 1), ('mps', 5, -12, 0, 1)]
            else:
                wide = [('mp', 5, None, -2, 2), ('mps', 5, -2, -2, 2), ('mp', 6, None, -1, 1), ('mp', 7, None, 0, 1)]
            modes = NEAREST if f in pair_fns_near + ['classic_2fma', 'veltkamp_split'] else ('RNE', 'RNA', 'RTP', 'RTZ')
            for kind, p, emin, lo, hi in wide:
                if f == 'veltkamp_split':
                    vals = fmt_values(kind, p, emin, lo, hi)
                    sid = reg_args([(a, (False, 0, sp)) for a in vals for sp in range(1, p + 1)])
                elif f == 'ldexp':
                    vals = fmt_values(kind, p, emin, lo, hi)
                    sid = reg_args([(a, (n < 0, 0, abs(n))) for a in vals for n in (-9, -4, -1, 0, 1, 3, 6)])
                elif f in ('ideal_fma', 'classic_2fma'):
                    vals = fmt_values(kind, p, emin, lo, hi)
                    sid = reg_args([(rng.choice(vals), rng.choice(vals), rng.choice(vals)) for _ in range(5000)])
                else:
                    vals, bs = window(kind, p, emin, lo, hi, 8000)
                    sid = reg_args([(a, b) for a in vals for b in bs])
                for rm in modes:
                    add_jobs((kind, p, emin, rm), f, sid)

    total = sum(j[4] - j[3] for j in jobs)
    ck.log(f'{total} library calls in {len(jobs)} jobs')
    coq_budget = 300000 if thorough else 9000
    stride = max(1, -(-total // coq_budget))
    base, jobs2 = 0, []
    for desc, fname, sid, lo_i, hi_i in jobs:
        jobs2.append((desc, fname, sid, lo_i, hi_i, base, stride))
        base += hi_i - lo_i
    nproc = max(1, min(14, (os.cpu_count() or 2) - 2))
    ctxm = multiprocessing.get_context('fork')
    terms, meta = [], []
    fails = {}
    with ctxm.Pool(nproc, initializer=_winit) as pool:
        for (desc, fname, *_), r in zip(jobs2, pool.imap(_work, jobs2, chunksize=1)):
            ck.evaluations += r['n']
            for vc, n in r['counts'].items():
                ck.count(f'{fname}:{vc}', n)
            ck.count(f'ctx:{desc[0]}{desc[1]}:{desc[3]}', r['n'])
            ck.nontrivial.update(r['nontriv'])
            for ocls, (n, ex) in r['fails'].items():
                f = fails.setdefault((fname, ocls), [0, []])
                f[0] += n
                if len(f[1]) < 5:
                    f[1] += [(desc,) + e for e in ex]
            for args, out in r['nar']:
                ck.violation(f'{fname} returned a non-finite value on finite operands of an unbounded-exponent format',
                             {'ctx': desc, 'args': [str(frac(a)) for a in args], 'got': out})
            if have_lib and fname in exported and all(c in exported for c in CALLS.get(fname, [])):
                for t, args, out in r['terms']:
                    terms.append(t)
                    meta.append((desc, fname, args, out))
    ck.log('implementation runs done')
    for (fname, ocls), (n, ex) in sorted(fails.items(), key=lambda kv: str(kv[0])):
        desc, args, out, verdict = ex[0]
        k = key_for(fname, out, verdict)
        if k is not None and k in ck.known:
            for _ in range(n):
                ck.violation(verdict, {}, key=k)
            continue
        for desc, args, out, verdict in ex[:3]:
            ck.violation(f'property C20 violated by the implementation: {verdict}',
                         {'function': fname, 'ctx': desc, 'args': [str(frac(a)) for a in args],
                          'args_encoded': args, 'got': out, 'total_failing_inputs_of_this_kind': n}, key=k)

    # ---------------- decompositions (Python primitives): all small values incl. specials
    variant = None
    try:
        fps, variant = primitive_fingerprints()
        for n, h in fps.items():
            if h != PRIM_SHA[n]:
                ck.broken.append(f'source of core.{n} differs from the source coq/Lib/Decomp.v was transcribed from '
                                 f'(fingerprint {h}, expected {PRIM_SHA[n]}): the model may be stale')
    except ExportError as e:
        ck.broken.append(f'primitive fingerprints: {e}')
    except Exception as e:  # noqa
        ck.broken.append(f'primitive fingerprints crashed: {type(e).__name__}: {e}')
    ck.extra['frexp_variant'] = {'x_normalize': variant[0], 'exponent_exact': variant[1]} if variant else None
    ck.obligations += 1      # the proved frexp theorem applies only to the repaired variant
    if variant == (False, True):
        ck.discharged += 1
    dterms, dmeta = decomposition_cases(ck, thorough, variant or (True, False))
    ck.rule = ('EFTs: all operand pairs (all triples of the 3-digit/3-binade format, sampled triples elsewhere) of MPFloat/MPSFloat formats p in 2..%d, 5 binades, '
               'subnormals, RNE/RNA (+directed modes where the function claims them); non-trivial = distinct '
               '(function, context, operands) within the stated preconditions whose error term is non-zero; '
               'decompositions: all values of the small formats plus zeros, infinities, NaN, with and without an attached context'
               % (5 if thorough else 4))
    ck.exhaustive = True
    for t in terms[:3] + dterms[:3]:
        ck.sample(t)
    if have_lib:
        ck.log(f'{len(terms)} EFT cases + {len(dterms)} decomposition cases to Coq')
        allc = terms + dterms
        bad, err = coq_eval_z(ck, HEADER, 'case20 * out', allc, 'chk', chunk=min(4000, max(500, -(-len(allc) // 16))))
        if err:
            ck.broken.append('correspondence evaluation failed: ' + err[:500])
        allmeta = meta + dmeta
        for i in bad:
            m = allmeta[i]
            report(ck, 'fpy2 and the Coq model of the regenerated library disagree on ' + str(m[1]),
                         {'case': allc[i], 'ctx': m[0], 'note': 'first component: call; second: what fpy2 returned'},
                         key=None)
    else:
        ck.broken.append('no regenerated library: model comparison skipped')


def decomposition_cases(ck, thorough, variant):
    """core.split / modf / frexp on every small value; direct checks + Coq cases."""
    from fpy2 import Float, MPFloatContext, MPSFloatContext, RM
    from fpy2.libraries import core

    def fl_term(x):
        if x.isnan:
            return f'(FNaN {"true" if x.s else "false"})'
        if x.isinf:
            return f'(FInf {"true" if x.s else "false"})'
        return f'(FFin {rf_term(bool(x.s), int(x.exp), int(x.c))})'

    def val(x):
        return frac((x.s, x.exp, x.c))

    def outc(f):
        try:
            a, b = f()
            return ('ok', a, b)
        except Exception as e:  # noqa
            return ('err', err_of(e), type(e).__name__)

    def o_term(o):
        return f'(OPair (OFl {fl_term(o[1])}) (OFl {fl_term(o[2])}))' if o[0] == 'ok' else f'(OErr {o[1]})'

    terms, meta = [], []
    fv = f'(FV {"true" if variant[0] else "false"} {"true" if variant[1] else "false"})'

    def representable(ctx, q):
        try:
            ctx.round(q, exact=True)
            return True
        except ValueError:
            return False

    descs = [('mp', 2, None, 'RNE'), ('mp', 3, None, 'RNE'), ('mps', 3, -2, 'RNE'), ('mp', 4, None, 'RTZ')]
    if thorough:
        descs += [('mps', 4, -3, 'RNA'), ('mp', 5, None, 'RNE')]
    specials = [Float(isnan=True), Float(isnan=True, s=True), Float(isinf=True), Float(isinf=True, s=True),
                Float(s=False, exp=0, c=0), Float(s=True, exp=0, c=0), Float(s=True, exp=-3, c=0)]
    for desc in descs:
        kind, p, emin, rm = desc
        ctx = make_ctx(desc)
        fct = fc_term(desc)
        # operands: representable ones and a few that need more digits than the context has
        vals = fmt_values(kind, p, emin, -3, 4)
        ops = [Float(s=s, exp=e, c=c) for (s, e, c) in vals] + specials
        ops += [Float(s=False, exp=-2, c=(1 << (p + 1)) + 1), Float(s=True, exp=1, c=(1 << (p + 2)) + 3)]
        # exponents that small contexts cannot represent (5, 9, 11, -5, 37)
        ops += [Float(s=False, exp=5 - p + 1, c=(1 << p) - 1), Float(s=True, exp=9, c=1), Float(s=False, exp=11 - p + 1, c=1 << (p - 1)),
                Float(s=False, exp=-5, c=1), Float(s=False, exp=37, c=1)]
        xctx = f'(Some ({cz(p)}, {copt(None if kind == "mp" else emin - p)}))'
        for x in ops:
            tx = fl_term(x)
            fin = not (x.isnan or x.isinf)
            # ---- split at every digit around the value
            for n in range(-4, 6):
                o = outc(lambda: core.split(x, Float.from_int(n), ctx=ctx))
                ck.evaluations += 1
                ck.count('split')
                terms.append(f'(KSplit {fct} {tx} (FFin {rf_term(n < 0, 0, abs(n))}), {o_term(o)})')
                meta.append((desc, 'core.split', x, o))
                if o[0] == 'ok':
                    hi, lo = o[1], o[2]
                    if fin:
                        bad = (hi.isnan or hi.isinf or lo.isnan or lo.isinf or val(hi) + val(lo) != val(x)
                               or abs(val(lo)) >= Fraction(2) ** (n + 1) or (val(hi) / Fraction(2) ** (n + 1)).denominator != 1)
                        if x.c:
                            ck.nontriv(('split', desc, repr(val(x)), n))
                    elif x.isnan:
                        bad = not (hi.isnan and lo.isnan)
                    else:
                        bad = not (hi.isinf and lo.isinf and hi.s == x.s and lo.s == x.s)
                    if bad:
                        report(ck, 'core.split does not recombine to its operand', {'ctx': desc, 'x': repr(x), 'n': n, 'got': repr(o)})
            o = outc(lambda: core.split(x, Float(s=False, exp=-1, c=1), ctx=ctx))
            ck.evaluations += 1
            terms.append(f'(KSplit {fct} {tx} (FFin {rf_term(False, -1, 1)}), {o_term(o)})')
            meta.append((desc, 'core.split', x, o))
            if not (o[0] == 'err' and o[2] == 'ValueError'):
                report(ck, 'core.split accepted a non-integer digit position', {'ctx': desc, 'x': repr(x), 'got': repr(o)})
            # ---- modf
            o = outc(lambda: core.modf(x, ctx=ctx))
            ck.evaluations += 1
            ck.count('modf')
            terms.append(f'(KModf {fct} {tx}, {o_term(o)})')
            meta.append((desc, 'core.modf', x, o))
            if o[0] == 'ok':
                i, f = o[1], o[2]
                if fin:
                    bad = (i.isnan or i.isinf or f.isnan or f.isinf or val(i) + val(f) != val(x) or abs(val(f)) >= 1
                           or val(i).denominator != 1 or i.s != x.s or f.s != x.s)
                    if x.c:
                        ck.nontriv(('modf', desc, repr(val(x))))
                elif x.isnan:
                    bad = not (i.isnan and f.isnan)
                else:
                    bad = not (f.isinf and f.s == x.s and not (i.isnan or i.isinf) and i.c == 0 and i.s == x.s)
                if bad:
                    report(ck, 'core.modf does not recombine to its operand', {'ctx': desc, 'x': repr(x), 'got': repr(o)})
            # ---- frexp: operand without a context, and the same operand carrying `ctx`
            for with_ctx in (False, True):
                if with_ctx:
                    try:
                        xx = ctx.round(x, exact=True)
                    except Exception:  # noqa
                        continue
                    tx2 = fl_term(xx)
                else:
                    xx, tx2 = x, tx
                o = outc(lambda: core.frexp(xx, ctx=ctx))
                ck.evaluations += 1
                ck.count('frexp')
                key = None
                if fin and x.c:
                    ck.nontriv(('frexp', desc, repr(val(x)), with_ctx))
                    ax = abs(val(x))
                    te = ax.numerator.bit_length() - ax.denominator.bit_length()
                    if Fraction(2) ** te > ax:
                        te -= 1
                    if o[0] == 'err':
                        # exactness-checked rounding may refuse a mantissa / exponent the context cannot hold
                        legit = o[2] == 'ValueError' and not (representable(ctx, val(x) / Fraction(2) ** te) and representable(ctx, te))
                        if legit:
                            ck.count('frexp:refused-unrepresentable')
                        else:
                            if variant[0] and not with_ctx and o[2] == 'ValueError':
                                key = 'frexp_no_ctx'
                            report(ck, 'core.frexp raises ValueError for a finite operand that carries no context (x.normalize())'
                                         if key else 'core.frexp raised on a finite operand whose mantissa and exponent are representable',
                                         {'ctx': desc, 'x': repr(x), 'operand_has_ctx': with_ctx, 'got': repr(o)}, key=key)
                    else:
                        m, e = o[1], o[2]
                        good_m = not (m.isnan or m.isinf) and 1 <= abs(val(m)) < 2 and m.s == x.s
                        ev = None if (e.isnan or e.isinf) else val(e)
                        if not good_m or ev is None:
                            report(ck, 'core.frexp: malformed mantissa/exponent', {'ctx': desc, 'x': repr(x), 'got': repr(o)})
                        elif ev.denominator != 1 or val(m) * Fraction(2) ** int(ev) != val(x):
                            # exactly the class: the true exponent is not representable in ctx and was rounded silently
                            inexact = (not variant[1]) and val(m) * Fraction(2) ** te == val(x) and ev != te
                            key = 'frexp_exponent_rounded' if inexact else None
                            report(ck, 'core.frexp rounds the exponent inexactly (no exact=True): m * 2**e != x' if key
                                         else 'core.frexp does not recombine to its operand',
                                         {'ctx': desc, 'x': repr(x), 'operand_has_ctx': with_ctx, 'got': repr(o)}, key=key)
                elif o[0] == 'ok':
                    m, e = o[1], o[2]
                    if x.isnan:
                        bad = not (m.isnan and e.isnan)
                    elif x.isinf:
                        bad = not (m.isinf and m.s == x.s and e.isnan)
                    else:
                        bad = not (not (m.isnan or m.isinf) and m.c == 0 and m.s == x.s and not (e.isnan or e.isinf) and e.c == 0)
                    if bad:
                        report(ck, 'core.frexp: wrong answer for a special operand', {'ctx': desc, 'x': repr(x), 'got': repr(o)})
                else:
                    report(ck, 'core.frexp raised on a special operand', {'ctx': desc, 'x': repr(x), 'got': repr(o)})
                terms.append(f'(KFrexp {fv} {fct} {xctx if with_ctx else "None"} {tx2}, {o_term(o)})')
                meta.append((desc, 'core.frexp', x, o, key))
    return terms, meta
