"""C11 — compiled C++ agrees bit for bit with the interpreter (claimed PARTIAL).

Proof (coq/Backend/Storage.v, StorageProofs.v; statements in coq/Props/C11.v): the
decision logic of the backend -- storage ladder / choose_storage_scalar picks a
machine type that represents every member of the inferred format and is the first
such rung, containment tests are sound, integer sums/differences that fit cannot
wrap, the RM -> FE_* table is right and only IEEE binary32/64 contexts under the
four hardware modes are dispatched natively.

Tie: the ladder and the tables are DATA in /repo: they are regenerated on every
run into build/C11/GenStorage.v and proved equal to the model's (vm_compute); the
storage decisions are run differentially (fpy2 vs model) on many formats.

TESTING (labelled so): real g++ compile-and-run differential over generated
programs x every option combination x argument vectors (harness/c11_diff.py).
"""
import itertools

from ..common import Rng, cb, cz
from .c14 import af_term

MANIFEST = {
    'text': 'PARTIAL. Coq proof of the decision logic of the C++ backend over a model tied to /repo by regenerating the storage '
            'ladder, the RM->FE_* table and the native-context inventory on every run: the chosen machine type represents every '
            'member of the inferred format (first such rung), containment tests are sound, integer +/- that fit cannot wrap, '
            'rounding-mode table correct. NOT proved: g++ code generation, <cmath>, fesetround, hardware, the statement-level '
            'emitter -- these are covered only by testing: a real g++ compile-and-run differential against the interpreter over '
            'generated programs x all option combinations x argument vectors, bitwise comparison.',
    'technique': 'machine-checked proof in Coq (decision logic) + regenerated tables + model/implementation correspondence + '
                 'compile-and-run differential testing with g++',
}

HEADER = ('From Coq Require Import ZArith List Bool.\n'
          'From FpyV Require Import Num.RealFloat Num.Float Analysis.AbsFormat Backend.Storage Cases.C11Cases.\n'
          'Import ListNotations.\nOpen Scope Z_scope.\n')

SCALAR = {'BOOL': 'CBOOL', 'F32': 'CF32', 'F64': 'CF64', 'U8': 'CU8', 'U16': 'CU16', 'U32': 'CU32', 'U64': 'CU64',
          'S8': 'CS8', 'S16': 'CS16', 'S32': 'CS32', 'S64': 'CS64'}
CTYPE = {'BOOL': 'bool', 'F32': 'float', 'F64': 'double', 'U8': 'uint8_t', 'U16': 'uint16_t', 'U32': 'uint32_t', 'U64': 'uint64_t',
         'S8': 'int8_t', 'S16': 'int16_t', 'S32': 'int32_t', 'S64': 'int64_t'}
FE = ['FE_TONEAREST', 'FE_TOWARDZERO', 'FE_UPWARD', 'FE_DOWNWARD']
# the operators a C++ toolchain rounds correctly, and how the backend must spell them (static expectation)
CR_OPS = {'Add': '+', 'Sub': '-', 'Mul': '*', 'Div': '/', 'Neg': '-', 'Sqrt': 'std::sqrt', 'Fma': 'std::fma'}


def gen_theory(fp):
    """regenerate the data of storage.py / emitter.py / target.py as a Coq theory"""
    from fpy2.backend.cpp import storage, emitter, target
    from fpy2.backend.cpp.types import CppScalar
    from fpy2.number.context.ieee754 import IEEEContext
    out = ['(* REGENERATED from /repo on every run of ./check C11 -- do not edit *)',
           'From Coq Require Import ZArith List Bool String.',
           'From FpyV Require Import Num.RealFloat Num.Float Analysis.AbsFormat Backend.Storage.',
           'Import ListNotations.', 'Open Scope Z_scope.', '']
    rungs = '; '.join(f'({SCALAR[t.name]}, {af_term(a)})' for t, a in storage._LADDER)
    out += [f'Definition gen_ladder : list (cppscalar * absfmt) := [{rungs}].',
            'Lemma gen_ladder_ok : gen_ladder = ladder.', 'Proof. vm_compute. reflexivity. Qed.', '']
    fe = '; '.join(f'({rm.name}, {macro})' for rm, macro in emitter._FE_RM_MACRO.items())
    out += [f'Definition gen_fe_table : list (rmode * femode) := [{fe}].',
            'Lemma gen_fe_table_ok : gen_fe_table = fe_table.', 'Proof. vm_compute. reflexivity. Qed.', '']
    out += [f'Definition gen_fp_rms : list rmode := [{"; ".join(rm.name for rm in target._FP_RMS)}].',
            'Lemma gen_fp_rms_ok : gen_fp_rms = fp_rms.', 'Proof. vm_compute. reflexivity. Qed.', '']
    ctxs = target._fp_ctxs()
    bad = [c for c in ctxs if not isinstance(c, IEEEContext)]
    trip = '; '.join(f'({cz(c.es)}, {cz(c.nbits)}, {c.rm.name})' for c in ctxs if isinstance(c, IEEEContext))
    out += [f'Definition gen_fp_ctxs : list (Z * Z * rmode) := [{trip}].',
            'Lemma gen_fp_ctxs_ok : gen_fp_ctxs = fp_ctxs.', 'Proof. vm_compute. reflexivity. Qed.', '']
    # the storage type of every native float context is the float rung of its format
    tys = '; '.join(f'({cz(c.es)}, {SCALAR[target._ty_of(c).name]})' for c in ctxs if isinstance(c, IEEEContext))
    out += [f'Definition gen_fp_ctx_types : list (Z * cppscalar) := [{tys}].',
            'Lemma gen_fp_ctx_types_ok : forallb (fun p => cpp_eqb (snd p) (if fst p =? 8 then CF32 else CF64)) gen_fp_ctx_types = true.',
            'Proof. vm_compute. reflexivity. Qed.', '']
    # integer contexts dispatched natively: their abstract formats are integer rungs of the ladder (INTEGER: the unbounded format)
    ints = []
    for c in target._int_ctxs():
        try:
            ints.append((SCALAR[target._ty_of(c).name], af_term(storage._af(c.format()))))
        except Exception:  # noqa
            ints.append(('CBOOL', 'A_bad'))
    il = '; '.join(f'({t}, {a})' for t, a in ints)
    out += [f'Definition gen_int_ctxs : list (cppscalar * absfmt) := [{il}].',
            'Definition af_same (x y : absfmt) : bool := af_le x y && af_le y x.',
            '(* every bounded native integer context is stored in the rung of exactly its format; the last entry is INTEGER *)',
            'Lemma gen_int_ctxs_ok : forallb (fun p => match lookup ladder (fst p) with Some L => af_same (snd p) L | None => false end)',
            '  (removelast gen_int_ctxs) = true /\\ List.length gen_int_ctxs = 9%nat.',
            'Proof. vm_compute. split; reflexivity. Qed.', '']
    # C type names
    names = '; '.join(f'({SCALAR[t.name]}, "{t.format()}"%string)' for t in CppScalar)
    exp = '; '.join(f'({SCALAR[n]}, "{c}"%string)' for n, c in CTYPE.items())
    out += [f'Definition gen_ctype_names : list (cppscalar * string) := [{names}].',
            f'Definition ctype_names : list (cppscalar * string) := [{exp}].',
            'Lemma gen_ctype_names_ok : forallb (fun p => existsb (fun q => cpp_eqb (fst p) (fst q) && String.eqb (snd p) (snd q)) ctype_names) gen_ctype_names = true',
            '  /\\ List.length gen_ctype_names = 11%nat.',
            'Proof. vm_compute. split; reflexivity. Qed.', '']
    # op table: the correctly rounded operators, their C++ spelling, and the contexts they are registered for
    tab = target.make_op_table()
    rows = []
    fp_set = set(ctxs)
    extra_ctx = 0
    for table in (tab.unary, tab.binary, tab.ternary):
        for cls, sigs in table.items():
            for s in sigs:
                if s.out_ctx not in fp_set and s.out_ctx not in set(target._int_ctxs()):
                    extra_ctx += 1
                if cls.__name__ in CR_OPS and s.out_ctx in fp_set:
                    rows.append((cls.__name__, s.name, s.out_ctx, s.in_tys))
    okrows = all(CR_OPS[n] == nm and all(t is target._ty_of(c) for t in tys_) for n, nm, c, tys_ in rows)
    per_op = {n: sum(1 for r in rows if r[0] == n) for n in CR_OPS}
    out += [f'Definition gen_ops_spelled_right : bool := {cb(okrows)}.',
            f'Definition gen_ops_per_ctx : list Z := [{"; ".join(cz(per_op[n]) for n in CR_OPS)}].',
            f'Definition gen_foreign_ctx_signatures : Z := {cz(extra_ctx + len(bad))}.',
            '(* each correctly rounded operator is registered once per native float context (2 formats x 4 modes), with the',
            '   expected C++ spelling and operand types; no signature names a context outside the native inventory *)',
            'Lemma gen_op_table_ok : gen_ops_spelled_right = true /\\ forallb (fun n => n =? 8) gen_ops_per_ctx = true /\\ gen_foreign_ctx_signatures = 0.',
            'Proof. vm_compute. repeat split; reflexivity. Qed.', '']
    # the storage chosen for the exact sum of n values of an integer rung (what `sum` over a list of static length n needs)
    # holds n * min and n * max of the rung -- or no rung is chosen at all
    out += ['From FpyV Require Import Backend.StorageProofs.',
            'Fixpoint sum_fmt (A acc : absfmt) (n : nat) : result absfmt :=',
            '  match n with O => Ok acc | S k => match af_add acc A with Ok C => sum_fmt A C k | Err e => Err e end end.',
            'Definition sum_storage_ok (p : cppscalar * absfmt) (n : nat) : bool :=',
            '  match int_range (fst p), sum_fmt (snd p) (snd p) (n - 1) with',
            '  | Some (lo, hi), Ok C =>',
            '      match choose_storage_scalar C false with',
            '      | SLadder t => match int_range t with',
            '                     | Some (lo2, hi2) => (lo2 <=? Z.of_nat n * lo) && (Z.of_nat n * hi <=? hi2)',
            '                     | None => match float_params t with Some (pr, _, _) => Z.of_nat n * Z.max hi (- lo) <=? 2 ^ pr | None => false end',
            '                     end',
            '      | _ => true',
            '      end',
            '  | Some _, Err _ => false',
            '  | None, _ => true',
            '  end.',
            'Lemma gen_sum_storage_ok : forallb (fun p => forallb (sum_storage_ok p) [2; 3; 4; 7]%nat) gen_ladder = true.',
            'Proof. vm_compute. reflexivity. Qed.', '']
    return '\n'.join(out)


def run(ck):
    import fpy2 as fp
    from fpy2.analysis.format_infer import AbstractFormat, SetFormat
    from fpy2.analysis.format_infer.analysis import _to_abstract
    from fpy2.backend.cpp import storage
    from fpy2.backend.cpp.types import CppScalar
    from fpy2.number import RealFloat
    from fpy2.number.context.mp_fixed import MPFixedFormat
    from fractions import Fraction
    thorough = ck.tier == 'thorough'
    ck.trusted += [
        'Coq 8.16.1 kernel (coqc), vm_compute; Flocq 4 (FLT, generic_format) as the definition of binary32/binary64 representability',
        'hand-written Gallina model coq/Backend/Storage.v of backend/cpp/storage.py; its data (ladder, FE table, native contexts, type names, '
        'operator spellings) is regenerated from /repo on every run and proved equal (build/C11/GenStorage.v)',
        'the model of AbstractFormat.__le__ and the concretisation gamma of C14 (coq/Analysis/AbsFormat*.v)',
        'machine_repr (StorageProofs.v): <cstdint> ranges and IEEE 754 binary32/64 as the meaning of the C++ types; fe_rnd: ISO C <cfenv> modes',
        'NOT modelled, only tested: g++ 13 code generation and optimisation, libstdc++/<cmath>, fesetround, the x86-64 hardware, '
        'the statement-level emitter (emitter.py), unbox.py alias/escape decisions, storage_infer phi-webs',
        'the compile-and-run differential (harness/c11_diff.py) is TESTING: generated programs, g++ -O0 and -O2, bitwise comparison',
    ]
    ck.assumptions += ['the claim is PARTIAL: decision logic proved, code generation tested',
                       'IEEE-754 conforming hardware and a C++ toolchain that rounds + - * / sqrt fma correctly']
    ok, _ = ck.build_static(['Props/C11.v', 'Cases/C11Cases.v'])
    if ok:
        ck.props('Props/C11.v')

    # ---- tie A: regenerate the tables
    try:
        text = gen_theory(fp)
        ck.dyn_theory('GenStorage', text=text)
    except Exception as e:  # noqa
        ck.broken.append(f'regenerating the storage tables failed: {e!r}')

    # ---- tie B: storage decisions, fpy2 vs model
    rng = Rng(ck.seed, 'c11')
    cases = []

    def add(term, desc, nt):
        cases.append((term, desc))
        ck.evaluations += 1
        ck.count(desc)
        ck.nontriv(nt)

    def ty_term(t):
        return SCALAR[t.name]

    ctxs = [fp.UINT8, fp.SINT8, fp.UINT16, fp.SINT16, fp.UINT32, fp.SINT32, fp.UINT64, fp.SINT64, fp.FP16, fp.FP32, fp.FP64,
            fp.INTEGER, fp.MPFixedContext(-3), fp.MPFixedContext(4), fp.FixedContext(True, -2, 8), fp.FixedContext(False, 3, 8),
            fp.FixedContext(True, 0, 24), fp.FixedContext(True, 0, 25), fp.FixedContext(False, 0, 53), fp.FixedContext(True, 0, 54),
            fp.MPFloatContext(24), fp.MPSFloatContext(24, -126), fp.IEEEContext(5, 16), fp.IEEEContext(8, 24), fp.BF16,
            fp.MPBFloatContext(24, -126, RealFloat(False, 104, 2 ** 24 - 1)), fp.MPBFloatContext(25, -126, RealFloat(False, 104, 2 ** 24 - 1)),
            fp.IEEEContext(11, 40), fp.IEEEContext(12, 64)]
    bounds = [c.format() for c in ctxs]
    afs = [AbstractFormat.from_format(b) for b in bounds]
    # formats produced by the abstract arithmetic (what FormatInfer hands to the backend under REAL)
    derived = []
    for A, B in itertools.product(afs[:12], afs[:12]):
        for f in (lambda: A + B, lambda: A - B, lambda: A * B, lambda: A | B, lambda: -A, lambda: abs(A)):
            try:
                derived.append(f().format())
            except Exception:  # noqa
                pass
    for _ in range(400 if thorough else 120):
        p = rng.choice([rng.randint(1, 70), float('inf')])
        e = rng.choice([rng.randint(-1100, 10), 0, 0, float('-inf')])
        pb = rng.choice([RealFloat(False, rng.randint(-3, 70), rng.randint(0, 300)), float('inf')])
        nb = rng.choice([RealFloat(True, rng.randint(-3, 70), rng.randint(0, 300)), RealFloat(False, 0, 0), float('-inf')])
        try:
            derived.append(AbstractFormat(p, e, pb, neg_bound=nb, has_pos_inf=rng.random() < .3, has_neg_inf=rng.random() < .3,
                                          has_nan=rng.random() < .3, has_neg_zero=rng.random() < .4).format())
        except Exception:  # noqa
            pass
    sets = [SetFormat(frozenset(Fraction(v) for v in vs)) for vs in
            ([0], [1, 255], [256], [-1], [-129, 5], [Fraction(1, 2)], [2 ** 24], [2 ** 24 + 1], [2 ** 53 + 1], [-2 ** 63], [2 ** 64])]
    seen = set()
    for b in bounds + derived + sets:
        try:
            A = _to_abstract(b)
        except Exception:  # noqa
            continue
        if A is None or b == fp.number.format.REAL_FORMAT:
            continue
        ta = af_term(A)
        if ta in seen:
            continue
        seen.add(ta)
        mpf = isinstance(b, MPFixedFormat) and b.expmin >= 0
        try:
            t = storage.choose_storage_scalar(b)
            res = f'(RTy (Some {ty_term(t)}))'
        except storage.StorageSelectionError:
            res = '(RTy None)'
        add(f'(SChoose {ta} {cb(mpf)}, {res})', 'choose_storage_scalar', ('choose', ta, mpf))
        for t in rng.sample(list(CppScalar), 3):
            add(f'(SBoundFits {ta} {ty_term(t)}, (RB11 {cb(storage.bound_fits_in_scalar(b, t))}))', 'bound_fits_in_scalar',
                ('bfits', ta, t.name))
    for a in CppScalar:
        for b in CppScalar:
            add(f'(SFits {ty_term(a)} {ty_term(b)}, (RB11 {cb(storage.scalar_fits_in(a, b))}))', 'scalar_fits_in', ('fits', a.name, b.name))

    # the counter-type rule of constant-bound range loops: emitter._range_counter_scalar (called on a stub that reads the
    # literal bounds) vs the model, whose theorem C11_counter_no_wrap says no counter value -- overshoot included -- wraps
    from fpy2.ast.fpyast import Range3, Integer
    from fpy2.backend.cpp.emitter import CppEmitter

    class _Stub:
        def _concrete_int_of(self, e):
            return e.val

    triples = set()
    for B in (127, 128, 255, 32767, 32768, 65535, 2 ** 31 - 1, 2 ** 31, 2 ** 32 - 1, 2 ** 63 - 1):
        for step in (1, 2, 3, 50, 10000, max(1, B // 3), max(1, B // 2 + 1)):
            for n in (1, 2, 3):
                for start in (0, 1, -1, 5):
                    last = start + (n - 1) * step
                    for stop in (last + 1, last + step, last + max(1, step // 2)):
                        triples.add((start, stop, step))
                        triples.add((-start, -stop, -step))
    triples |= {(0, 120, 50), (0, 32000, 10000), (0, 120, 40), (3, 100, 7), (0, 0, 1), (5, 0, 1), (0, 5, -1), (100, 127, 20)}
    for _ in range(600 if thorough else 200):
        step = rng.choice([1, -1, 2, -3, 7, 50, -50, 1000, 10000, -30000, 2 ** 20, 2 ** 30, -(2 ** 30)])
        start = rng.choice([0, 0, 1, -1, rng.randint(-200, 200), rng.randint(-40000, 40000)])
        stop = start + step * rng.randint(0, 6) + rng.randint(-abs(step), abs(step))
        triples.add((start, stop, step))
    for (a, b, c) in sorted(triples):
        try:
            t = CppEmitter._range_counter_scalar(_Stub(), Range3(None, Integer(a, None), Integer(b, None), Integer(c, None), None))
            res = f'(RTy (Some {ty_term(t)}))' if t is not None else '(RTy None)'
        except storage.StorageSelectionError:
            res = '(RTy None)'
        add(f'(SCounter {cz(a)} {cz(b)} {cz(c)}, {res})', 'range_counter_scalar', ('counter', a, b, c))

    ck.rule = ('storage decisions: formats of %d contexts, the formats the abstract arithmetic derives from pairs of them, seeded random '
               'abstract formats, literal sets; all 121 scalar pairs; differential: distinct (family, program, option set, g++ level, '
               'argument vector)' % len(ctxs))
    for t, _ in cases[:3]:
        ck.sample(t)
    ck.log(f'{len(cases)} storage-decision cases')
    bad, err = ck.coq_eval_mismatches(HEADER, 'op11 * out11', [c[0] for c in cases], 'check11', chunk=400)
    if err:
        ck.broken.append('correspondence evaluation failed: ' + err[:500])
    for i in bad:
        term, desc = cases[i]
        ck.violation(f'implementation and model disagree on {desc}', {'case': term})

    # ---- TESTING: compile-and-run differential
    from .. import c11_diff
    c11_diff.run_differential(ck, rng, thorough)
