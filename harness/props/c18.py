"""C18 — evaluation is pure, isolated from the caller and reentrant (claim: PARTIAL).

Proof: coq/Runtime/{Boundary,Cache,Interleave}{,Proofs}.v (statements in coq/Props/C18.v).
Tie: (1) correspondence — caller operation sequences (define f/g/h in generated modules, transformed
copies, calls under several contexts, writes into returned lists, calls on returned lists) replayed on
fpy2 and on the Gallina model (vm_compute); (2) the property checked directly on fpy2: arguments
deep-compared before/after, identity-disjointness of result and arguments, history independence
against fresh definitions and a fresh process; (3) thread stress (TESTING, not proof).
"""
import time

from .. import c18lib as L
from .. import c18stress as S
from ..common import Rng

MANIFEST = {
    'text': 'PARTIAL. Coq proof, for a model of the Python boundary (to_value/from_value as deep copies over a caller heap and an '
            'interpreter store, function bodies as arbitrary read/write/alloc sequences), of: no caller-heap location is ever written; '
            'everything reachable from a result is fresh or belongs to the callee\'s captured copies; the identity-keyed func_cache keeps '
            '"entry = compile key" in every reachable state and never changes a result (a name-keyed cache is refuted); any interleaving of '
            'two evaluations sharing only the cache, with the context as a local, yields the sequential results (context in shared state is refuted). '
            'History independence is REFUTED by the faithful model for functions that write or return a captured list (free-variable containers '
            'are converted once at compile time) and proved under the hypothesis that no captured location is written; proved unconditionally for the '
            'repaired variant. Not modelled: CPython/GIL scheduling, gmpy2 thread-local contexts, MPFR caches (thread stress = testing only).',
    'technique': 'machine-checked proof in Coq + model/implementation correspondence on caller operation sequences (vm_compute) + '
                 'direct checks of the property on fpy2 (deep compare, id() reachability, fresh-process history independence) + thread stress (testing)',
}

HEADER = ('From Coq Require Import ZArith List Bool.\n'
          'From FpyV Require Import Runtime.Boundary Runtime.Cache Cases.C18Cases.\n'
          'Import ListNotations.\nOpen Scope nat_scope.\n')

KEY_WRITE = 'captured_list_write_persists'
KEY_RET = 'captured_list_returned_shared'


def gen_ops(rng, fns, nops, oob=False):
    ops, held_ty = [], []
    for _ in range(nops):
        k = rng.random()
        one_param = [i for i, f in enumerate(fns) if len(f.params) == 1]
        if k < 0.18 and held_ty:
            hk = rng.randrange(len(held_ty))
            path = [rng.randint(0, 1) for _ in range(rng.choice([0, 0, 1, 1, 2]))]
            ops.append(('poke', hk, path, rng.randint(0, 3 if oob else 1), rng.randint(-20, 20)))
        elif k < 0.32 and held_ty and one_param:
            cands = [(i, hk) for i in one_param for hk, ty in enumerate(held_ty) if ty == fns[i].params[0]]
            if cands:
                i, hk = rng.choice(cands)
                ops.append(('callheld', i, hk, rng.choice(L.MODES)))
                held_ty.append(fns[i].ret_type)
                continue
            i = rng.randrange(len(fns))
            ops.append(('call', i, [L.rand_tree(rng, t) for t in fns[i].params], rng.choice(L.MODES)))
            held_ty.append(fns[i].ret_type)
        else:
            i = rng.randrange(len(fns))
            ops.append(('call', i, [L.rand_tree(rng, t) for t in fns[i].params], rng.choice(L.MODES)))
            held_ty.append(fns[i].ret_type)
    return ops


def gen_case(rng, kind):
    """kind: clean | dirty | oob | witness-*"""
    if kind.startswith('witness'):
        w = kind.split('-')[1]
        if w == 'bump':
            fns = [L.handmade('bump'), L.handmade('look')]
            ops = [('call', 0, [1], 'RNE'), ('call', 0, [1], 'RTZ'), ('call', 1, [3], 'RNE'), ('call', 0, [1], 'RNE')]
        elif w == 'get':
            fns = [L.handmade('get'), L.handmade('scale')]
            ops = [('call', 0, [], 'RNE'), ('poke', 0, [], 0, 99), ('call', 0, [], 'RNE'), ('call', 1, [[7, 8]], 'RTP'),
                   ('poke', 3, [], 1, 4), ('call', 1, [[7, 8]], 'RTZ')]
        else:  # getx: the result shares a list with the argument
            fns = [L.handmade('getx')]
            ops = [('call', 0, [[0, 0]], 'RNE'), ('callheld', 0, 0, 'RNE'), ('poke', 1, [], 0, 5), ('callheld', 0, 0, 'RTZ')]
        return fns, ops
    clean = kind in ('clean', 'oob')
    fns = []
    for _ in range(rng.randint(2, 4)):
        fns.append(L.gen_fn(rng, rng.choice(L.NAMES), clean=clean, oob=(kind == 'oob')))
    if kind != 'oob':
        for _ in range(rng.randint(0, 2)):
            base = rng.choice([f for f in fns if f.copy_of is None])
            fns.append(L.copy_fn(base, rng.choice(['dce', 'cp', 'redecorate'])))
    rng.shuffle(fns)
    # copies must come after their base in the table only for instantiate(); order is free
    ops = gen_ops(rng, fns, rng.randint(5, 12), oob=(kind == 'oob'))
    return fns, ops


def run(ck):
    import fpy2 as fp
    thorough = ck.tier == 'thorough'
    ck.trusted += [
        'Coq 8.16.1 kernel (coqc); vm_compute evaluates the model on correspondence cases; no native_compute',
        'hand-written Gallina model coq/Runtime/{Boundary,Cache,Interleave}.v of value.py (to_value/from_value), '
        'byte.py (BytecodeInterpreter.eval, func_cache, BytecodeCompiler.compile free-variable capture, CTX_NAME parameter), '
        'interpreter.py (_func_ctx); tied to /repo by differential execution of caller operation sequences on every run',
        'harness/c18lib.py: generator of FPy functions in the model\'s command language, printers to FPy source and to Coq terms, '
        'id()-based reachability on the Python side',
        'numbers are abstracted to integers rounded by MPFixedContext(-1, rm): the numeric content of values is NOT part of this model (C01-C05)',
        'NOT verified, stress-tested only: CPython/GIL scheduling, gmpy2 thread-local MPFR context (gmputils._mpfr_call_with_prec), '
        'MPFR constant caches, the engine registry (number/engine), number/globals.py converters',
    ]
    ck.assumptions += [
        'claim is PARTIAL: interleaving theorem is about the model (shared cache + context as a local); real threads are exercised by the stress run (testing)',
        'history independence holds only under "no write lands in a captured free-variable container" on the unchanged tree '
        '(C18_history_independent_partial); the unhypothesised statement is refuted (known findings '
        f'{KEY_WRITE}, {KEY_RET}) and proved for the repaired variant (C18_history_independent_fixed)',
        'function bodies of the model are straight-line (no loops/branches): isolation does not depend on control flow; '
        'FPy-to-FPy calls (convert=False) are not in the model',
    ]
    ok, _ = ck.build_static(['Props/C18.v', 'Cases/C18Cases.v'])
    if ok:
        import re
        from ..common import COQ, strip_comments
        names = re.findall(r'Print Assumptions\s+([A-Za-z0-9_\'.]+)\s*\.', strip_comments((COQ / 'Props/C18.v').read_text()))
        ck.props('Props/C18.v', closed=names)      # every C18 theorem is axiom-free

    if ck.replay:
        # re-evaluate the stored case on both models (the sequence itself is regenerated deterministically by --seed)
        import json
        rep = json.loads(open(ck.replay).read())
        term = (rep.get('replay') or {}).get('case')
        if isinstance(term, str):
            bd, e1 = ck.coq_eval_mismatches(HEADER, 'case18', [term], 'check18d', tag='replayd')
            bf, e2 = ck.coq_eval_mismatches(HEADER, 'case18', [term], 'check18f', tag='replayf')
            ck.log(f'replay: stored observation agrees with the model of the code as it is: {not bd}; with the repaired model: {not bf}')
            if e1 or e2:
                ck.broken.append('replay evaluation failed: ' + ((e1 or '') + (e2 or ''))[:400])
            elif bd and bf:
                ck.violation(rep.get('what', 'replayed case'), rep['replay'], key=None)
            elif bd is not None and not bd and bf:
                ck.violation(rep.get('what', 'replayed case'), rep['replay'], key=rep.get('key'))
        else:
            ck.log('replay file holds a direct observation on fpy2 (no model case); re-run with --seed %s to regenerate it' % rep.get('seed'))
        return

    rng = Rng(ck.seed, 'c18')
    ctxs = {m: fp.MPFixedContext(-1, getattr(fp.RM, m)) for m in L.MODES}
    direct = []   # direct violations reported by replay

    # ------------------------------------------------------------ correspondence
    n_rand = 3000 if thorough else 300
    kinds = (['witness-bump', 'witness-get', 'witness-getx'] +
             [('clean' if k % 10 < 6 else 'dirty' if k % 10 < 9 else 'oob') for k in range(n_rand)])
    cases = []
    t_impl = time.time()
    for n, kind in enumerate(kinds):
        fns, ops = gen_case(rng, kind)
        modname = f'c18_s{ck.seed}_case{n}'
        try:
            mod, objs, midx = L.instantiate(fns, ck.dir, modname)
        except Exception as e:  # noqa: BLE001
            ck.broken.append(f'generated module {modname} was rejected by fpy2: {type(e).__name__}: {str(e)[:300]}')
            continue

        def report(what, detail, f, n=n, kind=kind):
            key = KEY_RET if (what.startswith('result shares') and f.leaks_captured) else None
            direct.append((what, {'case': n, 'kind': kind, 'detail': detail}, key))

        mops, obs = L.replay(fns, objs, midx, ops, ctxs, rng, report)
        # the caller's own module-level lists (the captured free variables) are the caller's: never written
        for idx, f in enumerate(fns):
            if f.copy_of is None:
                for j, (_, tree) in enumerate(f.caps):
                    now = getattr(mod, f'G{idx}_{j}')
                    if now != tree:
                        direct.append(('a module-level list captured by an FPy function was modified', {'case': n, 'kind': kind,
                                       'fn': L.fn_source(f, idx), 'before': repr(tree), 'after': repr(now)}, None))
        term = (f'({L.cl(L.fn_coq(f) for f in fns)}, {L.cl(L.op_coq(o) for o in mops)}, '
                f'{L.cl(L.obs_coq(o) for o in obs)})')
        dirty = any(not f.clean() for f in fns)
        key = None
        if dirty:
            key = KEY_WRITE if any(f.writes_captured for f in fns) else KEY_RET
        cases.append({'term': term, 'kind': kind, 'key': key, 'module': str(ck.dir / f'{modname}.py'),
                      'ops': [repr(o) for o in ops], 'obs': [repr(o) for o in obs]})
        ck.evaluations += len(ops)
        ck.count('case:' + kind.split('-')[0])
        for o, ob in zip(ops, obs):
            ck.count('op:' + o[0])
            if ob[0] == 'call' and ob[1] is None:
                ck.count('op:exception')
            if ob[0] == 'call' and ob[2]:
                ck.count('op:result-shares-with-earlier-result')
        ck.nontriv(term)
        if n < 3 or n in (10, 11):
            ck.sample(term[:1500])
    ck.log(f'{len(cases)} operation-sequence cases replayed on fpy2 in {time.time() - t_impl:.1f}s')
    ck.rule = ('caller operation sequences (5-12 operations: calls under 5 rounding contexts, calls on held results, writes into held '
               'results) over tables of 2-6 generated functions (with DCE / copy-propagated / re-decorated copies and equal names); '
               'non-trivial = distinct (table, sequence, observation) triples')

    terms = [c['term'] for c in cases]
    # one pass: every case against the model of the code as it is; the cases that involve a function writing or
    # returning a captured container also against the repaired model
    dirty_idx = [i for i, c in enumerate(cases) if c['key'] is not None]
    both = [f'(false, {t})' for t in terms] + [f'(true, {terms[i]})' for i in dirty_idx]
    bad, err = ck.coq_eval_mismatches(HEADER, 'bool * case18', both, 'check18x', tag='case', chunk=60)
    if err:
        ck.broken.append('correspondence evaluation failed: ' + err[:500])
    bad_d = {i for i in bad if i < len(terms)}
    bad_f = {dirty_idx[i - len(terms)] for i in bad if i >= len(terms)}
    # a clean case (no captured container written or returned) has the same meaning in both models
    bad_f |= {i for i in bad_d if cases[i]['key'] is None}
    repaired = 0
    for i, c in enumerate(cases):
        rep = {'case': c['term'], 'module': c['module'], 'ops': c['ops'], 'observed': c['obs'],
               'note': 'first: table of functions; second: caller operations; third: what fpy2 did. '
                       'check18d = model of the code as it is (captured containers converted once), check18f = repaired model'}
        if i in bad_d and i in bad_f:
            ck.violation('fpy2 and the model disagree on a caller operation sequence (neither the current nor the repaired model matches)', rep, key=None)
        elif i in bad_f:
            # agrees with the faithful model only: the history dependence through captured containers
            ck.violation('result depends on earlier evaluations through a captured free-variable container', rep, key=c['key'])
        elif i in bad_d:
            repaired += 1
    ck.extra['cases_matching_only_repaired_model'] = repaired
    for what, rep, key in direct:
        ck.violation(what, rep, key=key)

    # ------------------------------------------------------------ the property, directly on fpy2
    ck.log('correspondence evaluated in Coq')
    S.deep_structure(ck, rng, fp)
    ck.log('deep-structure checks done')
    S.history_independence(ck, rng, fp, thorough)
    ck.log('history-independence checks done')
    S.thread_stress(ck, rng, fp, thorough)
    ck.log('thread stress done')
