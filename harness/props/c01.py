"""C01 — rounding under any context is correct rounding.

Proof: coq/Num/RoundSpec.v + RoundProofs.v (N1: RealFloat.round = Flocq `round`
for all eight modes and the FLX/FLT/FIX shapes, inexact flag truthful),
coq/Num/CtxProofs.v (context families), statements in coq/Props/C01.v.
Tie: exhaustive eighth-ulp grids for small formats of every context family,
run on fpy2 and on the extracted model (ocaml oracle).
"""
import itertools
from fractions import Fraction

from ..common import Rng
from ..numenc import (RM, e_ctx, e_fl, e_float_result, e_opt, e_real_result, e_rf3, mk_ctx, rto_dyadic)
from ..oracle import Oracle, enc

MANIFEST = {
    'text': 'Coq proof (Flocq) that the model of RealFloat._round_at/round is `round radix2 fexp rnd` for all 8 modes, '
            'all precisions/positions/operands (unbounded), inexact flag truthful, result a neighbour; the ten context '
            'families (overflow modes, special-value options, fixup ladder, wrap) are Gallina models tied to /repo by '
            'exhaustive eighth-ulp-grid correspondence on every small format, with family-level theorems for the float '
            'and fixed families.',
    'technique': 'machine-checked proof in Coq against Flocq generic rounding + extracted-model correspondence on exhaustive small-format grids + model of the integer core regenerated from the Python source on every run (py2v translator) with bridge lemmas re-proved',
}


def run(ck):
    # tie A: the model of the integer core is regenerated from the source and the bridge lemmas re-proved
    # (coqc runs in the background while the correspondence streams run)
    from .. import py2v_tie
    tie_join = py2v_tie.start(ck)
    try:
        _run(ck)
    finally:
        tie_join()


def _run(ck):
    import fpy2 as fp
    from fpy2.number import Float, RealFloat
    from fpy2.number import RM as FRM
    thorough = ck.tier == 'thorough'
    rng = Rng(ck.seed, 'c01')
    ck.trusted += [
        'Coq 8.16.1 kernel; vm_compute only in table lemmas; no native_compute',
        'Flocq (Core, Calc.Round, Prop.Round_odd): independent definition of the 8 rounding modes (Zrnd_even defined here as the dual of Zrnd_odd, Valid_rnd proved)',
        'extraction (ExtrOcamlBasic only; Z/positive extracted as Coq datatypes; no Extract Constant) + OCaml 4.13.1 + ocaml/driver.ml (hex wire format)',
        'hand-written Gallina model coq/Num/RealFloat.v, Ctx.v of reals.py and context/*.py; tie = differential execution (this run)',
        'non-dyadic Fraction operands: compared through an exact round-to-odd pre-rounding computed by the harness (justified by N2, see C02)',
    ]
    ok, _ = ck.build_static(['Props/C01.v', 'Cases/C01Cases.v'])
    if ok:
        ck.props('Props/C01.v')
    orc = Oracle(ck, 'c01', 'Cases.C01Cases', 'check_line1')

    lines, meta = [], []

    def add(line, kind, m, nontriv=None, key=None):
        lines.append(enc(line))
        meta.append((kind, m, key))
        ck.evaluations += 1
        ck.count(kind)
        if nontriv is not None:
            ck.nontriv(nontriv)

    def attempt(f):
        try:
            return f()
        except Exception as e:  # noqa
            return e

    # ------------------------------------------------------------ to_direction (all 16)
    for rm in RM:
        for s in (False, True):
            nr, d = getattr(FRM, rm).to_direction(s)
            add([2, RM.index(rm), int(s), int(nr), d.value], 'to_direction', f'{rm} s={s}', ('dir', rm, s))

    # ------------------------------------------------------------ RealFloat.round / round_at on grids
    ps = [None, 1, 2, 3, 4] if not thorough else [None, 1, 2, 3, 4, 5, 7]
    ns = [None, -3, -1, 0, 2] if not thorough else [None, -4, -3, -2, -1, 0, 1, 3]
    cmax = 64 if not thorough else 256
    exps = [-4, -2, 0] if not thorough else [-5, -4, -3, -2, -1, 0, 2]
    for p, n in itertools.product(ps, ns):
        if p is None and n is None:
            continue
        for rm in RM:
            for s in (False, True):
                for e in exps:
                    for c in range(0, cmax):
                        x = RealFloat(s, e, c)
                        r = attempt(lambda: x.round(p, n, getattr(FRM, rm)))
                        inexact = (not isinstance(r, BaseException)) and r.inexact
                        add([0] + e_rf3(s, e, c) + e_opt(p) + e_opt(n) + [RM.index(rm)] + e_real_result(r),
                            'RealFloat.round', f'x=({s},{e},{c}) p={p} n={n} rm={rm}',
                            ('rr', s, e, c, p, n, rm) if inexact else None)
    for _ in range(3000 if not thorough else 40000):
        x = RealFloat(rng.random() < .5, rng.randint(-400, 400), rng.getrandbits(rng.randint(1, 300)))
        p = rng.choice([None, rng.randint(1, 200)])
        n = rng.choice([None, rng.randint(-300, 300)]) if p is not None else rng.randint(-300, 300)
        rm = rng.choice(RM)
        r = attempt(lambda: x.round(p, n, getattr(FRM, rm)))
        add([0] + e_rf3(x.s, x.exp, x.c) + e_opt(p) + e_opt(n) + [RM.index(rm)] + e_real_result(r),
            'RealFloat.round(wide)', f'x={x!r} p={p} n={n} rm={rm}', ('rrw', x.s, x.exp, x.c, p, n, rm))
        nn = rng.randint(-300, 300)
        r = attempt(lambda: x.round_at(nn, p, getattr(FRM, rm)))
        add([1] + e_rf3(x.s, x.exp, x.c) + [nn] + e_opt(p) + [RM.index(rm)] + e_real_result(r),
            'RealFloat.round_at(wide)', f'x={x!r} n={nn} p={p} rm={rm}', ('raw', x.s, x.exp, x.c, nn, p, rm))

    # ------------------------------------------------------------ contexts
    def grid(lsb, kmax):
        """all k * 2^lsb, |k| <= kmax, both zeros"""
        out = []
        for k in range(0, kmax + 1):
            out.append(('fin', False, lsb, k))
            out.append(('fin', True, lsb, k))
        return out

    SPECIALS = [('inf', False), ('inf', True), ('nan', False), ('nan', True)]

    def ctx_cases(d, operands, ns_=(None,), present=False):
        try:
            ctx = mk_ctx(d)
        except Exception as e:  # noqa  invalid parameter combination: constructor refuses
            ck.count('ctx-constructor-refused')
            return
        wire_ctx = e_ctx(d)
        for op in operands:
            if op[0] == 'fin':
                x = Float(s=op[1], exp=op[2], c=op[3])
            elif op[0] == 'inf':
                x = Float(isinf=True, s=op[1])
            else:
                x = Float(isnan=True, s=op[1])
            for n in ns_:
                r = attempt((lambda: ctx.round(x)) if n is None else (lambda: ctx.round_at(x, n)))
                changed = (not isinstance(r, BaseException)) and (r._real._flags.inexact or r._real._flags.overflow)
                key = None
                add([3] + wire_ctx + e_fl(x) + e_opt(n) + [0] + e_float_result(r), 'ctx:' + d['kind'],
                    f'{d} x={op} n={n}', ('ctx', str(sorted(d.items())), op, n) if changed or op[0] != 'fin' else None, key)
                # the same operand presented as RealFloat / int / float / dyadic Fraction must round alike
                if present and op[0] == 'fin' and n is None:
                    v = Fraction(op[3]) * Fraction(2) ** op[2] * (-1 if op[1] else 1)
                    alts = [RealFloat(op[1], op[2], op[3])]
                    if op[3] != 0:
                        alts.append(v)
                        if v.denominator == 1:
                            alts.append(int(v))
                        try:
                            if Fraction(float(v)) == v:
                                alts.append(float(v))
                        except OverflowError:
                            pass
                    for a in alts:
                        r2 = attempt(lambda: ctx.round(a))
                        same = (type(r) is type(r2)) if isinstance(r, BaseException) else (
                            not isinstance(r2, BaseException) and r2.isnan == r.isnan and r2.isinf == r.isinf and
                            (r.is_nar() or (r2.as_rational() == r.as_rational() and (r2.s == r.s or type(a) is not type(alts[0]) and v == 0))) and
                            r2._real._flags.inexact == r._real._flags.inexact and r2._real._flags.overflow == r._real._flags.overflow)
                        ck.evaluations += 1
                        ck.count('presentation(RealFloat/int/float/Fraction)')
                        if not same:
                            ck.violation('the same real value rounds differently depending on the Python type it is given as',
                                         {'ctx': d, 'operand': op, 'as': repr(a), 'Float result': repr(r), 'other result': repr(r2)})

    modes = RM
    # MPFloat
    for p in ([1, 2, 3] if not thorough else [1, 2, 3, 4, 5]):
        for rm in modes:
            ops = []
            for e in (-3, 0):
                ops += grid(e, 2 ** (p + 3))
            ctx_cases({'kind': 'mpfloat', 'p': p, 'rm': rm}, ops + SPECIALS, present=(rm in ('RNE', 'RTZ')))
    for en, ei, nv, iv in [(False, True, None, None), (False, False, ('fin', False, 0, 1), ('fin', False, 0, 3)),
                           (True, False, None, ('fin', True, -1, 3)), (False, False, ('inf', True), None)]:
        ctx_cases({'kind': 'mpfloat', 'p': 2, 'rm': 'RNE', 'enable_nan': en, 'enable_inf': ei, 'nan_value': nv, 'inf_value': iv},
                  SPECIALS + grid(-1, 8))
    # MPSFloat
    for p, emin in ([(1, 0), (2, -1), (3, -2), (3, 1)] if not thorough else
                    [(p, em) for p in (1, 2, 3, 4) for em in (-3, -1, 0, 1)]):
        nmin = emin - p
        for rm in modes:
            ctx_cases({'kind': 'mpsfloat', 'p': p, 'emin': emin, 'rm': rm},
                      grid(nmin - 3, 2 ** (p + 5)) + SPECIALS,
                      ns_=(None, nmin + 2, nmin - 2) if rm in ('RNE', 'RTZ') else (None,))
    # MPBFloat
    mpb = []
    for p, emin in ([(2, -1), (3, 0)] if not thorough else [(1, 0), (2, -1), (3, 0), (3, -2), (4, 0)]):
        nmin = emin - p
        top = emin + 2
        for c in range(2 ** (p - 1), 2 ** p):
            mpb.append((p, emin, (False, top - p + 1, c), None))
        mpb.append((p, emin, (False, top - p + 1, 2 ** p - 1), (True, top - p, 2 ** p - 1)))   # asymmetric
    for (p, emin, mv, nmv) in mpb:
        nmin = emin - p
        kmax = 2 * ((mv[2] + 1) << (mv[1] - (nmin - 3)))
        for rm in modes:
            for ov in ('OVERFLOW', 'SATURATE', 'ASSERT'):
                if ov != 'OVERFLOW' and rm not in ('RNE', 'RTP', 'RTZ') and not thorough:
                    continue
                ctx_cases({'kind': 'mpbfloat', 'p': p, 'emin': emin, 'maxval': mv, 'neg_maxval': nmv, 'rm': rm, 'ov': ov},
                          grid(nmin - 3, min(kmax, 700)) + SPECIALS)
                if ov == 'OVERFLOW' and rm in ('RNE', 'RTP', 'RTO'):
                    # round_at / round_integer positions below and above the format's own least digit
                    ctx_cases({'kind': 'mpbfloat', 'p': p, 'emin': emin, 'maxval': mv, 'neg_maxval': nmv, 'rm': rm, 'ov': ov},
                              grid(nmin - 3, min(kmax, 200)), ns_=(nmin - 2, nmin - 1, nmin + 1, -1))
        for ei, iv in [(False, None), (False, ('fin', False, mv[1], mv[2])), (False, ('fin', False, 0, 0))]:
            ctx_cases({'kind': 'mpbfloat', 'p': p, 'emin': emin, 'maxval': mv, 'rm': 'RNE', 'ov': 'OVERFLOW',
                       'enable_inf': ei, 'inf_value': iv}, grid(nmin - 1, min(kmax // 4, 300)) + SPECIALS)
    # EFloat / IEEE
    nb_max = 4 if not thorough else 6
    for nbits in range(1, nb_max + 1):
        for es in range(0, nbits + 1):
            for einf in (True, False):
                for nk in ('IEEE_754', 'MAX_VAL', 'NEG_ZERO', 'NONE'):
                    for eoff in ((0, 2) if nbits <= 3 else (0,)):
                        p = nbits - es
                        if p < 1:
                            continue
                        ebias = 0 if es == 0 else 2 ** (es - 1) - 1
                        emax = (-1 if es == 0 else ebias) + eoff + 1
                        emin = 1 - ebias + eoff
                        nmin = emin - p
                        kmax = min(2 ** (emax + 2 - (nmin - 3)), 600)
                        for rm in modes:
                            for ov in (('OVERFLOW', 'SATURATE') if rm in ('RNE', 'RTN') else ('OVERFLOW',)):
                                if nbits == nb_max and rm not in ('RNE', 'RTZ', 'RAZ', 'RTO') and not thorough:
                                    continue
                                ctx_cases({'kind': 'efloat', 'es': es, 'nbits': nbits, 'enable_inf': einf, 'nk': nk, 'eoffset': eoff,
                                           'rm': rm, 'ov': ov}, grid(nmin - 3, kmax) + SPECIALS)
                                if ov == 'OVERFLOW' and rm in ('RNE', 'RAZ') and nbits <= 3 and einf and nk in ('IEEE_754', 'NONE'):
                                    ctx_cases({'kind': 'efloat', 'es': es, 'nbits': nbits, 'enable_inf': einf, 'nk': nk,
                                               'eoffset': eoff, 'rm': rm, 'ov': ov}, grid(nmin - 3, min(kmax, 120)),
                                              ns_=(nmin - 2, nmin + 1))
                        ctx_cases({'kind': 'efloat', 'es': es, 'nbits': nbits, 'enable_inf': einf, 'nk': nk, 'eoffset': eoff,
                                   'rm': 'RNE', 'ov': 'OVERFLOW', 'nan_value': ('fin', False, 0, 0), 'inf_value': ('fin', False, 0, 0)},
                                  grid(nmin - 1, kmax // 4) + SPECIALS)
    # MPFixed
    for nmin in (-2, 0, 1):
        for rm in modes:
            ctx_cases({'kind': 'mpfixed', 'nmin': nmin, 'rm': rm}, grid(nmin - 3, 80), ns_=(None, nmin + 1))
        for en, ei, nz, nv, iv in itertools.product((True, False), (True, False), (True, False), (None, ('fin', False, nmin + 1, 3)),
                                                    (None, ('fin', True, nmin + 1, 5))):
            ctx_cases({'kind': 'mpfixed', 'nmin': nmin, 'rm': 'RTN', 'enable_nan': en, 'enable_inf': ei, 'neg_zero': nz,
                       'nan_value': nv, 'inf_value': iv}, SPECIALS + grid(nmin - 2, 6))
        for rm in ('RNE', 'RTZ', 'RTP', 'RAZ'):
            for nz in (True, False):
                ctx_cases({'kind': 'mpfixed', 'nmin': nmin, 'rm': rm, 'enable_nan': True, 'enable_inf': True, 'neg_zero': nz,
                           'nan_value': None, 'inf_value': None}, grid(nmin - 2, 20), ns_=(None, nmin + 2))
    # MPBFixed (asymmetric bounds), Fixed, SMFixed
    for nmin in (-1, 0):
        for mv, nmv in [((False, nmin + 1, 5), None), ((False, nmin + 1, 6), (True, nmin + 1, 3)), ((False, nmin + 1, 3), (False, 0, 0))]:
            for rm in modes:
                for ov in ('OVERFLOW', 'SATURATE', 'WRAP', 'ASSERT'):
                    if not thorough and ov in ('OVERFLOW', 'ASSERT') and rm not in ('RNE', 'RTZ', 'RTP'):
                        continue
                    ctx_cases({'kind': 'mpbfixed', 'nmin': nmin, 'maxval': mv, 'neg_maxval': nmv, 'rm': rm, 'ov': ov},
                              grid(nmin - 2, 8 * 20), ns_=(None,))
            for ei, iv in [(True, None), (False, ('fin', False, nmin + 1, 2))]:
                ctx_cases({'kind': 'mpbfixed', 'nmin': nmin, 'maxval': mv, 'neg_maxval': nmv, 'rm': 'RNE', 'ov': 'OVERFLOW',
                           'enable_inf': ei, 'inf_value': iv, 'enable_nan': ei}, grid(nmin - 1, 40) + SPECIALS)
    for signed in (True, False):
        for nbits in ((2, 3) if not thorough else (1, 2, 3, 4, 5)):
            if signed and nbits < 2:
                continue
            for scale in (-1, 0, 2):
                for rm in modes:
                    for ov in ('WRAP', 'SATURATE', 'OVERFLOW', 'ASSERT'):
                        if not thorough and ov in ('OVERFLOW', 'ASSERT') and rm not in ('RNE', 'RAZ'):
                            continue
                        ctx_cases({'kind': 'fixed', 'signed': signed, 'scale': scale, 'nbits': nbits, 'rm': rm, 'ov': ov},
                                  grid(scale - 3, 8 * (2 ** nbits) * 2 + 8) + SPECIALS, present=(rm == 'RNE' and ov == 'WRAP'))
                ctx_cases({'kind': 'fixed', 'signed': signed, 'scale': scale, 'nbits': nbits, 'rm': 'RNE', 'ov': 'SATURATE',
                           'nan_value': ('fin', False, scale, 1), 'inf_value': ('fin', False, scale, 1)}, SPECIALS + grid(scale, 3))
    for nbits in ((2, 3) if not thorough else (2, 3, 4, 5)):
        for scale in (-1, 1):
            for rm in modes:
                for ov in ('WRAP', 'SATURATE', 'OVERFLOW', 'ASSERT'):
                    if not thorough and ov in ('OVERFLOW', 'ASSERT') and rm not in ('RNE', 'RTN'):
                        continue
                    ctx_cases({'kind': 'smfixed', 'scale': scale, 'nbits': nbits, 'rm': rm, 'ov': ov},
                              grid(scale - 3, 8 * (2 ** nbits) + 8) + SPECIALS)
    # Exp
    for nbits in ((1, 2, 3) if not thorough else (1, 2, 3, 4)):
        for eoff in (0, 1):
            for rm in modes:
                for ov in ('OVERFLOW', 'SATURATE', 'ASSERT'):
                    emax = 2 ** (nbits - 1) - 1 + eoff
                    emin = 1 - (2 ** (nbits - 1) - 1) + eoff - 1
                    ctx_cases({'kind': 'exp', 'nbits': nbits, 'eoffset': eoff, 'rm': rm, 'ov': ov},
                              grid(emin - 4, min(2 ** (emax + 2 - (emin - 4)), 900)) + SPECIALS)
            ctx_cases({'kind': 'exp', 'nbits': nbits, 'eoffset': eoff, 'rm': 'RNE', 'ov': 'OVERFLOW', 'inf_value': ('fin', False, 0, 1)}, SPECIALS)
    # Real
    ctx_cases({'kind': 'real'}, grid(-3, 20) + SPECIALS)

    # ------------------------------------------------------------ non-dyadic fractions (via exact round-to-odd, N2)
    nd = 0
    for d in [{'kind': 'mpfloat', 'p': 3}, {'kind': 'mpsfloat', 'p': 3, 'emin': -2}, {'kind': 'mpfixed', 'nmin': -3},
              {'kind': 'efloat', 'es': 2, 'nbits': 5, 'enable_inf': True, 'nk': 'IEEE_754', 'eoffset': 0},
              {'kind': 'fixed', 'signed': True, 'scale': -2, 'nbits': 6, 'ov': 'SATURATE'}]:
        for rm in modes:
            dd = dict(d, rm=rm)
            ctx = mk_ctx(dd)
            for num, den in [(1, 3), (-2, 3), (1, 5), (7, 3), (-22, 7), (1, 24), (5, 12), (-1, 1000), (1000, 3)] + \
                            [(rng.randint(-400, 400) or 1, rng.choice([3, 5, 6, 7, 9, 11, 13])) for _ in range(20)]:
                q = Fraction(num, den)
                if q.denominator & (q.denominator - 1) == 0:
                    continue
                r = attempt(lambda: ctx.round(q))
                s, e, c = rto_dyadic(q, 40)
                add([3] + e_ctx(dd) + e_fl(('fin', s, e, c)) + [0] + [0] + e_float_result(r), 'ctx:fraction(' + d['kind'] + ')',
                    f'{dd} q={q}', ('frac', str(dd), str(q)))
                nd += 1

    ck.rule = ('per context family: every k*2^(nmin-3) (all eighth-ulp points) up to past the overflow threshold, both signs, both zeros, '
               '+-inf, NaN, x 8 modes x overflow modes x special-value options; RealFloat.round/round_at on all (p, n) in a small box '
               'and random wide operands; non-trivial = distinct (context, operand) whose rounding is inexact, overflows or is special')
    for i in (5, len(lines) // 3, len(lines) // 2, len(lines) - 5):
        ck.sample({'kind': meta[i][0], 'case': meta[i][1]})
    ck.log(f'{len(lines)} oracle cases')
    bad = orc.run(lines)
    if bad is None:
        return
    for i in bad:
        kind, m, key = meta[i]
        ck.violation(f'implementation and proved model disagree on {kind}', {'case': m, 'wire': lines[i]}, key=key)
