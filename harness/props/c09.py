"""C09 — inlining, specialisation and hoisting preserve results.

Proof: coq/Lang/Transforms/{Rename,Inline,Mono,LiftCtx}.v (models, definitions only),
{RenameProofs,RenameSimProofs,InlineProofs,MonoProofs,LiftCtxProofs,C09RefutedProofs}.v,
statements in coq/Props/C09.v.

Tie (on every run):
 (S) structural -- caller/callee programs are generated as real source files, decorated by
     fpy2, the REAL strategies (inline one site / all sites / recursive / one level,
     monomorphize with pinned contexts, lift_context, close) are applied, input and output ASTs
     are exported by harness/lang.py and Coq decides (vm_compute) that the output is the output
     of the Gallina model up to a bijective renaming of variables (AlphaEq.v); a strategy that
     raises must coincide with the model's `None`;
 (B) behavioural -- original and transformed functions are executed by fpy2 on the same
     argument tuples (incl. special values), with and without a caller context, and compared
     exactly (for mono: mono(f, c)(*args) against f(*args, ctx=c)).  A difference on an input on
     which the original returns is a violation; the classes of differences that the faithful
     model itself refutes (Props/C09.v *_refuted) are known findings.
"""
import copy
import signal
import time
from fractions import Fraction as F

from ..common import Rng
from .. import lang
from ..lang import COQ_HEADER, CtxSpec, Func, N, Node, Program, clist, copt, cstr, cval_of_py, py_of_arg

MANIFEST = {
    'text': 'Coq models (as coded) of function inlining, context pinning, context lifting and closing over captured values, '
            'with soundness theorems for an arbitrary number instance: inlining of calls in statement position (nested with / '
            'loops, declared or call-site context, shared list arguments, name clashes; one site, all sites, one level, '
            'recursive), mono = running under the pinned context, lifting of literal context constructors out of loops, close; '
            'the unsound call positions / computed constructors are refuted in the model and reproduced on fpy2 (known findings). '
            'Tied to /repo by applying the real strategies to generated programs and comparing structurally (alpha-equivalence '
            'decided in Coq) with the model, and by differential execution of original vs transformed functions.',
    'technique': 'machine-checked proof in Coq + model/implementation structural correspondence (vm_compute) + differential execution',
}

NOCOQ = False      # debugging aid (set by a driver): skip the Coq evaluation of the structural cases

HEADER = (COQ_HEADER + 'From FpyV Require Import Lang.Transforms.Rename Lang.Transforms.Inline Lang.Transforms.Mono '
          'Lang.Transforms.LiftCtx Lang.Transforms.AlphaEq Cases.C09Cases.\nOpen Scope list_scope.\n')

V = lambda x: Node('var', x)          # noqa: E731
PV = lambda x: Node('pvar', x)        # noqa: E731


def lit(q):
    return Node('num', N.fin(q))


def op2(o, a, b):
    return Node('op2', o, a, b)


def asg(x, e):
    return Node('assign', PV(x), e)


def call(f, *args):
    return Node('call', f, list(args))


RMODES = ['RNE', 'RNA', 'RTP', 'RTN', 'RTZ', 'RAZ']
LITS = [1, 2, 3, 5, F(1, 2), F(3, 8), F(5, 4), F(1, 10), F(1, 3), F(22, 7), -2]


# ---------------------------------------------------------------- generator
class Gen:
    """Caller/callee programs.  `cat` is the risk category of the program (see run())."""

    def __init__(self, rng, cat):
        self.r = rng
        self.cat = cat
        self.consts = {}
        self.helpers = []     # (Func, kind)
        self.n = 0
        self.taken = {'t', 'r', 'x', 'y', 'xs', 'ys', 'a', 'b', 'v', 'zs'}
        self.pin = None       # category same-pin: the context caller and callees declare
        self.cx = cat in ('runtime-with', 'module')   # main takes a Context parameter `cx` and opens `with cx:`
        self.feats = set()

    def fresh(self, b):
        """a new name.  Digit-free unless the category is `gensym-digits`: utils.Gensym used to re-check a bumped
        name `base<counter>` under a stale hash (finding C12 'Gensym.refresh stale hash', repaired in /repo by
        5bbcd02), so that a source name with a digit suffix was handed out again by the pass; the category keeps
        exercising it."""
        self.n += 1
        if self.cat == 'gensym-digits':
            return f'{b}{self.n}'
        if self.cat in ('gen-names', 'lift-names'):
            # the very names the passes generate: `t`, `ctx`, a callee name + a small counter
            for _ in range(60):
                nm = self.r.choice(['t', 'ctx', 'a', 'b', 'v', 'zs', 'r', 'u', 'acc']) + self.r.choice(['', str(self.r.randint(0, 45))])
                if nm not in self.taken and nm not in ('a', 'b', 'v', 'zs', 'x', 'y', 'xs', 'ys'):
                    self.taken.add(nm)
                    return nm
        k, s = self.n, ''
        while True:
            s = 'abcdefghijklmnopqrstuvwxyz'[k % 26] + s
            k //= 26
            if k == 0:
                break
        return f'{b}_{s}'

    def small_ctx(self):
        r = self.r
        k = r.random()
        rm = r.choice(RMODES) if r.random() < 0.5 else 'RNE'
        if k < 0.55:
            return CtxSpec('MPFloat', p=r.randint(2, 6), rm=rm)
        if k < 0.8:
            return CtxSpec('MPSFloat', p=r.randint(2, 5), emin=r.randint(-4, 0), rm=rm)
        es = r.randint(2, 4)
        return CtxSpec('IEEE', es=es, nbits=es + r.randint(3, 6), rm=rm)

    def ctx_const(self, name=None):
        spec = self.small_ctx()
        for nm, s in self.consts.items():
            if s.key() == spec.key() and name is None:
                return Node('ctxval', nm, s)
        nm = name or ('K' + 'ABCDEFGHIJKLMNOPQRSTUVWXYZ'[len(self.consts) % 26] + 'ABCDEFGHIJKLMNOPQRSTUVWXYZ'[len(self.consts) // 26])
        self.consts[nm] = spec
        return Node('ctxval', nm, spec)

    def ctx_expr(self, allow_ctor=True):
        """the header of a `with`: a module constant or a constructor with literal arguments"""
        r = self.r
        if not allow_ctor or r.random() < 0.5:
            return self.ctx_const()
        rm = r.choice(RMODES) if r.random() < 0.4 else 'RNE'
        k = r.random()
        if k < 0.6:
            return Node('ctor', 'MPFloat', rm, None, [lit(r.randint(2, 7))])
        if k < 0.8:
            return Node('ctor', 'MPSFloat', rm, None, [lit(r.randint(2, 6)), lit(r.randint(-4, 0))])
        es = r.randint(2, 4)
        return Node('ctor', 'IEEE', rm, 'OVERFLOW', [lit(es), lit(es + r.randint(3, 6))])

    # ---- call-free expressions over the real variables `rv` and list variables `lv`
    def rexpr(self, rv, lv, d=2):
        r = self.r
        if d <= 0 or r.random() < 0.3:
            c = r.random()
            if rv and c < 0.6:
                return V(r.choice(rv))
            if lv and c < 0.8:
                return Node('ref', V(r.choice(lv)), lit(r.randint(0, 1)))
            return lit(r.choice(LITS))
        c = r.random()
        if c < 0.7:
            return op2(r.choice(['add', 'sub', 'mul', 'div']), self.rexpr(rv, lv, d - 1), self.rexpr(rv, lv, d - 1))
        if c < 0.8:
            return Node('op1', r.choice(['fabs', 'round', 'sqrt']), self.rexpr(rv, lv, d - 1))
        if c < 0.9:
            return Node('op3', 'fma', self.rexpr(rv, lv, d - 1), self.rexpr(rv, lv, d - 1), self.rexpr(rv, lv, d - 1))
        return Node(r.choice(['min', 'max']), [self.rexpr(rv, lv, d - 1), self.rexpr(rv, lv, d - 1)])

    def site_ctx(self):
        """the header of a `with` of the caller around call sites: also the run-time context parameter"""
        if self.cx and self.r.random() < 0.45:
            self.feats.add('site-in-with-runtime-ctx')
            return V('cx')
        return self.ctx_expr()

    def bexpr(self, rv, lv):
        return Node('cmp', [self.r.choice(['<', '<=', '>', '>='])], [self.rexpr(rv, lv, 1), self.rexpr(rv, lv, 1)])

    # ---- callees.  kinds: pure (a, b) -> R ; mut (zs, v) -> R ; wth (a) -> R ; chain (a, zs) -> R
    CLASH = ['a', 'b', 'v', 'r', 't', 'x', 'y', 'i', 'u', 'acc', 'zs', 'xs']

    def local(self):
        """a callee-local name: often one the caller uses too"""
        return self.r.choice(self.CLASH) if self.r.random() < 0.6 else self.fresh('w')

    def helper(self, kind, callees=()):
        r = self.r
        name = self.fresh({'pure': 'hp', 'mut': 'hm', 'wth': 'hw', 'chain': 'hc', 'multi': 'hr', 'loop': 'hl'}[kind])
        ctx = self.small_ctx() if r.random() < 0.5 else None
        if self.pin is not None and r.random() < 0.75:
            ctx = self.pin
            self.feats.add('callee-pins-the-callers-context')
        self.feats.add('callee-declared-ctx' if ctx else 'callee-inherits-ctx')
        if kind == 'pure':
            params, rv, lv = ['a', 'b'], ['a', 'b'], []
        elif kind in ('mut', 'loop'):
            params, rv, lv = ['zs', 'v'], ['v'], ['zs']
        elif kind == 'chain':
            params, rv, lv = ['a', 'zs'], ['a'], ['zs']
        else:
            params, rv, lv = ['a'], ['a'], []
        body = []
        if kind == 'mut':
            body.append(Node('iassign', 'zs', [lit(r.randint(0, 1))],
                             op2(r.choice(['add', 'mul', 'sub']), Node('ref', V('zs'), lit(0)), V('v'))))
            self.feats.add('callee-mutates-list')
        for _ in range(r.randint(0, 2)):
            x = self.local()
            while x in params:
                x = self.fresh('w')
            body.append(asg(x, self.rexpr(rv, lv)))
            if x not in rv:
                rv = rv + [x]
        if kind == 'loop':
            acc, z, i = self.local(), self.fresh('z'), self.fresh('k')
            while acc in params or acc in rv:
                acc = self.fresh('w')
            body.append(asg(acc, lit(0)))
            body.append(Node('for', Node('ptuple', [PV(i), PV(z)]), Node('enumerate', V('zs')),
                             [asg(acc, op2('add', V(acc), op2('mul', V(z), V(i))))]))
            ws = self.fresh('ws')
            e1, e2 = self.fresh('e'), self.fresh('e')
            body.append(asg(ws, Node('comp', [(PV(e1), V('zs')), (PV(e2), Node('range', [lit(2)]))],
                                     op2('mul', V(e1), op2('add', V(e2), V('v'))))))
            cnt = self.fresh('c')
            body.append(asg(cnt, lit(0)))
            body.append(Node('while', Node('cmp', ['<'], [V(cnt), lit(2)]),
                             [asg(acc, op2('add', V(acc), Node('ref', V(ws), V(cnt)))), asg(cnt, op2('add', V(cnt), lit(1)))]))
            rv = rv + [acc]
            self.feats.add('callee-loops-comprehension')
        if kind == 'chain' and callees:
            g, gk = r.choice(callees)
            x = self.local()
            while x in params:
                x = self.fresh('w')
            body.append(asg(x, self.call_of(g, gk, rv, lv)))
            rv = rv + [x]
            self.feats.add('chain')
        if kind == 'wth' or r.random() < 0.3:
            x = self.local()
            while x in params:
                x = self.fresh('w')
            inner = [asg(x, self.rexpr(rv, lv))]
            if r.random() < 0.4:
                inner = [Node('with', None, self.ctx_expr(), inner)]
                self.feats.add('callee-nested-with')
            body.append(Node('with', None, self.ctx_expr(), inner))
            rv = rv + [x]
        ret = Node('return', self.rexpr(rv, lv))
        if kind == 'multi':
            body.append(Node('if1', self.bexpr(rv, lv), [Node('return', self.rexpr(rv, lv))]))
            self.feats.add('callee-multi-return')
        elif r.random() < 0.25:
            ret = Node('with', None, self.ctx_expr(), [ret])     # the trailing return under a `with`
            if r.random() < 0.4:
                ret = Node('with', None, self.ctx_expr(), [ret])
            self.feats.add('callee-return-in-with')
        body.append(ret)
        f = Func(name, params, ctx, body)
        self.helpers.append((f, kind))
        return f, kind

    def call_of(self, f, kind, rv, lv):
        """a call of helper f with call-free arguments"""
        if kind == 'pure':
            return call(f.name, self.rexpr(rv, lv, 1), self.rexpr(rv, lv, 1))
        if kind in ('mut', 'loop'):
            return call(f.name, V(self.r.choice(lv)), self.rexpr(rv, lv, 1))
        if kind == 'chain':
            return call(f.name, self.rexpr(rv, lv, 1), V(self.r.choice(lv)))
        return call(f.name, self.rexpr(rv, lv, 1))

    # ---- the caller: statements with call sites in statement position
    def site_stmts(self, rv, lv, d, hs):
        """a block of 1-3 statements, each possibly a compound one containing call sites"""
        r = self.r
        out = []
        for _ in range(r.randint(1, 3)):
            c = r.random()
            if c < 0.45 or d <= 0:
                f, k = r.choice(hs)
                x = r.choice(rv) if (rv and r.random() < 0.5) else self.fresh('t')
                if r.random() < 0.15:
                    out.append(Node('effect', self.call_of(f, k, rv, lv)))
                    self.feats.add('effect-site')
                else:
                    out.append(asg(x, self.call_of(f, k, rv, lv)))
                    if x not in rv:
                        rv.append(x)
                self.feats.add('site-' + k)
            elif c < 0.6:
                name = None
                body = self.site_stmts(rv, lv, d - 1, hs)
                if r.random() < 0.4:
                    body = [Node('with', None, self.site_ctx(), body)]
                    self.feats.add('site-in-nested-with')
                out.append(Node('with', name, self.site_ctx(), body))
                self.feats.add('site-in-with')
            elif c < 0.72:
                i = self.fresh('i')
                body = self.site_stmts(list(rv), lv, d - 1, hs)
                out.append(Node('for', PV(i), Node('range', [lit(r.randint(1, 3))]), body))
                self.feats.add('site-in-for')
            elif c < 0.8:
                z = self.fresh('z')
                body = self.site_stmts(rv + [z], lv, d - 1, hs)
                out.append(Node('for', PV(z), V(r.choice(lv)), body))
                self.feats.add('site-in-for-list')
            elif c < 0.88:
                k = self.fresh('n')
                body = self.site_stmts(list(rv), lv, d - 1, hs) + [asg(k, op2('add', V(k), lit(1)))]
                out += [asg(k, lit(0)), Node('while', Node('cmp', ['<'], [V(k), lit(r.randint(1, 2))]), body)]
                self.feats.add('site-in-while')
            elif c < 0.95:
                b1 = self.site_stmts(list(rv), lv, d - 1, hs)
                if r.random() < 0.5:
                    out.append(Node('if1', self.bexpr(rv, lv), b1))
                else:
                    out.append(Node('if', self.bexpr(rv, lv), b1, self.site_stmts(list(rv), lv, d - 1, hs)))
                self.feats.add('site-in-if')
            else:
                out.append(Node('iassign', r.choice(lv), [lit(r.randint(0, 1))], self.rexpr(rv, lv)))
        return out

    def main(self, body, rv_ret):
        ret = Node('return', Node('tuple', [V(x) for x in rv_ret] + [V('xs'), V('ys')]))
        ctx = self.small_ctx() if self.r.random() < 0.2 else None
        if self.pin is not None:
            ctx = self.pin
        if self.cat == 'module':
            ctx = None          # the entry context comes from Module.add
        return Func('main', ['x', 'y', 'xs', 'ys'] + (['cx'] if self.cx else []), ctx, body + [ret])

    def program(self):
        r, cat = self.r, self.cat
        rv, lv = ['x', 'y'], ['xs', 'ys']
        if cat == 'same-pin':
            # caller and callees pin the SAME context; the calls sit in `with` blocks of other contexts, in loops
            self.pin = r.choice([CtxSpec('IEEE', es=8, nbits=32, rm='RNE'), CtxSpec('MPFloat', p=r.randint(6, 9), rm='RNE'),
                                 CtxSpec('MPSFloat', p=6, emin=-8, rm='RNE')])
            hs = [self.helper('pure'), self.helper('mut')]
            p1, m1 = hs[0][0], hs[1][0]
            low = Node('ctor', 'IEEE', 'RNE', 'OVERFLOW', [lit(5), lit(16)]) if r.random() < 0.5 else Node('ctor', 'MPFloat', r.choice(RMODES), None, [lit(r.randint(2, 4))])
            body = [asg('t', V('x')), asg('r', V('y')),
                    Node('with', None, low,
                         [asg('t', self.call_of(p1, 'pure', ['x', 'y', 't'], lv)),
                          Node('for', PV('i'), Node('range', [lit(2)]),
                               [asg('r', self.call_of(m1, 'mut', ['x', 'y', 't', 'r'], lv)),
                                Node('with', None, self.ctx_expr(), [asg('t', self.call_of(p1, 'pure', ['t', 'r', 'i'], lv))])])]),
                    asg('r', op2('add', V('r'), self.call_of(p1, 'pure', ['t', 'r'], lv)))]
            body += self.site_stmts(['x', 'y', 't', 'r'], lv, 2, hs)
            return self.finish(body, ['x', 'y', 't', 'r'])
        if cat in ('runtime-with', 'module'):
            kinds = ['pure', 'mut', 'wth']
            r.shuffle(kinds)
            hs = [self.helper(k) for k in kinds[:r.randint(2, 3)]]
            if r.random() < 0.5:
                hs.append(self.helper('chain', hs))
            f0, k0 = hs[0]
            body = [asg('t', self.rexpr(rv, lv)), asg('r', lit(r.choice(LITS))),
                    asg('t', self.call_of(f0, k0, ['x', 'y', 't'], lv)),
                    Node('with', None, V('cx'), [asg('r', self.call_of(f0, k0, ['x', 'y', 't', 'r'], lv)),
                                                 Node('for', PV('i'), Node('range', [lit(2)]),
                                                      [asg('t', self.call_of(hs[1][0], hs[1][1], ['t', 'r', 'i'], lv))])])]
            self.feats.add('site-in-with-runtime-ctx')
            rv += ['t', 'r']
            body += self.site_stmts(rv, lv, 2, hs)
            return self.finish(body, ['x', 'y', 't', 'r'])
        if cat in ('safe', 'safe-deep', 'gensym-digits', 'gen-names'):
            kinds = ['pure', 'mut', 'wth', 'loop']
            r.shuffle(kinds)
            hs = [self.helper(k) for k in kinds[:r.randint(2, 3)]]
            if r.random() < 0.7:
                hs.append(self.helper('chain', hs))
                if r.random() < 0.4:
                    hs.append(self.helper('chain', [hs[-1]] + hs[:1]))
            if r.random() < 0.3:
                hs.append(self.helper('multi'))
            body = [asg('t', self.rexpr(rv, lv)), asg('r', lit(r.choice(LITS)))]
            rv += ['t', 'r']
            body += self.site_stmts(rv, lv, 3 if cat == 'safe-deep' else 2, hs)
            body += self.site_stmts(rv, lv, 1, hs)
            return self.finish(body, ['x', 'y', 't', 'r'])
        if cat == 'expr-pure':
            # calls of PURE, total callees in arbitrary (unconditionally evaluated) expression positions
            hs = [self.helper('pure'), self.helper('wth')]
            p, w = hs[0][0].name, hs[1][0].name
            body = [asg('t', op2('add', V('x'), op2('mul', call(p, V('x'), V('y')), call(w, V('y'))))),
                    asg('r', call(p, call(w, V('x')), call(p, V('t'), lit(2)))),
                    Node('if1', Node('cmp', ['>'], [call(p, V('x'), V('t')), lit(0)]), [asg('t', op2('add', V('t'), lit(1)))]),
                    Node('with', None, Node('ctor', 'MPFloat', 'RNE', None, [lit(r.randint(3, 6))]),
                         [asg('r', op2('sub', call(w, V('r')), Node('ref', V('xs'), lit(0))))]),
                    Node('for', PV('i'), Node('range', [lit(2)]), [asg('t', op2('add', V('t'), call(p, V('t'), V('i'))))]),
                    Node('iassign', 'xs', [lit(1)], call(p, V('t'), V('r')))]
            self.feats.add('expr-position-sites')
            return self.finish(body, ['x', 'y', 't', 'r'])
        if cat == 'arg-order':
            # the arguments of an inlined call are bound in order, each after what it splices itself: an argument
            # that mutates a list and one that reads it (sound as coded; not in the proved fragment)
            m = Func(self.fresh('hm'), ['zs', 'v'], None,
                     [Node('iassign', 'zs', [lit(0)], op2('add', Node('ref', V('zs'), lit(0)), V('v'))),
                      Node('return', op2('mul', Node('ref', V('zs'), lit(0)), lit(2)))])
            p = Func(self.fresh('hp'), ['a', 'b'], None, [asg('t', op2('mul', V('b'), lit(3))), Node('return', op2('sub', V('a'), V('t')))])
            self.helpers += [(m, 'mut'), (p, 'pure')]
            body = [asg('t', call(p.name, call(m.name, V('xs'), V('x')), Node('ref', V('xs'), lit(0)))),
                    asg('r', call(p.name, Node('ref', V('xs'), lit(0)), call(m.name, V('xs'), V('y')))),
                    asg('t', op2('add', V('t'), call(p.name, call(m.name, V('ys'), V('t')), call(m.name, V('ys'), V('r')))))]
            self.feats.add('argument-order')
            return self.finish(body, ['x', 'y', 't', 'r'])
        if cat == 'hoist-order':
            m, _ = self.helper('mut')
            body = [asg('t', op2(r.choice(['add', 'mul']), Node('ref', V('xs'), lit(0)), call(m.name, V('xs'), V('x')))),
                    asg('r', op2('add', V('t'), V('y')))]
            return self.finish(body, ['x', 'y', 't', 'r'])
        if cat == 'conditional':
            m, _ = self.helper('mut')
            k = r.random()
            if k < 0.35:
                e = Node('ife', Node('cmp', ['>'], [V('x'), lit(0)]), call(m.name, V('xs'), V('x')), V('y'))
                body = [asg('t', e)]
            elif k < 0.7:
                e = Node('and', [Node('cmp', ['>'], [V('x'), lit(0)]), Node('cmp', ['>'], [call(m.name, V('xs'), V('x')), lit(1)])])
                body = [asg('b', e), asg('t', V('y'))]
            else:
                e = Node('comp', [(PV('q'), Node('range', [lit(2)]))], call(m.name, V('xs'), V('x')))
                body = [asg('qs', e), asg('t', Node('ref', V('qs'), lit(1)))]
            body.append(asg('r', op2('add', V('t'), V('y'))))
            return self.finish(body, ['x', 'y', 't', 'r'])
        if cat in ('with-target', 'with-target-used'):
            cc = r.choice(['cc', 't', 'r'])
            inner = [asg('u', op2('add', V('a'), lit(1)))]
            hb = [Node('with', cc, self.ctx_const(), inner)]
            if cat == 'with-target-used':
                hb.append(Node('with', None, V(cc), [asg('u', op2('mul', V('u'), V('a')))]))
            hb.append(Node('return', op2('mul', V('u'), V('a'))))
            h = Func(self.fresh('hw'), ['a'], None, hb)
            self.helpers.append((h, 'wth'))
            body = [asg('t', lit(2)), asg('r', lit(3)), asg('cc', lit(5)), asg('q', call(h.name, V('x'))),
                    asg('t', op2('add', V('t'), V('q')))]
            return self.finish(body, ['x', 'y', 't', 'r', 'cc'])
        if cat == 'comp-var':
            p, _ = self.helper('pure')
            body = [asg('qs', Node('comp', [(PV('q'), V('xs'))], call(p.name, V('q'), V('x')))),
                    asg('t', Node('ref', V('qs'), lit(0))), asg('r', V('y'))]
            return self.finish(body, ['x', 'y', 't', 'r'])
        if cat == 'while-cond':
            p, _ = self.helper('pure')
            body = [asg('t', V('x')), asg('n', lit(0)),
                    Node('while', Node('and', [Node('cmp', ['<'], [V('n'), lit(2)]),
                                               Node('cmp', ['<'], [call(p.name, V('t'), V('y')), lit(100)])]),
                         [asg('t', op2('add', V('t'), call(p.name, V('t'), lit(1)))), asg('n', op2('add', V('n'), lit(1)))]),
                    asg('r', V('y'))]
            return self.finish(body, ['x', 'y', 't', 'r'])
        if cat == 'hdr-computed':
            h = Func(self.fresh('hi'), ['a'], None, [Node('return', V('a'))])
            self.helpers.append((h, 'wth'))
            low = CtxSpec('MPFloat', p=2, rm='RNE')
            self.consts['KLOW'] = low
            body = [asg('t', V('x')),
                    Node('with', None, Node('ctxval', 'KLOW', low),
                         [Node('with', None, Node('ctor', 'MPFloat', 'RNE', None,
                                                  [call(h.name, op2('mul', lit(3), lit(r.choice([5, 7, 11]))))]),
                               [asg('t', op2('add', V('t'), V('y')))])]),
                    asg('r', V('t'))]
            return self.finish(body, ['x', 'y', 't', 'r'])
        if cat == 'onelevel-freevar':
            # a callee that reads a module-level context named like the temporary the pass generates
            self.consts['t'] = CtxSpec('MPFloat', p=3, rm='RNE')
            h = Func(self.fresh('hw'), ['a'], None,
                     [Node('with', None, Node('ctxval', 't', self.consts['t']), [asg('u', op2('add', V('a'), lit(1)))]),
                      Node('return', V('u'))])
            self.helpers.append((h, 'wth'))
            body = [asg('q', call(h.name, V('x'))), asg('r', op2('add', V('q'), V('y')))]
            return self.finish(body, ['x', 'y', 'q', 'r'])
        raise ValueError(cat)

    def finish(self, body, rv_ret):
        prog = Program([h for h, _ in self.helpers] + [self.main(body, rv_ret)])
        # module-level context constants that no `ctxval` node mentions any more are harmless
        return prog

    # ---- arguments
    FIN = [0, 1, -1, 2, 3, 0.5, -0.75, 1.7, 0.1, 3.14159, 1e10, -2.5e-7, 2.0 ** -20, 123456789, 100, 0.3, 1 + 2.0 ** -15]
    SPEC = [0.0, -0.0, float('inf'), float('-inf'), float('nan')]

    def number(self, ps):
        r = self.r
        return N.of(r.choice(self.SPEC) if r.random() < ps else r.choice(self.FIN))

    def args(self, ps):
        a = [self.number(ps), self.number(ps), [self.number(ps * 0.5) for _ in range(3)], [self.number(ps * 0.5) for _ in range(3)]]
        if self.cx:
            a.append(self.r.choice([CtxSpec('IEEE', es=5, nbits=16, rm='RNE'), CtxSpec('IEEE', es=8, nbits=32, rm='RNE'),
                                    self.small_ctx(), self.small_ctx()]))
        return a


# ---------------------------------------------------------------- lift_context / close programs
def lift_program(r, cat):
    g = Gen(r, cat)
    # lift-names: the function's own parameter / locals carry the names the pass generates (`ctx`, `ctx<N>`)
    yn = 'ctx' if cat == 'lift-names' else 'y'
    rv, lv = ['x', yn], ['xs']

    def ctor(hdr_pos=False):
        rm = r.choice(RMODES) if r.random() < 0.4 else 'RNE'
        k = r.random()
        if cat == 'lift-computed' and hdr_pos and k < 0.7:
            return Node('ctor', 'MPFloat', rm, None, [op2(r.choice(['mul', 'add']), lit(r.choice([3, 5])), lit(r.choice([3, 5, 7])))])
        if k < 0.6:
            return Node('ctor', 'MPFloat', rm, None, [lit(r.randint(2, 9))])
        if k < 0.8:
            return Node('ctor', 'MPSFloat', rm, None, [lit(r.randint(2, 6)), lit(r.randint(-4, 0))])
        es = r.randint(2, 4)
        return Node('ctor', 'IEEE', rm, 'OVERFLOW', [lit(es), lit(es + r.randint(3, 6))])

    def hdr():
        return ctor(True) if r.random() < 0.75 else g.ctx_const()

    def blk(d):
        out = []
        for _ in range(r.randint(1, 2)):
            c = r.random()
            if c < 0.35 or d <= 0:
                out.append(Node('with', ('k' if r.random() < 0.2 else None), hdr(),
                                [asg('acc', op2(r.choice(['add', 'mul']), V('acc'), g.rexpr(rv + ['acc'], lv, 1)))]))
            elif c < 0.55:
                out.append(Node('for', PV(g.fresh('z')), V('xs'), blk(d - 1)))
            elif c < 0.7:
                k = g.fresh('n')
                out += [asg(k, lit(0)), Node('while', Node('cmp', ['<'], [V(k), lit(2)]), blk(d - 1) + [asg(k, op2('add', V(k), lit(1)))])]
            elif c < 0.8:
                out.append(Node('if1', g.bexpr(rv + ['acc'], lv), blk(d - 1)))
            elif c < 0.9:
                out.append(Node('with', None, hdr(), blk(d - 1)))
            else:
                d0 = g.fresh('d')
                out += [asg(d0, ctor()), Node('with', None, V(d0), [asg('acc', op2('add', V('acc'), V('x')))])]
        return out
    body = [asg('acc', V('x'))]
    extra_ret = []
    if cat == 'lift-names':
        for k in sorted(r.sample(range(0, 14), 5)):
            body.append(asg(f'ctx{k}', op2('add', V(rv[-1]), lit(k))))
            rv.append(f'ctx{k}')
            extra_ret.append(V(f'ctx{k}'))
        loc = r.choice(['ctx_b', 'ctx99', 'ctx20'])
        body += [asg(loc, g.ctx_const()), Node('with', None, V(loc), [asg('acc', op2('mul', V('acc'), V(yn)))])]
    if cat == 'lift-const-var':
        body += [asg('p', lit(r.randint(3, 6))),
                 Node('for', PV('z'), V('xs'), [Node('with', None, Node('ctor', 'MPFloat', 'RNE', None, [V('p')]),
                                                       [asg('acc', op2('add', V('acc'), V('z')))])])]
    else:
        body += blk(2)
    ctx = g.small_ctx() if (r.random() < 0.4 or cat == 'lift-computed') else None
    if cat == 'lift-computed':
        ctx = CtxSpec('MPFloat', p=2, rm='RNE')
    f = Func('main', ['x', yn, 'xs'], ctx, body + [Node('return', Node('tuple', [V('acc'), V(yn), V('xs')] + extra_ret))])
    g.helpers = []
    return Program([f]), g


def close_program(r):
    """A function reading module-level data constants; -> (source text, captured [(name, python value)])"""
    g = Gen(r, 'close')
    names = ['KA', 'KB', 'KT', 'KL', 'KF']
    vals = {'KA': r.choice([2.5, 3, 0.1, -1.25]), 'KB': r.random() < 0.5,
            'KT': (r.choice([1, 2, 0.5]), r.choice([0.1, 4, -3])), 'KL': [1.5, r.choice([2, 0.3]), 4.0], 'KF': r.choice([7, 0.75])}
    used = [n for n in names if r.random() < 0.7] or ['KA']
    rv = ['x', 'y']
    e = g.rexpr(rv, [], 1)
    if 'KA' in used:
        e = op2('mul', V('KA'), e)
    if 'KF' in used:
        e = op2('add', e, V('KF'))
    if 'KT' in used:
        e = op2('add', e, Node('fst', V('KT')))
    if 'KL' in used:
        e = op2('sub', e, Node('ref', V('KL'), lit(r.randint(0, 2))))
    if 'KB' in used:
        e = Node('ife', V('KB'), e, V('y'))
    body = [asg('t', e), Node('return', Node('tuple', [V('t')] + ([V('KT')] if 'KT' in used else [])))]
    f = Func('main', ['x', 'y'], (g.small_ctx() if r.random() < 0.4 else None), body)
    lines = ['import fpy2 as fp', ''] + [f'{n} = {vals[n]!r}' for n in names] + ['', f.source()]
    return '\n'.join(lines), f, [(n, vals[n]) for n in sorted(used)]


def fv_program(r, cat):
    """Callee CLOSURES made by factories: each captures data variables (`K`, `J`) by value; several closures
    capture a variable of the same name with equal or different values.  -> (source, sites, helpers) where
    helpers: {name: (own captured {var: value}, [called helper names])}, sites: callee names of main's call
    sites in visit order.  Statement-position sites only (the proved fragment)."""
    vals = [0.1, 0.3, 2.5, 3, -1.25, 0.75]
    ka, kb = r.sample(vals, 2)
    ja = r.choice(vals)
    jb = ja if r.random() < 0.5 else r.choice([v for v in vals if v != ja])
    dctx = lambda: ('' if r.random() < 0.6 else f'(ctx=fp.MPFloatContext({r.randint(3, 8)}))')   # noqa: E731
    L = ['import fpy2 as fp', '', 'KLOW = fp.MPFloatContext(4)', '',
         'def mk_sc(K):', f'    @fp.fpy{dctx()}', '    def sc(a):',
         r.choice(['        return K * a', '        u = a + K\n        return u * K', '        with KLOW:\n            u = K * a\n        return u + a']),
         '    return sc', '',
         'def mk_mu(K, J):', f'    @fp.fpy{dctx()}', '    def mu(zs, v):', '        zs[0] = zs[0] * K + v', '        return zs[0] + J', '    return mu', '',
         'def mk_mid(K, inner):', '    @fp.fpy', '    def mid(a):', '        v = inner(a)', '        return v * K + 1', '    return mid', '',
         f'sc_a = mk_sc({ka!r})', f'sc_b = mk_sc({kb!r})', f'sc_c = mk_sc({ka!r})',
         f'mu_a = mk_mu({ka!r}, {ja!r})', f'mu_b = mk_mu({kb!r}, {jb!r})', f'mu_c = mk_mu({ka!r}, {ja!r})',
         f'mid_a = mk_mid({ka!r}, sc_a)', f'mid_x = mk_mid({kb!r}, sc_a)', '',
         '@fp.fpy', 'def plain(a):', '    v = sc_a(a)', '    return v + 1', '']
    helpers = {'sc_a': ({'K': ka}, []), 'sc_b': ({'K': kb}, []), 'sc_c': ({'K': ka}, []),
               'mu_a': ({'K': ka, 'J': ja}, []), 'mu_b': ({'K': kb, 'J': jb}, []), 'mu_c': ({'K': ka, 'J': ja}, []),
               'mid_a': ({'K': ka}, ['sc_a']), 'mid_x': ({'K': kb}, ['sc_a']), 'plain': ({}, ['sc_a'])}
    if cat == 'fv-same':
        pool = ['sc_a', 'sc_c', 'mu_a', 'mu_c', 'mid_a', 'plain']
    elif cat == 'fv-conflict':
        pool = ['sc_a', 'sc_b', 'mu_a', 'mu_b', 'sc_c', 'mid_a', 'mid_x', 'plain']
    else:   # fv-captured: the caller has its own variable named like a captured one
        pool = ['sc_a', 'mu_a']
    n = r.randint(2, 4)
    sites = [r.choice(pool) for _ in range(n)]
    if cat == 'fv-conflict' and len({helpers[s][0]['K'] for s in sites if 'K' in helpers[s][0]}) < 2:
        sites[0], sites[-1] = 'sc_a', r.choice(['sc_b', 'mu_b'])

    def callsrc(h, i):
        arg = r.choice(['x', 'y', 't', '(x + t)'])
        return f'{h}(xs, {arg})' if h.startswith('mu') else f'{h}({arg})'
    params = 'x, y, xs' + (', K' if cat == 'fv-captured' and r.random() < 0.5 else '')
    body = ['    t = x * y']
    if cat == 'fv-captured' and ', K' not in params:
        body.append(f'    K = {r.choice([5.0, 7, 0.5])!r}')
    for i, h in enumerate(sites):
        c = r.random()
        call = callsrc(h, i)
        if c < 0.5:
            body.append(f'    t = {call}')
        elif c < 0.7:
            body += ['    with KLOW:', f'        t = {call}']
        elif c < 0.9:
            body += ['    for i in range(2):', f'        t = {call}']
        else:
            body += [f'    for z in xs:', '        with fp.MPFloatContext(5):', f'            t = {call}']
    body.append('    return (t, xs' + (', K' if cat == 'fv-captured' else '') + ')')
    L += ['@fp.fpy', f'def main({params}):'] + body + ['']
    return '\n'.join(L), sites, helpers, ('K' in params.split(', '))


def fv_caps(helpers, h, recursive):
    """[(var, value)] of the data variables a spliced body of h brings along"""
    own, calls = helpers[h]
    out = list(own.items())
    if recursive:
        for c in calls:
            out += fv_caps(helpers, c, True)
    return out


def fv_must_refuse(helpers, sites, wh, recursive):
    """a name captured with two different values among the bodies spliced in ONE pass: the pass has to raise"""
    sel = sites if wh is None else sites[wh:wh + 1]
    seen = {}
    for s in sel:
        for k, v in fv_caps(helpers, s, recursive):
            if k in seen and seen[k] != v:
                return True
            seen[k] = v
    return False


def lit_of_py(v):
    """const_fold.value_to_literal as a lang Node"""
    if isinstance(v, bool):
        return Node('bool', v)
    if isinstance(v, (int, float, F)):
        return Node('num', N.of(v))
    if isinstance(v, tuple):
        return Node('tuple', [lit_of_py(x) for x in v])
    if isinstance(v, list):
        return Node('list', [lit_of_py(x) for x in v])
    raise lang.Unsupported(f'captured value {v!r}')


class _CloseExporter(lang._Exporter):
    """captured DATA variables are plain variables of the model (they become parameters / prelude targets)"""

    def expr(self, e):
        if type(e).__name__ == 'Var' and self._is_free(e):
            v = self._free_value(str(e.name))
            if not type(v).__name__.endswith('Context'):
                return Node('var', str(e.name))
        return super().expr(e)


def export_close(fd):
    ex = _CloseExporter(fd, {})
    params = [str(a.name) for a in fd.args]
    ctx = fd.ctx
    if ctx is not None:
        ctx = lang._RawCtx(lang.ctx_to_coq(ctx), repr(ctx))
    return Func(fd.name, params, ctx, ex.block(fd.body))


# ---------------------------------------------------------------- running things
class _Timeout(Exception):
    pass


def _alarm(signum, frame):
    raise _Timeout()


def outcome(thunk, seconds=10):
    """('ok', exact value text) | ('err', exception class name)"""
    old = signal.signal(signal.SIGALRM, _alarm)
    signal.alarm(seconds)
    try:
        v = thunk()
        return ('ok', cval_of_py(v))
    except _Timeout:
        return ('err', 'Timeout')
    except RecursionError:
        return ('err', 'RecursionError')
    except Exception as e:  # noqa: BLE001 -- every exception class is an observable outcome
        return ('err', type(e).__name__)
    finally:
        signal.alarm(0)
        signal.signal(signal.SIGALRM, old)


REFUSALS = ('FPySyntaxError', 'RuntimeError', 'TransformReferenceError', 'CallGraphError', 'TransformDeclined', 'ValueError')


def apply_real(thunk):
    """-> ('ok', Function) | ('refused', exception class) | ('crash', text)"""
    try:
        return ('ok', thunk())
    except Exception as e:  # noqa: BLE001
        tn = type(e).__name__
        if tn in REFUSALS:
            return ('refused', tn)
        return ('crash', f'{tn}: {str(e)[:200]}')


def coq_eval_two(ck, header, case_type, cases, fn_a, fn_b, shards=16, timeout=1200, tag='cases'):
    """Like Check.coq_eval_mismatches for two predicates at once (the cost of a shard is loading the libraries and
    elaborating the case terms, not evaluating them): -> (indices where fn_a is false, indices where fn_b is false, error)."""
    import re
    from ..common import COQ, sh
    chunk = max(1, (len(cases) + shards - 1) // shards)
    names = []
    for si in range(0, len(cases), chunk):
        part = cases[si:si + chunk]
        name = f'{tag}_{si // chunk:04d}'
        body = ';\n'.join(f'({si + j}%nat, {c})' for j, c in enumerate(part))
        text = (header + '\n'
                f'Definition cases : list (nat * ({case_type})) := [\n{body}\n].\n'
                f'Definition bad_a := map fst (filter (fun ic => negb ({fn_a} (snd ic))) cases).\n'
                f'Definition bad_b := map fst (filter (fun ic => negb ({fn_b} (snd ic))) cases).\n'
                'Eval vm_compute in bad_a.\nEval vm_compute in bad_b.\n')
        (ck.dir / f'{name}.v').write_text(text)
        names.append(name)
    if not names:
        return [], [], None
    cmd = (f"xargs -P16 -I{{}} sh -c 'timeout {timeout} coqc -Q {COQ} FpyV -Q . Dyn {{}}.v > {{}}.out 2>&1 || echo FAIL >> {{}}.out'")
    sh(cmd, cwd=ck.dir, input='\n'.join(names), timeout=timeout * (len(names) // 16 + 1) + 60)
    a, b, err = [], [], None
    for name in names:
        out = (ck.dir / f'{name}.out').read_text()
        ms = re.findall(r'=\s*\[(.*?)\]\s*:\s*list nat', out, re.S)
        if 'FAIL' in out or len(ms) != 2:
            err = (err or '') + f'{name}: {out[-500:]}\n'
            continue
        for dst, body in ((a, ms[0]), (b, ms[1])):
            body = body.strip()
            if body:
                dst += [int(x.replace('%nat', '').strip()) for x in body.split(';')]
    return sorted(a), sorted(b), err


class RefusalSpy:
    """Records, during a real `inline(...)`, the calls each `_FuncInline` instance refused BECAUSE OF THEIR
    POSITION (a refusal reason the code as it is does not have: it exists once fixes/C09-func-inline.diff is
    applied), as {function name: [call numbers in visit order]} -- the oracle `refs` of the model."""

    def __init__(self):
        import fpy2.transform.func_inline as fi
        self.fi = fi
        self.insts = []

    def __enter__(self):
        fi, insts = self.fi, self.insts
        self.orig = fi._FuncInline.__init__

        def init(inst, *a, **k):
            self.orig(inst, *a, **k)
            insts.append(inst)
        fi._FuncInline.__init__ = init
        return self

    def __exit__(self, *a):
        self.fi._FuncInline.__init__ = self.orig

    def refs(self):
        from fpy2.ast.visitor import DefaultVisitor
        from fpy2.function import Function
        out = {}
        for inst in self.insts:
            bad = {id(e) for e, why in getattr(inst, 'refused', []) if 'ahead of the statement' in why}
            if not bad:
                continue
            order = []

            class _C(DefaultVisitor):
                def _visit_call(s, e, ctx):
                    if isinstance(e.fn, Function):
                        order.append(id(e))
                    super()._visit_call(e, ctx)
            _C()._visit_function(inst.func, None)
            occ = sorted(i for i, n in enumerate(order) if n in bad)
            out[inst.func.name] = sorted(set(out.get(inst.func.name, [])) | set(occ))
        return out


# the known-finding class of a behavioural difference, by the category of the generated program
KEY_OF_CAT = {
    'hoist-order': 'inline-hoist-past-earlier-operand',
    'conditional': 'inline-hoist-out-of-conditional',
    # 'with-target': repaired in /repo by 09c9f9c (RenameTarget._visit_context): a regression stream now
    'hdr-computed': 'inline-header-argument-context',
    'onelevel-freevar': 'inline-one-level-free-var-clash',
    'lift-computed': 'lift-computed-constructor-context',
    'lift-const-var': 'lift-above-constant-variable',
}


def run(ck):
    import fpy2 as fp
    from fpy2.strategies import close, inline, lift_context, monomorphize
    from fpy2.transform import FuncInline
    thorough = ck.tier == 'thorough'
    ck.trusted += [
        'Coq 8.16.1 kernel (coqc); vm_compute evaluates the models and the alpha-equivalence checker on the correspondence cases; no native_compute',
        'hand-written Gallina models of the transforms (coq/Lang/Transforms/{Rename,Inline,Mono,LiftCtx}.v) -- tied to /repo on every run by the structural comparison below, not by translation; the model gensym differs from utils.Gensym (the tie is up to a bijective renaming, coq/Lang/Transforms/AlphaEq.v, unverified checker: a bug there can only hide or raise a structural mismatch)',
        'the FPyLang semantics coq/Lang/Sem.v (owned by C04, tied to fpy2 there) as the meaning of programs; the soundness theorems hold for every number instance',
        'harness/lang.py exporter (fpy2 AST -> Coq term, fail-closed) and the generator in harness/props/c09.py',
        'modelled rather than verified: PartialEval is replaced by "constructor with literal (or, in a with header, closed arithmetic) arguments that constructs successfully"; argument-type pinning of monomorphize has no run-time meaning in the model (checked by execution only); Module.specialized() is not modelled',
    ]
    ck.assumptions += [
        'soundness of inline is proved for call sites in statement position with call-free arguments and callees without named with-targets (prog_ok); the other positions are modelled as coded, refuted in the model (C09_*_refuted) and checked behaviourally',
        'lift_ctx soundness is proved for constructors with literal arguments; close for captured scalars and tuples (a captured list becomes a fresh list per call)',
        'successful runs only (inputs on which the original returns)',
    ]
    ok, _ = ck.build_static(['Props/C09.v', 'Cases/C09Cases.v'])
    if ok:
        ck.props('Props/C09.v')

    progdir = ck.dir / 'progs'
    cases, info = [], []          # Coq case terms; (description dict) per case
    stats = {'beh_runs': 0, 'beh_skipped_orig_raises': 0}

    def add_case(term, meta):
        cases.append(term)
        info.append(meta)

    def behav(what, key, meta, orig_thunk, new_thunk):
        """compare one run; returns True if they agree"""
        a = outcome(orig_thunk)
        ck.evaluations += 1
        stats['beh_runs'] += 1
        if a[0] != 'ok':
            stats['beh_skipped_orig_raises'] += 1
            ck.count('orig-raises:' + a[1])
            return True
        b = outcome(new_thunk)
        ck.count('beh:' + ('same' if a == b else 'DIFF'))
        if a != b:
            m = dict(meta)
            m.update({'original': a[1][:600], 'transformed': (b[1][:600] if b[0] == 'ok' else 'raises ' + b[1])})
            ck.violation(what, m, key=key)
            return False
        return True

    def run_pair(f, g, argsl, callers, what, key, meta):
        for j, args in enumerate(argsl):
            for caller in (None, callers[j % len(callers)]):
                def mk(fn, args=args, caller=caller):
                    def th():
                        pa = [py_of_arg(a) for a in copy.deepcopy(args)]
                        return fn(*pa) if caller is None else fn(*pa, ctx=caller.obj())
                    return th
                m = dict(meta)
                m.update({'args': [repr(a) for a in args], 'caller_ctx': None if caller is None else caller.py()})
                if not behav(what, key, m, mk(f), mk(g)):
                    return

    # ------------------------------------------------------------ inline
    cats = (['safe'] * 7 + ['runtime-with'] * 2 + ['same-pin'] * 2 + ['gen-names'] * 2 + ['safe-deep'] + ['expr-pure'] * 2 + ['arg-order', 'hoist-order', 'conditional', 'with-target',
            'with-target-used', 'comp-var', 'while-cond', 'hdr-computed', 'onelevel-freevar', 'gensym-digits'])
    nprog = 260 if thorough else 58
    import os
    dbg = int(os.environ.get('C09_DEBUG_N', '0'))
    if dbg:
        nprog = dbg
    nargs = 8 if thorough else 6
    t0 = time.time()
    for idx in range(nprog):
        cat = cats[idx % len(cats)]
        rng = Rng(ck.seed, f'c09-inl-{idx}')
        g = Gen(rng, cat)
        try:
            prog = g.program()
            modname = f'c09_inl_{idx:04d}'
            # module-level context constants (also those only the callees' `with t:` mention)
            src = prog.source(modname)
            extra = [f'{n} = {s.py()}' for n, s in sorted(g.consts.items()) if f'\n{n} = ' not in src]
            src = src.replace('import fpy2 as fp\n', 'import fpy2 as fp\n' + '\n'.join(extra) + '\n', 1)
            mod = lang.load_module(progdir, modname, src)
            main = mod.main
            P = lang.export_program(main)
        except Exception as e:  # noqa: BLE001
            ck.count('generator-rejected')
            ck.log(f'inline program {idx} ({cat}) rejected: {type(e).__name__}: {str(e)[:200]}')
            continue
        ck.count('inline-program:' + cat)
        for ft in g.feats:
            ck.count('feature:' + ft)
        nsites = len(FuncInline.sites(main.ast))
        ops = [(True, None), (False, None)]
        ks = list(range(nsites))
        rng.shuffle(ks)
        for k in ks[:(3 if thorough else 2)]:
            ops.append((rng.random() < 0.5, k))
        ops.append((True, nsites))          # out of range: must be refused
        callers = [g.small_ctx() for _ in range(3)]
        argsl = [g.args(0.0 if j < 2 else 0.3) for j in range(nargs)]
        for rec, wh in ops:
            with RefusalSpy() as spy:
                res = apply_real(lambda rec=rec, wh=wh: inline(main, wh, recursive=rec))
            refs = spy.refs()
            if refs:
                ck.count('inline-op:position-refusals-reported')
            meta = {'strategy': f'inline(main, where={wh}, recursive={rec})', 'category': cat, 'program': src, 'sites': nsites}
            if res[0] == 'crash':
                ck.count('inline-crash')
                ck.violation('the inline strategy crashed (not a documented refusal)', dict(meta, error=res[1]),
                             key=KEY_OF_CAT.get(cat))
                continue
            real = None
            if res[0] == 'ok':
                try:
                    real = lang.export_funcdef(res[1].ast)
                except lang.Unsupported as e:
                    ck.count('export-failed')
                    ck.log(f'export of inline result failed: {e}')
                    continue
            ck.count('inline-op:' + ('refused:' + res[1] if res[0] == 'refused' else 'ok'))
            whc = 'None' if wh is None else f'(Some {wh}%nat)'
            refc = clist(f'({cstr(g)}, {clist(f"{i}%nat" for i in l)})' for g, l in sorted(refs.items()))
            add_case(f'(KInline {P.coq()} "main" {"true" if rec else "false"} {whc} {refc} {copt(None if real is None else real.coq())})',
                     dict(meta, real=(res[1].format() if res[0] == 'ok' else 'raised ' + res[1])))
            ck.nontriv(('inline', idx, rec, wh))
            if res[0] == 'ok':
                key = KEY_OF_CAT.get(cat)
                if cat == 'onelevel-freevar' and rec:
                    key = None
                if cat == 'arg-order' and wh is not None:
                    # one site only: it is hoisted over the earlier call that stays in place
                    key = 'inline-hoist-past-earlier-operand'
                run_pair(main, res[1], argsl, callers,
                         'inlining changed the result of a function on an input on which the original returns',
                         key, dict(meta, transformed=res[1].format()))
        # repeated inlining: one site at a time until none is left (temp-name clashes across passes)
        if cat in ('safe', 'safe-deep', 'expr-pure', 'gen-names', 'same-pin') and nsites >= 2 and idx % 3 == 0:
            cur, steps = main, 0
            while steps < 6:
                res = apply_real(lambda cur=cur: inline(cur, 0, recursive=False))
                if res[0] != 'ok':
                    break
                cur, steps = res[1], steps + 1
            if steps:
                ck.count('repeated-inline-chains')
                # the intermediate functions carry generated names `base<counter>` (digit-suffixed source names for
                # the next pass: the Gensym stale-hash clash, repaired in /repo by 5bbcd02, showed here)
                run_pair(main, cur, argsl[:3], callers,
                         'repeated one-site inlining changed the result of a function',
                         None, {'strategy': f'inline(.., 0, recursive=False) x {steps}', 'category': cat, 'program': src,
                                'transformed': cur.format()})
    ck.log(f'inline: {len(cases)} structural cases, {stats["beh_runs"]} runs in {time.time() - t0:.1f}s')

    # ------------------------------------------------------------ Module.specialized (not modelled: behaviour only)
    # every call site is rewired to a specialisation of the callee at the site's STATIC calling context, and stays
    # polymorphic where that context is only known at run time (`with cx:`); observed through the rewired Call.fn by
    # flattening the specialised module (statement-position sites only: inlining is sound there, C09_inline_sound)
    t0 = time.time()
    from fpy2 import Module
    nmod = 70 if thorough else 14
    if dbg:
        nmod = max(3, dbg // 5)
    for idx in range(nmod):
        rng = Rng(ck.seed, f'c09-mod-{idx}')
        g = Gen(rng, 'module')
        try:
            prog = g.program()
            modname = f'c09_mod_{idx:04d}'
            src = prog.source(modname)
            mod = lang.load_module(progdir, modname, src)
            main = mod.main
        except Exception as e:  # noqa: BLE001
            ck.count('generator-rejected')
            ck.log(f'module program {idx} rejected: {type(e).__name__}: {str(e)[:200]}')
            continue
        argsl = [g.args(0.0 if j < 2 else 0.3) for j in range(nargs)]
        for ei, entry in enumerate([CtxSpec('IEEE', es=8, nbits=32, rm='RNE'), g.small_ctx(), None][:(3 if thorough else 2)]):
            eobj = None if entry is None else entry.obj()
            meta = {'strategy': f'Module().add(main, name="entry", ctx={None if entry is None else entry.py()}).specialized()'
                                ' [.map(FuncInline.apply)]', 'program': src}

            def build(eobj=eobj):
                m = Module()
                m.add(main, name='entry', ctx=eobj)
                spec = m.specialized()
                flat = spec.map(lambda mm, fd: FuncInline.apply(fd))
                return spec.get('entry').func, flat.get('entry').func
            res = apply_real(build)
            ck.count('module-op:' + res[0])
            if res[0] != 'ok':
                ck.violation('Module.specialized() / map(FuncInline) did not return on a well-formed module',
                             dict(meta, error=res[1]))
                continue
            ent, flat = res[1]
            ck.nontriv(('module', idx, ei))
            for fn2, what in ((flat, 'the specialised module, flattened through its rewired calls, does not return what the '
                                     'original entry returns under the entry context'),
                              (ent, 'the specialised entry does not return what the original entry returns under the entry context')):
                for args in argsl:
                    def o(args=args):
                        pa = [py_of_arg(a) for a in copy.deepcopy(args)]
                        return main(*pa) if eobj is None else main(*pa, ctx=eobj)

                    def n(args=args, fn2=fn2):
                        return fn2(*[py_of_arg(a) for a in copy.deepcopy(args)])
                    if not behav(what, None, dict(meta, args=[repr(a) for a in args], transformed=fn2.format()), o, n):
                        break
    ck.log(f'module specialisation done in {time.time() - t0:.1f}s')

    # ------------------------------------------------------------ inlining callee closures with captured data
    # (FPyLang has no captured data variables: behaviour, and "a conflict must be refused", only)
    t0 = time.time()
    fcats = ['fv-same', 'fv-conflict', 'fv-conflict', 'fv-captured']
    nfv = 80 if thorough else 20
    if dbg:
        nfv = max(4, dbg // 4)
    for idx in range(nfv):
        cat = fcats[idx % len(fcats)]
        rng = Rng(ck.seed, f'c09-fv-{idx}')
        try:
            src, sites, helpers, kparam = fv_program(rng, cat)
            modname = f'c09_fv_{idx:04d}'
            mod = lang.load_module(progdir, modname, src)
            main = mod.main
        except Exception as e:  # noqa: BLE001
            ck.count('generator-rejected')
            ck.log(f'closure program {idx} rejected: {type(e).__name__}: {str(e)[:200]}')
            continue
        ck.count('closure-program:' + cat)
        g = Gen(rng, 'fv')
        argsl = [[g.number(0.0 if j < 2 else 0.25), g.number(0.0 if j < 2 else 0.25), [g.number(0.1) for _ in range(2)]]
                 + ([g.number(0)] if kparam else []) for j in range(nargs)]
        ops = [(True, None), (False, None)] + [(rng.random() < 0.5, k) for k in range(len(sites))][:3]
        for rec, wh in ops:
            res = apply_real(lambda rec=rec, wh=wh: inline(main, wh, recursive=rec))
            meta = {'strategy': f'inline(main, where={wh}, recursive={rec})', 'category': cat, 'program': src}
            ck.count('closure-op:' + ('refused:' + res[1] if res[0] == 'refused' else res[0]))
            ck.nontriv(('closure', idx, rec, wh))
            if res[0] == 'crash':
                ck.violation('the inline strategy crashed (not a documented refusal)', dict(meta, error=res[1]))
                continue
            if res[0] == 'ok' and cat != 'fv-captured' and fv_must_refuse(helpers, sites, wh, rec):
                ck.violation('two callee bodies that capture a variable of the same name with DIFFERENT values were spliced '
                             'into one function (the pass documents a RuntimeError for conflicting free variables)',
                             dict(meta, transformed=res[1].format()))
            if res[0] == 'ok':
                run_pair(main, res[1], argsl, [g.small_ctx() for _ in range(3)],
                         'inlining changed the result of a function on an input on which the original returns',
                         'inline-free-var-captured-by-caller-variable' if cat == 'fv-captured' else None,
                         dict(meta, transformed=res[1].format()))
    ck.log(f'closure inlining done in {time.time() - t0:.1f}s')

    # ------------------------------------------------------------ mono
    t0 = time.time()
    nmono = 60 if thorough else 16
    if dbg:
        nmono = max(2, dbg // 6)
    for idx in range(nmono):
        rng = Rng(ck.seed, f'c09-mono-{idx}')
        g = Gen(rng, 'safe')
        try:
            prog = g.program()
            modname = f'c09_mono_{idx:04d}'
            src = prog.source(modname)
            mod = lang.load_module(progdir, modname, src)
            main = mod.main
            fn = lang.export_funcdef(main.ast)
        except Exception as e:  # noqa: BLE001
            ck.count('generator-rejected')
            continue
        argsl = [g.args(0.0 if j < 2 else 0.3) for j in range(nargs)]
        pins = [g.small_ctx() for _ in range(3)]
        if main.ast.ctx is not None:
            pins[0] = None      # the equivalent pin: the declared context itself
            spec = prog.funcs[-1].ctx
            kw = dict(spec.kw)
            kw['rm'] = 'RTZ' if kw.get('rm', 'RNE') != 'RTZ' else 'RAZ'
            pins[1] = CtxSpec(spec.kind, **kw)      # same format, another rounding mode: `is_equiv`, accepted
        for pi, pin in enumerate(pins):
            pobj = main.ast.ctx if pin is None else pin.obj()
            pcoq = lang.ctx_to_coq(pobj)
            from fpy2.types import ListType, RealType
            targs = None
            if pi == 1:
                targs = [RealType(None), None, ListType(RealType(None)), None]
            res = apply_real(lambda pobj=pobj, targs=targs: monomorphize(main, pobj, targs))
            meta = {'strategy': f'monomorphize(main, {pobj!r}, args={targs!r})', 'program': src}
            if res[0] == 'crash':
                ck.violation('the monomorphize strategy crashed', dict(meta, error=res[1]))
                continue
            real = lang.export_funcdef(res[1].ast) if res[0] == 'ok' else None
            ck.count('mono-op:' + ('ok' if res[0] == 'ok' else 'refused:' + res[1]))
            add_case(f'(KMono {fn.coq()} {pcoq} {copt(None if real is None else real.coq())})',
                     dict(meta, real=(res[1].format() if res[0] == 'ok' else 'raised ' + res[1])))
            ck.nontriv(('mono', idx, pi))
            if res[0] == 'ok':
                m = res[1]
                for j, args in enumerate(argsl):
                    def o(args=args):
                        return main(*[py_of_arg(a) for a in copy.deepcopy(args)], ctx=pobj)

                    def n(args=args):
                        return m(*[py_of_arg(a) for a in copy.deepcopy(args)])

                    def n2(args=args, other=pins[(pi + 1) % 3]):
                        # a pinned function ignores the caller's context
                        return m(*[py_of_arg(a) for a in copy.deepcopy(args)], ctx=(other.obj() if other else fp.FP32))
                    mm = dict(meta, args=[repr(a) for a in args], transformed=m.format())
                    behav('mono(f, c)(*args) differs from f(*args, ctx=c)', None, mm, o, n)
                    if j < 2:
                        behav('mono(f, c)(*args, ctx=c2) differs from f(*args, ctx=c)', None, mm, o, n2)
    ck.log(f'mono done in {time.time() - t0:.1f}s')

    # ------------------------------------------------------------ lift_context
    t0 = time.time()
    lcats = ['lift'] * 4 + ['lift-names'] * 2 + ['lift-computed', 'lift-const-var']
    nlift = 120 if thorough else 32
    if dbg:
        nlift = max(8, dbg // 3)
    for idx in range(nlift):
        cat = lcats[idx % len(lcats)]
        rng = Rng(ck.seed, f'c09-lift-{idx}')
        try:
            prog, g = lift_program(rng, cat)
            modname = f'c09_lift_{idx:04d}'
            src = prog.source(modname)
            mod = lang.load_module(progdir, modname, src)
            main = mod.main
            fn = lang.export_funcdef(main.ast)
        except Exception as e:  # noqa: BLE001
            ck.count('generator-rejected')
            ck.log(f'lift program {idx} rejected: {type(e).__name__}: {str(e)[:200]}')
            continue
        ck.count('lift-program:' + cat)
        res = apply_real(lambda: lift_context(main))
        meta = {'strategy': 'lift_context(main)', 'category': cat, 'program': src}
        if res[0] == 'crash':
            ck.violation('the lift_context strategy crashed', dict(meta, error=res[1]), key=KEY_OF_CAT.get(cat))
            continue
        real = None
        if res[0] == 'ok':
            try:
                real = lang.export_funcdef(res[1].ast)
            except lang.Unsupported as e:
                ck.count('export-failed')
                continue
        ck.count('lift-op:' + ('ok' if res[0] == 'ok' else 'refused:' + res[1]))
        if cat != 'lift-const-var':      # PartialEval's constant propagation through variables is not modelled
            add_case(f'(KLift {fn.coq()} {copt(None if real is None else real.coq())})',
                     dict(meta, real=(res[1].format() if res[0] == 'ok' else 'raised ' + res[1])))
        ck.nontriv(('lift', idx))
        if res[0] == 'ok':
            argsl = [[g.number(0.2 if j > 1 else 0), g.number(0.2 if j > 1 else 0), [g.number(0.1) for _ in range(2)]] for j in range(nargs)]
            argsl[0] = [N.of(1 + 2.0 ** -15), N.of(3), [N.of(1 + 2.0 ** -15), N.of(0.1)]]
            run_pair(main, res[1], argsl, [g.small_ctx() for _ in range(3)],
                     'lifting context constructors changed the result of a function on an input on which the original returns',
                     KEY_OF_CAT.get(cat), dict(meta, transformed=res[1].format()))
    ck.log(f'lift_context done in {time.time() - t0:.1f}s')

    # ------------------------------------------------------------ close
    t0 = time.time()
    nclose = 60 if thorough else 16
    if dbg:
        nclose = max(2, dbg // 6)
    for idx in range(nclose):
        rng = Rng(ck.seed, f'c09-close-{idx}')
        try:
            src, f0, caps = close_program(rng)
            modname = f'c09_close_{idx:04d}'
            mod = lang.load_module(progdir, modname, src)
            main = mod.main
            fn = export_close(main.ast)
        except Exception as e:  # noqa: BLE001
            ck.count('generator-rejected')
            ck.log(f'close program {idx} rejected: {type(e).__name__}: {str(e)[:200]}')
            continue
        res = apply_real(lambda: close(main))
        meta = {'strategy': 'close(main)', 'program': src}
        if res[0] != 'ok':
            ck.violation('the close strategy did not return', dict(meta, error=res[1]))
            continue
        real = export_close(res[1].ast)
        cs = clist(f'({cstr(n)}, {lang.coq(lit_of_py(v))})' for n, v in caps)
        add_case(f'(KClose {cs} {fn.coq()} {real.coq()})', dict(meta, real=res[1].format()))
        ck.nontriv(('close', idx))
        g = Gen(rng, 'close')
        for j in range(nargs):
            args = [g.number(0.3 if j > 1 else 0), g.number(0.3 if j > 1 else 0)]
            for caller in (None, g.small_ctx()):
                def mk(fnc, args=args, caller=caller):
                    def th():
                        pa = [py_of_arg(a) for a in args]
                        return fnc(*pa) if caller is None else fnc(*pa, ctx=caller.obj())
                    return th
                behav('closing a function over its captured values changed its result', None,
                      dict(meta, args=[repr(a) for a in args], transformed=res[1].format()), mk(main), mk(res[1]))
    ck.log(f'close done in {time.time() - t0:.1f}s')

    # ------------------------------------------------------------ Coq decides the structural correspondence
    for c in cases[:3]:
        ck.sample(c[:1200])
    ck.rule = ('generated caller/callee programs (callees pure / list-mutating / with nested `with` / loops+comprehensions / chains / '
               'multi-return, with or without declared context, locals clashing with the caller\'s names; call sites in nested with, '
               'for, while, if; expression-position sites; refusal shapes) x {all sites recursive, all sites one level, one site by index, '
               'index out of range}; mono with 3 pinned contexts; lift_context on loops/branches with literal, computed and '
               'variable constructor arguments; close over scalar/tuple/list constants; each transformed function executed against '
               'the original on 6+ argument tuples incl. specials, with and without caller context; non-trivial = distinct '
               '(program, strategy invocation)')
    t0 = time.time()
    # first against the model of the code as it is (and, in the same pass, is the case in the proved fragment?); what
    # differs, against the models with proposed repairs in force
    if NOCOQ:
        nc, nf, err = [], [], None
    else:
        nc, nf, err = coq_eval_two(ck, HEADER, 'case9', cases, 'ascoded9', 'frag9')
    if err:
        ck.broken.append('structural correspondence evaluation failed: ' + err[:600])
    bad = []
    if nc:
        sub, err1 = ck.coq_eval_mismatches(HEADER, 'case9', [cases[i] for i in nc], 'check9', chunk=max(1, len(nc) // 16 + 1),
                                           timeout=1200, tag='variants')
        if err1:
            ck.broken.append('structural correspondence evaluation failed: ' + err1[:600])
        bad = [nc[j] for j in sub]
    for k, i in enumerate(bad):
        meta = info[i]
        out = ck.coq_eval_raw(HEADER, f'model9 {cases[i]}', name=f'diag_{i:05d}', timeout=300) if k < 4 else '(not computed)'
        # categories whose defect shows in the structure itself: a generated name that is already taken
        # (the model's gensym is fresh by construction)
        key = {'onelevel-freevar': 'inline-one-level-free-var-clash'}.get(meta.get('category'))
        ck.violation('the output of the real strategy is not the output of the Gallina model (up to renaming), or a refusal does '
                     'not coincide with the model\'s None', dict(meta, model_says=out[-2500:]), key=key)
    repaired = sorted(set(nc) - set(bad))
    ck.extra['cases_equal_to_the_model_of_the_code_as_it_is'] = len(cases) - len(nc)
    ck.extra['cases_equal_only_to_a_model_with_a_proposed_repair'] = len(repaired)
    if repaired:
        ck.log(f'{len(repaired)} cases match the model only with one of the proposed repairs (fixes/C09-*.diff) in force: '
               'the tree under test seems to carry a repair')
    ck.extra['structural_cases'] = len(cases)
    ck.extra['cases_in_proved_fragment'] = len(cases) - len(nf)
    ck.extra['behavioural_runs'] = stats['beh_runs']
    ck.extra['behavioural_runs_skipped_because_original_raises'] = stats['beh_skipped_orig_raises']
    ck.log(f'Coq: {len(cases)} structural cases, {len(bad)} mismatches, {len(cases) - len(nf)} in the proved fragment, {time.time() - t0:.1f}s')
