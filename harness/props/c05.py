"""C05 — number values behave as the real numbers they denote.

Proof: coq/Num/RealFloatProofs.v, coq/Num/FloatProofs.v (statements in
coq/Props/C05.v).  Tie: correspondence — every case below is executed on
fpy2 (RealFloat / Float) and on the Gallina model (vm_compute inside Coq).
"""
import itertools
import math
import struct
from fractions import Fraction

from ..common import Rng, cz, copt
from ..numlib import (fl_of, o_b, o_cmp, o_err, o_fl, o_pair, o_rf, o_z, rf_of)

MANIFEST = {
    'text': 'Coq proof that the model of RealFloat/Float arithmetic (+,-,*,**,neg,pos,abs,compare,split,normalize,int) '
            'denotes the real operations for all encodings (unbounded); tied to /repo by running every operation on all '
            'pairs of small encodings and random wide values on both fpy2 and the model.',
    'technique': 'machine-checked proof in Coq (Flocq reals) + model/implementation correspondence by vm_compute + model of the integer core regenerated from the Python source on every run (py2v translator) with bridge lemmas re-proved',
}

HEADER = ('From Coq Require Import ZArith List Bool.\n'
          'From FpyV Require Import Num.RealFloat Num.Float Num.Out Cases.C05Cases.\n'
          'Import ListNotations.\nOpen Scope Z_scope.\n')


def key_of(v: Fraction):
    if v.denominator == 1:
        return f'(OKey (HInt {cz(v.numerator)}))'
    return f'(OKey (HFrac {cz(v.numerator)} {cz(v.denominator)}))'


def run(ck):
    # tie A: the model of the integer core is regenerated from the source and the bridge lemmas re-proved
    # (coqc runs in the background while the correspondence streams run)
    from .. import py2v_tie
    tie_join = py2v_tie.start(ck)
    try:
        _run(ck)
    finally:
        tie_join()


def _run(ck):
    from fpy2.number import Float, RealFloat
    thorough = ck.tier == 'thorough'
    ck.trusted += [
        'Coq 8.16.1 kernel (coqc), vm_compute for evaluating the model on correspondence cases; no native_compute',
        'Flocq 4 (Core, Calc.Operations) as the definition of F2R / real denotation',
        'correspondence harness harness/props/c05.py + coq/Cases/C05Cases.v (hand-written model of reals.py/floats.py, tied by differential execution)',
        'CPython int/Fraction arithmetic and hash() numeric-tower invariant (hash(int)==hash(Fraction))',
    ]
    ck.assumptions += ['model of RealFloat/Float is hand-written; tie to /repo is the correspondence run below']
    ok, _ = ck.build_static(['Props/C05.v', 'Cases/C05Cases.v'])
    if ok:
        ck.props('Props/C05.v')

    rng = Rng(ck.seed, 'c05')
    cmax = 12 if thorough else 6
    erange = range(-3, 4) if thorough else range(-2, 3)
    encs = [(s, e, c) for s in (False, True) for e in erange for c in range(0, cmax)]
    reals = [RealFloat(s, e, c) for (s, e, c) in encs]
    # a few wide values
    wide = []
    for _ in range(40 if thorough else 12):
        wide.append(RealFloat(rng.random() < .5, rng.randint(-300, 300), rng.getrandbits(rng.randint(1, 200))))
    reals_w = reals + wide

    cases = []   # (term, description, nontrivial_key, classify_key)

    def add(term, desc, triv_key=None, key=None):
        cases.append((term, desc, key))
        ck.evaluations += 1
        ck.count(desc.split(' ')[0])
        if triv_key is not None:
            ck.nontriv(triv_key)

    def rf_out(f):
        try:
            return f()
        except Exception as e:  # noqa
            return o_err(e)

    # ---- RealFloat binary ops on all pairs
    for x, y in itertools.product(reals, reals):
        tx, ty = rf_of(x), rf_of(y)
        add(f'(RAdd {tx} {ty}, {o_rf(x + y)})', 'RAdd', ('add', tx, ty) if x.c and y.c else None)
        add(f'(RMul {tx} {ty}, {o_rf(x * y)})', 'RMul', ('mul', tx, ty) if x.c and y.c else None)
        add(f'(RCmp {tx} {ty}, {o_cmp(x.compare(y))})', 'RCmp', ('cmp', tx, ty) if x.c and y.c else None)
    sub_pairs = list(itertools.product(reals[::3], reals[::2])) + [(rng.choice(reals_w), rng.choice(reals_w)) for _ in range(300)]
    for x, y in sub_pairs:
        tx, ty = rf_of(x), rf_of(y)
        add(f'(RSub {tx} {ty}, {o_rf(x - y)})', 'RSub', ('sub', tx, ty))
        add(f'(RAdd {tx} {ty}, {o_rf(x + y)})', 'RAdd', ('add', tx, ty))
        add(f'(RMul {tx} {ty}, {o_rf(x * y)})', 'RMul', ('mul', tx, ty))
        add(f'(RCmp {tx} {ty}, {o_cmp(x.compare(y))})', 'RCmp', ('cmp', tx, ty))
    # ---- unary, split, normalize, int, bit, hash
    for x in reals_w:
        tx = rf_of(x)
        add(f'(RNeg {tx}, {o_rf(-x)})', 'RNeg', ('neg', tx))
        add(f'(RPos {tx}, {o_rf(+x)})', 'RPos', ('pos', tx))
        add(f'(RAbs {tx}, {o_rf(abs(x))})', 'RAbs', ('abs', tx))
        add(f'(RInt {tx}, {rf_out(lambda: o_z(int(x)))})', 'RInt', ('int', tx))
        v = x.as_rational()
        add(f'(RHash {tx}, {key_of(v)})', 'RHash', ('hash', tx))
        # glue: equal numbers hash equally (through int / Fraction)
        if hash(x) != hash(v):
            ck.violation('hash(RealFloat) differs from hash of the equal int/Fraction', {'x': repr(x), 'value': str(v)})
        for k in range(-1, 5):
            add(f'(RPow {tx} {cz(k)}, {rf_out(lambda: o_rf(x ** k))})', 'RPow', ('pow', tx, k) if k > 1 else None)
        for n in range(x.exp - 2, x.e + 3) if x.p < 20 else [x.exp - 1, x.exp, x.exp + 3, x.e - 1, x.e, x.e + 1]:
            h, l = x.split(n)
            add(f'(RSplit {tx} {cz(n)}, {o_pair(o_rf(h), o_rf(l))})', 'RSplit', ('split', tx, n))
            add(f'(RMoreSig {tx} {cz(n)}, {o_b(x.is_more_significant(n))})', 'RMoreSig', ('msig', tx, n))
            add(f'(RBit {tx} {cz(n)}, {o_b(x.bit(n))})', 'RBit', ('bit', tx, n))
        for p, n in [(None, None)] + [(p, None) for p in range(0, 6)] + [(None, n) for n in range(-5, 4)] + \
                    [(p, n) for p in range(0, 5) for n in range(-5, 3)]:
            add(f'(RNorm {tx} {copt(p)} {copt(n)}, {rf_out(lambda: o_rf(x.normalize(p, n)))})', 'RNorm', ('norm', tx, p, n))
        # compare against non-dyadic and dyadic fractions
        for q in (Fraction(1, 3), Fraction(-2, 3), Fraction(5, 4), v, v + Fraction(1, 7)):
            add(f'(RCmpFrac {tx} {cz(q.numerator)} {cz(q.denominator)}, {o_cmp(x.compare(q))})', 'RCmpFrac', ('cmpq', tx, str(q)))

    # ---- Float layer
    fvals = [Float(x=r) for r in reals[::2]] + [Float(isinf=True, s=False), Float(isinf=True, s=True),
                                               Float(isnan=True, s=False), Float(isnan=True, s=True)]
    fvals += [Float(x=w) for w in wide[:6]]
    for x, y in itertools.product(fvals, fvals):
        tx, ty = fl_of(x), fl_of(y)
        special = x.is_nar() or y.is_nar() or x.is_zero() or y.is_zero()
        add(f'(FAdd {tx} {ty}, {o_fl(x + y)})', 'FAdd', ('fadd', tx, ty) if special else None)
        add(f'(FSub {tx} {ty}, {o_fl(x - y)})', 'FSub', ('fsub', tx, ty) if special else None)
        add(f'(FMul {tx} {ty}, {o_fl(x * y)})', 'FMul', ('fmul', tx, ty) if special else None)
        add(f'(FCmp {tx} {ty}, {o_cmp(x.compare(y))})', 'FCmp', ('fcmp', tx, ty) if special else None)
    for x in fvals:
        tx = fl_of(x)
        add(f'(FNeg {tx}, {o_fl(-x)})', 'FNeg', ('fneg', tx))
        add(f'(FPos {tx}, {o_fl(+x)})', 'FPos', ('fpos', tx), key='float_pos_sign' if x.s else None)
        add(f'(FAbs {tx}, {o_fl(abs(x))})', 'FAbs', ('fabs', tx))
        add(f'(FInt {tx}, {rf_out(lambda: o_z(int(x)))})', 'FInt', ('fint', tx))
        for k in range(-1, 4):
            add(f'(FPow {tx} {cz(k)}, {rf_out(lambda: o_fl(x ** k))})', 'FPow', ('fpow', tx, k))
        for n in (-2, 0, 1):
            h, l = x.split(n)
            add(f'(FSplit {tx} {cz(n)}, {o_pair(o_fl(h), o_fl(l))})', 'FSplit', ('fsplit', tx, n))

    # ---- glue checked directly on the implementation (oracle: Python Fraction/int/float)
    glue = 0
    nat = [0, 1, -1, 3, -7, 2 ** 70, 0.5, -0.75, 1e300, 5e-324, -0.0, 0.0, float('inf'), float('-inf'), float('nan'),
           Fraction(3, 8), Fraction(-5, 2), Fraction(1, 3)]
    for x in fvals + reals[::5]:
        fin = not (isinstance(x, Float) and x.is_nar())
        vx = (x.as_rational() if fin else None)
        for o in nat:
            glue += 1
            # mixed-type comparison agrees with the denoted values
            try:
                got = x.compare(o)
            except Exception as e:  # noqa
                got = e
            if isinstance(o, float) and math.isnan(o) or (isinstance(x, Float) and x.isnan):
                exp = None
            elif isinstance(o, float) and math.isinf(o):
                if isinstance(x, Float) and x.isinf:
                    exp = 0 if (o < 0) == x.s else (-1 if x.s else 1)
                else:
                    exp = -1 if o > 0 else 1
            elif not fin:
                exp = -1 if x.s else 1
            else:
                vo = Fraction(o)
                exp = (vx > vo) - (vx < vo)
            gotn = None if got is None else {'LESS': -1, 'EQUAL': 0, 'GREATER': 1}.get(getattr(got, 'name', None), repr(got))
            if gotn != exp:
                ck.violation('mixed-type compare disagrees with the denoted values',
                             {'x': repr(x), 'other': repr(o), 'got': repr(got), 'expected': exp})
            # == and hash agree
            if fin and not (isinstance(o, float) and (math.isnan(o) or math.isinf(o))):
                if (x == o) != (vx == Fraction(o)):
                    ck.violation('== disagrees with the denoted values', {'x': repr(x), 'other': repr(o)})
                if vx == Fraction(o) and hash(x) != hash(o):
                    ck.violation('equal values hash differently', {'x': repr(x), 'other': repr(o)})
        # native conversions: exact or raise
        if fin:
            glue += 1
            try:
                f = float(x)
                if Fraction(f) != vx or (vx == 0 and math.copysign(1.0, f) != (-1.0 if x.s else 1.0)):
                    ck.violation('float(x) returned a different value', {'x': repr(x), 'float': f.hex()})
            except (ValueError, OverflowError):
                # must really be unrepresentable in binary64
                ok64 = False
                try:
                    ok64 = Fraction(float(vx)) == vx
                except OverflowError:
                    ok64 = False
                if ok64:
                    ck.violation('float(x) raised for a representable value', {'x': repr(x)})
            try:
                i = int(x)
                if Fraction(i) != vx:
                    ck.violation('int(x) returned a different value', {'x': repr(x), 'int': i})
            except ValueError:
                if vx.denominator == 1:
                    ck.violation('int(x) raised for an integer value', {'x': repr(x)})
    # integers with more than 53 significant bits next to the value (a comparison that went through a double would
    # merge them), and integers beyond the double range
    for k in (53, 54, 60, 64, 100, 1030):
        for dx in (-1, 0, 1):
            vi = 2 ** k + dx
            for x in (Float.from_int(vi), RealFloat.from_int(vi), Float.from_int(-vi)):
                vx = x.as_rational()
                for do in (-1, 0, 1, 2):
                    for o in (2 ** k + do, -(2 ** k + do)):
                        glue += 1
                        exp = (vx > o) - (vx < o)
                        try:
                            got = x.compare(o)
                            gotn = {'LESS': -1, 'EQUAL': 0, 'GREATER': 1}.get(getattr(got, 'name', None), repr(got))
                            res = (gotn, x == o, x < o, x <= o, x > o, x >= o, o == x, o < x, o > x)
                        except Exception as e:  # noqa
                            res = repr(e)
                        want = (exp, exp == 0, exp < 0, exp <= 0, exp > 0, exp >= 0, exp == 0, exp > 0, exp < 0)
                        if res != want:
                            ck.violation('comparison with a Python int disagrees with the denoted values (wide integer)',
                                         {'x': repr(x), 'other': o, 'got': repr(res), 'expected': repr(want)})
                        if exp == 0 and hash(x) != hash(o):
                            ck.violation('equal values hash differently', {'x': repr(x), 'other': o})
    # rationals whose denominator is next to a power of two: conversion and mixed arithmetic are exact or raise
    one = RealFloat.from_int(1)
    for den in [2 ** 49 + 1, 2 ** 50 - 1, 2 ** 52 + 1, 2 ** 53 - 1, 2 ** 60 + 1, 2 ** 64 - 1, 3 * 2 ** 50, 2 ** 80 + 1,
                2 ** 100 - 1, 2 ** 60, 2 ** 80]:
        for num in (1, 3, -5, 2 ** 70 + 1):
            q = Fraction(num, den)
            dyadic = q.denominator & (q.denominator - 1) == 0
            trials = [('RealFloat.from_rational(q)', lambda: RealFloat.from_rational(q), q),
                      ('Float.from_rational(q)', lambda: Float.from_rational(q), q),
                      ('RealFloat(1) + q', lambda: one + q, 1 + q), ('q + RealFloat(1)', lambda: q + one, 1 + q),
                      ('RealFloat(1) * q', lambda: one * q, q), ('RealFloat(1) - q', lambda: one - q, 1 - q)]
            for nm, f, want in trials:
                glue += 1
                try:
                    r = f()
                except (ValueError, TypeError):
                    if dyadic:
                        ck.violation('an operation on a dyadic rational raised', {'expr': nm, 'q': str(q)})
                    continue
                except Exception as e:  # noqa
                    ck.violation('an operation on a rational raised an unexpected error', {'expr': nm, 'q': str(q), 'error': repr(e)})
                    continue
                try:
                    val = r.as_rational() if hasattr(r, 'as_rational') else Fraction(r)
                except Exception:  # noqa
                    val = None
                if val != want:
                    ck.violation('an operation on a rational returned a value that is not the exact result',
                                 {'expr': nm, 'q': str(q), 'got': repr(r), 'expected': str(want)})
            glue += 1
            c = one.compare(q)
            exp = (1 > q) - (1 < q)
            if {'LESS': -1, 'EQUAL': 0, 'GREATER': 1}.get(getattr(c, 'name', None)) != exp:
                ck.violation('mixed-type compare disagrees with the denoted values', {'x': '1', 'other': str(q), 'got': repr(c)})
    # from_float decodes the bit pattern exactly
    for f in [0.0, -0.0, 5e-324, 2.2250738585072014e-308, 1.0, -1.5, 0.1, 1e308, 1.7976931348623157e308] + \
             [struct.unpack('<d', struct.pack('<Q', rng.getrandbits(64) & ~(0x7ff << 52) | (rng.randint(0, 2046) << 52)))[0] for _ in range(300)]:
        glue += 1
        r = RealFloat.from_float(f)
        if r.as_rational() != Fraction(f) or r.s != (math.copysign(1.0, f) < 0):
            ck.violation('RealFloat.from_float is not exact', {'float': f.hex(), 'got': repr(r)})
        d = Float.from_float(f)
        if float(d) != f:
            ck.violation('Float.from_float -> float round trip changed the value', {'float': f.hex()})
    # non-finite native floats: conversion must raise, mixed arithmetic follows IEEE sign rules
    for bad in (float('inf'), float('-inf'), float('nan')):
        glue += 1
        try:
            r = RealFloat.from_float(bad)
            ck.violation('RealFloat.from_float accepted a non-finite float (a RealFloat cannot denote it)', {'float': repr(bad), 'got': repr(r)})
        except ValueError:
            pass
    for x in reals[1::7] + wide[:4]:
        for inf in (float('inf'), float('-inf')):
            glue += 2
            if x.c != 0:
                want = math.copysign(float('inf'), (-1.0 if x.s else 1.0) * (1.0 if inf > 0 else -1.0))
                for got, nm in ((x * inf, 'x * inf'), (inf * x, 'inf * x')):
                    if not (isinstance(got, float) and got == want):
                        ck.violation('RealFloat times a float infinity has the wrong sign or class', {'x': repr(x), 'other': repr(inf), 'expr': nm, 'got': repr(got), 'expected': repr(want)})
            for got, nm in ((x + inf, 'x + inf'), (inf + x, 'inf + x')):
                if not (isinstance(got, float) and got == inf):
                    ck.violation('RealFloat plus a float infinity is not that infinity', {'x': repr(x), 'other': repr(inf), 'expr': nm, 'got': repr(got)})
        glue += 1
        r = x * float('nan')
        if not (isinstance(r, float) and math.isnan(r)):
            ck.violation('RealFloat times NaN is not NaN', {'x': repr(x), 'got': repr(r)})
    ck.evaluations += glue
    ck.count('glue(mixed-type compare/eq/hash, native conversions)', glue)

    ck.rule = ('all pairs of small encodings (c < %d, exp in %s, both signs, zeros with every exponent) plus random wide values; '
               'non-trivial = distinct (operation, operands) whose operands are non-zero or special' % (cmax, list(erange)))
    ck.exhaustive = False
    for t, d, _ in cases[:3] + cases[len(cases) // 2:len(cases) // 2 + 3]:
        ck.sample(t)
    ck.log(f'{len(cases)} model cases, {glue} glue cases')
    bad, err = ck.coq_eval_mismatches(HEADER, 'op5 * out', [c[0] for c in cases], 'check5')
    if err:
        ck.broken.append('correspondence evaluation failed: ' + err[:500])
    for i in bad:
        term, desc, key = cases[i]
        ck.violation(f'implementation and model disagree on {desc}', {'case': term, 'note': 'first component: operation and operands; second: what fpy2 returned; the model (proved in Props/C05.v) returns something else'}, key=key)
