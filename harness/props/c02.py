"""C02 — arithmetic rounds the exact result exactly once.

Proof: coq/Num/RoundOdd.v (N2: rounding a round-to-odd intermediate with >= 2
extra digits equals rounding the exact value, all 8 modes), coq/Num/ArithProofs.v
(rational round-to-odd = Flocq Zrnd_odd; division is rounded once), N1 of C01;
statements in coq/Props/C02.v.  Tie: all operand pairs (triples for fma) of
small formats into narrower contexts, fpy2 vs the extracted model.
"""
import itertools
from fractions import Fraction

from ..common import Rng
from ..numenc import RM, e_ctx, e_fl, e_flags, e_err, mk_ctx, rto_dyadic
from ..oracle import Oracle, enc

MANIFEST = {
    'text': 'Coq proof that (i) for every one of the 8 modes, rounding the round-to-odd intermediate the engines produce '
            '(>= 2 extra digits) equals rounding the exact value (N2, unbounded), (ii) the rational round-to-odd used for '
            'quotients is Flocq\'s Zrnd_odd rounding, so + - * / fma are the exact result rounded once (via N1); the IEEE '
            'special-value tables and the remaining operations (sqrt, fdim, copysign, round-to-integer family, fmod/remainder/mod) '
            'are Gallina models tied to /repo by all-pairs correspondence on small formats into narrower contexts.',
    'technique': 'machine-checked proof in Coq (Flocq round-to-odd double-rounding theorem for all modes) + extracted-model all-pairs correspondence',
}

OPS = {'add': 0, 'sub': 1, 'mul': 2, 'div': 3, 'fma': 4, 'sqrt': 5, 'neg': 6, 'fabs': 7, 'copysign': 8, 'fdim': 9,
       'floor': 10, 'ceil': 11, 'trunc': 12, 'roundint': 13, 'fmod': 14, 'remainder': 15, 'mod': 16, 'nearbyint': 17}
ARITY = {'add': 2, 'sub': 2, 'mul': 2, 'div': 2, 'fma': 3, 'sqrt': 1, 'neg': 1, 'fabs': 1, 'copysign': 2, 'fdim': 2,
         'floor': 1, 'ceil': 1, 'trunc': 1, 'roundint': 1, 'fmod': 2, 'remainder': 2, 'mod': 2, 'nearbyint': 1}


def run(ck):
    import fpy2 as fp
    from fpy2 import ops
    from fpy2.number import Float
    thorough = ck.tier == 'thorough'
    rng = Rng(ck.seed, 'c02')
    ck.trusted += [
        'Coq 8.16.1 kernel; Flocq (Generic_fmt, Round_odd: round_N_odd for the nearest modes; directed/odd/even modes proved here)',
        'MPFR (gmpy2) is NOT modelled: the model goes from the exact value to the context rounding; the MPFR detour (RTZ + sticky at prec+2) is '
        'covered by N2 plus this correspondence run; for sqrt the model computes the round-to-odd root with Z.sqrt',
        'extraction (ExtrOcamlBasic only) + OCaml + ocaml/driver.ml; hand-written model coq/Num/Arith.v of ops.py / engine/{gmp,real}.py',
        'cbrt, hypot, pow(integer exponent), nearbyint: checked against exact rational oracles in Python only (testing), not modelled in Coq',
    ]
    ok, _ = ck.build_static(['Props/C02.v', 'Cases/C02Cases.v'])
    if ok:
        ck.props('Props/C02.v')
    orc = Oracle(ck, 'c02', 'Cases.C02Cases', 'check_line2')
    lines, meta = [], []

    def attempt(f):
        try:
            return f()
        except Exception as e:  # noqa
            return e

    def e_obs(r):
        if isinstance(r, BaseException):
            return e_err(r)
        if isinstance(r, Fraction):
            return [2, int(r < 0), abs(r.numerator), r.denominator]
        return [0] + e_fl(r) + e_flags(r._real._flags)

    def mkf(t):
        if t[0] == 'fin':
            return Float(s=t[1], exp=t[2], c=t[3])
        return Float(isinf=True, s=t[1]) if t[0] == 'inf' else Float(isnan=True, s=t[1])

    # operand set: every value of a 3-digit format over 4 binades, zeros, specials, plus a few wide/odd ones
    vals = [('fin', s, 0, 0) for s in (False, True)]
    for s in (False, True):
        for e in (-3, -2, -1, 0):
            for c in (range(4, 8) if not thorough else range(8, 16)):
                vals.append(('fin', s, e, c))
        vals += [('fin', s, -4, 1), ('fin', s, 3, 5), ('fin', s, -7, 77)]
    vals += [('inf', False), ('inf', True), ('nan', False), ('nan', True)]
    rint_vals = [('fin', s, -12, c) for s in (False, True) for c in (2049, 6143, 6145, 10239, 10241, 4095, 4097, 8193, 12287, 14337, 2047)] + \
                [('fin', s, -3, c) for s in (False, True) for c in range(1, 40)]
    small = [v for v in vals if v[0] != 'fin' or v[3] in (0, 4, 5, 7, 1) and v[2] in (0, -1, -2, -4)]

    ctxs = []
    for rm in RM:
        ctxs.append({'kind': 'mpfloat', 'p': 2, 'rm': rm})
        if thorough or rm in ('RNE', 'RNA', 'RTN', 'RTE'):
            ctxs.append({'kind': 'mpsfloat', 'p': 2, 'emin': -1, 'rm': rm})
    for rm in (('RNE', 'RTZ', 'RTP', 'RTN', 'RTO') if thorough else ('RNE', 'RTP', 'RTO')):
        ctxs.append({'kind': 'mpfloat', 'p': 1, 'rm': rm})
        ctxs.append({'kind': 'efloat', 'es': 2, 'nbits': 4, 'enable_inf': True, 'nk': 'IEEE_754', 'eoffset': 0, 'rm': rm, 'ov': 'OVERFLOW'})
        ctxs.append({'kind': 'mpfixed', 'nmin': -2, 'rm': rm, 'enable_nan': True, 'enable_inf': True})
    ctxs += [{'kind': 'mpbfloat', 'p': 2, 'emin': -1, 'maxval': (False, 0, 3), 'rm': 'RNE', 'ov': 'SATURATE'},
             {'kind': 'fixed', 'signed': True, 'scale': -1, 'nbits': 4, 'rm': 'RNE', 'ov': 'SATURATE',
              'nan_value': ('fin', False, 0, 0), 'inf_value': ('fin', False, -1, 7)},
             {'kind': 'mpfloat', 'p': 5, 'rm': 'RNA'}, {'kind': 'real'}]
    if thorough:
        ctxs += [{'kind': 'mpfloat', 'p': 3, 'rm': rm} for rm in RM] + \
                [{'kind': 'efloat', 'es': 3, 'nbits': 6, 'enable_inf': False, 'nk': 'MAX_VAL', 'eoffset': 1, 'rm': rm, 'ov': 'OVERFLOW'} for rm in RM]

    not_offered = 0
    for d in ctxs:
        ctx = fp.REAL if d['kind'] == 'real' else mk_ctx(d)
        wire_ctx = e_ctx(d)
        for name, code in OPS.items():
            ar = ARITY[name]
            fn = getattr(ops, name)
            pool = vals if ar <= 2 else small
            if ar == 1 and name in ('floor', 'ceil', 'trunc', 'roundint', 'nearbyint'):
                pool = vals + rint_vals
            if ar == 2 and not thorough and (d.get('rm', 'RNE') not in ('RNE', 'RTN') or d['kind'] not in ('mpfloat', 'mpsfloat', 'real')):
                pool = small
            for args in itertools.product(pool, repeat=ar):
                fargs = [mkf(a) for a in args]
                r = attempt(lambda: fn(*fargs, ctx=ctx))
                if isinstance(r, NotImplementedError) or (name == 'nearbyint' and d['kind'] == 'real'):
                    not_offered += 1
                    continue
                special = any(a[0] != 'fin' or a[3] == 0 for a in args)
                inexact = (not isinstance(r, (BaseException, Fraction))) and r._real._flags.inexact
                line = [code] + wire_ctx + [ar]
                for a in args:
                    line += e_fl(a)
                lines.append(enc(line + e_obs(r)))
                meta.append((name, f'{name}{args} under {d}'))
                ck.evaluations += 1
                ck.count(name)
                if special or inexact:
                    ck.nontriv((name, str(sorted(d.items())), args))
    ck.count('not offered under this context (NotImplementedError)', not_offered)

    # ---------------------------------------------------------------- Fraction / int / python-float operands
    # A non-dyadic Fraction q is handed to the model as its round-to-odd image at >= 48 digits (lowest digit at 2^-14 or below, far below the
    # unit position of every round-to-integer step and of every context here), which theorem N2 shows rounds like q itself.
    fracs = [Fraction(n, dd) for dd in (3, 5, 7, 10) for n in (1, 2, 4, 5, 7, 8, 10, 11, 13, 16, 17, 22, 1001, 2 ** 40 + 1)] + \
            [Fraction(5, 2), Fraction(7, 4), Fraction(9, 2), Fraction(1, 2), Fraction(3, 8), Fraction(1, 1000), Fraction(2 ** 70, 3)]
    fracs = [s * q for q in fracs for s in (1, -1)]
    exacts = [3, -7, 0, 12345, 2 ** 62 + 1, 2.5, -0.75, 1e-3, 6.5, -0.0, float('inf'), float('nan')]

    def e_any(v):
        if isinstance(v, Fraction):
            s, e, c = rto_dyadic(v, max(48, abs(v.numerator).bit_length() - v.denominator.bit_length() + 16))
            return e_fl(('fin', s, e, c))
        if isinstance(v, int):
            return e_fl(('fin', v < 0, 0, abs(v)))
        if v != v:
            return e_fl(('nan', False))
        if v in (float('inf'), float('-inf')):
            return e_fl(('inf', v < 0))
        m, ex = Fraction(v).numerator, Fraction(v).denominator.bit_length() - 1
        return e_fl(('fin', str(v).startswith('-'), -ex, abs(m)))
    for d in ctxs:
        ctx = fp.REAL if d['kind'] == 'real' else mk_ctx(d)
        wire_ctx = e_ctx(d)
        for name in ('floor', 'ceil', 'trunc', 'roundint', 'nearbyint', 'neg', 'fabs'):
            if name == 'nearbyint' and d['kind'] == 'real' or name not in OPS:
                continue
            for v in (fracs if name not in ('neg', 'fabs') else []) + exacts:
                if d['kind'] == 'real' and isinstance(v, float) and (v != v or v in (float('inf'), float('-inf'))):
                    continue
                r = attempt(lambda: getattr(ops, name)(v, ctx=ctx))
                if isinstance(r, NotImplementedError):
                    continue
                lines.append(enc([OPS[name]] + wire_ctx + [1] + e_any(v) + e_obs(r)))
                meta.append((name + '(Fraction/int/float operand)', f'{name}({v!r}) under {d}'))
                ck.evaluations += 1
                ck.count(name + '(Fraction/int/float operand)')
                ck.nontriv((name, str(sorted(d.items())), repr(v)))
        for name in ('add', 'sub', 'mul', 'div', 'fmod', 'remainder', 'mod', 'copysign', 'fdim'):
            for a in exacts[:9]:
                for b in (exacts[1], exacts[5], exacts[8], exacts[9]):
                    r = attempt(lambda: getattr(ops, name)(a, b, ctx=ctx))
                    if isinstance(r, NotImplementedError):
                        continue
                    lines.append(enc([OPS[name]] + wire_ctx + [2] + e_any(a) + e_any(b) + e_obs(r)))
                    meta.append((name + '(int/float operands)', f'{name}({a!r}, {b!r}) under {d}'))
                    ck.evaluations += 1
                    ck.count(name + '(int/float operands)')

    # ---------------------------------------------------------------- directed double-rounding witnesses
    # exact results b +- 2^-j next to a breakpoint b of the target: only a sticky bit can tell them apart
    for d in [{'kind': 'mpfloat', 'p': 2, 'rm': rm} for rm in RM] + [{'kind': 'mpsfloat', 'p': 3, 'emin': -2, 'rm': rm} for rm in ('RNE', 'RNA', 'RTO')]:
        ctx = mk_ctx(d)
        for bp_c in (4, 5, 6, 7, 9, 11):          # breakpoints / midpoints in units of 1/4
            for j in (3, 10, 60, 200):
                for sgn in (1, -1):
                    # x + y with x = bp (exact), y = +-2^-j
                    x = ('fin', False, -2, bp_c)
                    y = ('fin', sgn < 0, -j, 1)
                    r = attempt(lambda: ops.add(mkf(x), mkf(y), ctx=ctx))
                    lines.append(enc([0] + e_ctx(d) + [2] + e_fl(x) + e_fl(y) + e_obs(r)))
                    meta.append(('add(near-breakpoint)', f'{x}+{y} under {d}'))
                    ck.evaluations += 1
                    ck.count('add(near-breakpoint)')
                    ck.nontriv(('nb', str(d), bp_c, j, sgn))
                    # (bp + 2^-j) * 1 via fma(x, 1, y)
                    one = ('fin', False, 0, 1)
                    r = attempt(lambda: ops.fma(mkf(x), mkf(one), mkf(y), ctx=ctx))
                    lines.append(enc([4] + e_ctx(d) + [3] + e_fl(x) + e_fl(one) + e_fl(y) + e_obs(r)))
                    meta.append(('fma(near-breakpoint)', f'fma({x},1,{y}) under {d}'))
                    ck.evaluations += 1
                    ck.count('fma(near-breakpoint)')

    # ---------------------------------------------------------------- direct rational-oracle checks (testing)
    direct = 0
    fr = [Fraction(1, 3), Fraction(-2, 3), Fraction(1, 5), Fraction(7, 3)]
    for d in ctxs[:6] + ctxs[-4:-1]:
        ctx = mk_ctx(d)
        for a in fr:
            for b in [Fraction(3, 4), Fraction(-5, 2)] + fr[:2]:
                for name, ex in (('add', a + b), ('sub', a - b), ('mul', a * b), ('div', a / b)):
                    got = attempt(lambda: getattr(ops, name)(a, b, ctx=ctx))
                    want = attempt(lambda: ctx.round(ex))
                    direct += 1
                    same = (type(got) is type(want)) if isinstance(want, BaseException) else (
                        not isinstance(got, BaseException) and got.is_nar() == want.is_nar() and (want.is_nar() or got.as_rational() == want.as_rational()))
                    if not same:
                        ck.violation('operation on Fraction operands is not the exact result rounded once',
                                     {'op': name, 'a': str(a), 'b': str(b), 'ctx': d, 'got': repr(got), 'expected': repr(want)})
        # integer powers, cbrt, hypot against exact rationals where the exact result is rational
        for x in (Fraction(3, 2), Fraction(-5, 4), Fraction(7, 1)):
            for k in (0, 1, 2, 3, 5):
                got = attempt(lambda: ops.pow(Float.from_rational(x), Float.from_int(k), ctx=ctx))
                want = attempt(lambda: ctx.round(x ** k))
                direct += 1
                if not isinstance(got, BaseException) and not isinstance(want, BaseException) and not want.is_nar() and not got.is_nar() \
                        and got.as_rational() != want.as_rational():
                    ck.violation('pow with an integer exponent is not the exact power rounded once',
                                 {'x': str(x), 'k': k, 'ctx': d, 'got': repr(got), 'expected': repr(want)})
        for x in (Fraction(27, 8), Fraction(-1, 64), Fraction(125, 1)):
            got = attempt(lambda: ops.cbrt(Float.from_rational(x), ctx=ctx))
            root = Fraction(round(abs(x.numerator) ** (1 / 3)), round(x.denominator ** (1 / 3))) * (-1 if x < 0 else 1)
            want = attempt(lambda: ctx.round(root))
            direct += 1
            if not isinstance(got, BaseException) and not isinstance(want, BaseException) and not want.is_nar() and not got.is_nar() \
                    and got.as_rational() != want.as_rational():
                ck.violation('cbrt of a perfect cube is not the exact root rounded once', {'x': str(x), 'ctx': d, 'got': repr(got), 'expected': repr(want)})
        for (x, y, h) in ((3, 4, 5), (5, 12, 13), (Fraction(3, 8), Fraction(1, 2), Fraction(5, 8))):
            got = attempt(lambda: ops.hypot(Float.from_rational(Fraction(x)), Float.from_rational(Fraction(y)), ctx=ctx))
            want = attempt(lambda: ctx.round(Fraction(h)))
            direct += 1
            if not isinstance(got, BaseException) and not isinstance(want, BaseException) and not want.is_nar() and not got.is_nar() \
                    and got.as_rational() != want.as_rational():
                ck.violation('hypot of a Pythagorean triple is not the exact result rounded once', {'x': str(x), 'y': str(y), 'ctx': d})
    ck.evaluations += direct
    ck.count('direct rational-oracle checks (Fraction operands, pow, cbrt, hypot)', direct)

    ck.rule = ('all operand pairs of a 3-digit 4-binade format (+ zeros, infinities, NaN, wide values), small triples for fma, every listed '
               'operation, into %d narrower contexts (8 modes; subnormals; bounded; fixed point; REAL); plus exact results 2^-j (j<=200) next to '
               'a breakpoint; non-trivial = distinct (op, context, operands) that is inexact or involves a special/zero operand' % len(ctxs))
    for i in (3, len(lines) // 2, len(lines) - 2):
        ck.sample({'op': meta[i][0], 'case': meta[i][1]})
    ck.log(f'{len(lines)} oracle cases, {direct} direct')
    bad = orc.run(lines)
    if bad is None:
        return
    for i in bad:
        name, m = meta[i]
        ck.violation(f'implementation and model disagree on {name}', {'case': m, 'wire': lines[i]})
