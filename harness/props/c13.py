"""C13 — static analysis facts hold on every execution.

Proof: coq/Analysis/{ClassLattice,Instr,FactClass,...}*.v, statements in coq/Props/C13.v:
an instrumented evaluator (proved equal to Lang/Sem.v's) that returns the trace of every
expression value / variable read / binding / phi of an execution, and verified FACT CHECKERS:
if the checker accepts the facts reported for a function then every event of every execution
satisfies its fact.
Tie: the REAL analyses of fpy2 are run on generated programs (source text through the real
parser); (1) the reported facts are exported with the program and the verified checkers are
evaluated on them inside Coq (vm_compute) together with the instrumented model execution;
(2) every reported fact of every analysis (also those no checker is proved for) is compared
with every value of TRACED executions of the real interpreter (a tracing subclass of the
bytecode compiler, harness/c13trace.py) on several inputs incl. special values;
(3) value_class.py's transfer tables are compared with the proved atom tables on all inputs.
"""
import itertools
import re
import signal
import time

from ..common import Rng
from .. import lang
from ..lang import COQ_HEADER, CtxSpec, N, Unsupported, clist, cval_of_py, py_of_arg
from ..c13gen import Gen13, sized_call_program, small_ctx
from ..c13lib import AnnExporter, Facts, check_trace
from ..c13trace import compile_traced, run_traced
from ..langgen import ProgGen

MANIFEST = {
    'text': 'Coq: an instrumented evaluator (proved to be Lang/Sem.v\'s evaluator plus a trace of every expression value, '
            'variable read, binding and phi) and verified fact checkers for the analyses of fpy2/analysis (value classes: '
            '16-element lattice, transfer functions proved against exact-then-round arithmetic, branch refinement, inductive '
            'loop heads; constants; reaching definitions): checker accepts => every event of every execution satisfies its '
            'fact. Tied to /repo by running the real analyses on generated programs, evaluating the checkers on the reported '
            'facts in Coq, and comparing every reported fact (types, sizes, classes, constants, reaching definitions, contexts, '
            'aliasing) with every value of traced executions of the real interpreter.',
    'technique': 'machine-checked proof in Coq (verified fact checkers) + checker evaluation on the real analyses\' output '
                 '(vm_compute) + traced execution of the implementation',
}

HEADER = COQ_HEADER + ('From FpyV Require Import Num.Out Analysis.ClassLattice Analysis.Instr Analysis.FactClass '
                       'Analysis.FactReach Analysis.FactConst Cases.C13Cases.\n')

KEY_FOR_SHADOW = 'for-target-rebinds-variable'
KEY_STALE_COND = 'partial-eval-stale-while-condition'
KEY_SIGNED_ZERO = 'partial-eval-merges-signed-zeros'
KEY_RAGGED = 'ragged-captured-list-typed-by-first-row'
KEY_TYLEN = 'type-length-conflated-by-unionfind'


# Witness programs (always run first): one per listed defect, one plain ladder.
CORPUS = [
    ('''import fpy2 as fp

@fp.fpy
def main(xs, x):
    x = 1
    for x in xs:
        pass
    return x
''', [[[N.fin(2), N.nan()], N.fin(5)], [[], N.fin(3)]]),
    ('''import fpy2 as fp

@fp.fpy(ctx=fp.REAL)
def main(n):
    x = 0
    a = 0
    while a < 2:
        y = x
        j = 0
        while y < 1 and j < 2:
            y = y * 1
            j = j + 1
        x = x + 1
        a = a + 1
    return x
''', [[N.fin(1)], [N.nan()]]),
    ('''import fpy2 as fp

@fp.fpy
def main(x, y):
    with fp.REAL:
        z = x * 0
        if fp.isnan(x):
            r = 1
        elif fp.isinf(x):
            r = 2
        elif x == 0:
            r = 3
        else:
            r = x + 1
    t = min(r, 5)
    i = 0
    acc = y
    while i < 3:
        acc = acc + z
        i = i + 1
    return acc * t
''', [[N.fin(1), N.fin(2)], [N.nan(), N.fin(1)], [N.inf(), N.fin(0)], [N.fin(0, negzero=True), N.inf(True)]]),
    ('''import fpy2 as fp

@fp.fpy(ctx=fp.REAL)
def main(x0, x1):
    c1 = 0
    acc = c1 * 2
    i = 0
    while i < 3 and fp.isnan(x1):
        acc = -c1
        i = i + 1
    return 1 / acc
''', [[N.fin(0), N.nan()], [N.fin(0), N.fin(1)]]),
]


def _grid2():
    vals = [N.fin(-1), N.fin(1), N.fin(2), N.nan()]
    return [[a, b] for a in vals for b in vals]


def _L1(v):
    return [N.fin(v), N.fin(v + 1)]


def _L2(v):
    return [_L1(v), _L1(v + 10)]


def _L3(v):
    return [_L2(v), _L2(v + 100)]


# nested if/else with arms that return: which definitions reach the read after the join (all branch combinations)
for _src in ["""
    if a > 0:
        if b > 0:
            return 100
        else:
            x = 2
    else:
        x = 3
    return x
""", """
    x = 1
    if a > 0:
        x = 4
    else:
        if b > 0:
            x = 5
        else:
            return 200
    return x
""", """
    x = 1
    if a > 0:
        if b > 0:
            return 300
        else:
            x = 6
    else:
        pass
    return x
""", """
    x = 1
    i = 0
    while i < 2:
        if a > 0:
            x = x + 1
            if b > i:
                return 300
            else:
                x = 6
        else:
            if b > 0:
                x = 7
            else:
                return x
        i = i + 1
    return x
""", """
    x = 1
    with fp.REAL:
        if a > 0:
            if b > 0:
                x = 8
            else:
                if a > 1:
                    return 400
                else:
                    x = 9
        else:
            x = x * 0
    return x
"""]:
    CORPUS.append(('import fpy2 as fp\n\n@fp.fpy\ndef main(a, b):' + _src, _grid2()))

# nested lists unified by a conditional expression / a list literal / a store, a row bound before the
# unification, a write through a row of the result (aliasing through element regions)
for _sig, _body, _args in [
    ('xss: list[list[fp.Real]], yss: list[list[fp.Real]], c: bool', """
        r = yss[0]
        zss = xss if c else yss
        w = zss[0]
        w[0] = 99
        return r[0]
""", [[_L2(1), _L2(5), True], [_L2(1), _L2(5), False]]),
    ('xss: list[list[fp.Real]], yss: list[list[fp.Real]], c: bool', """
        r = xss[0]
        zss = xss if c else yss
        w = zss[0]
        w[0] = 99
        return r[0]
""", [[_L2(1), _L2(5), True], [_L2(1), _L2(5), False]]),
    ('xss: list[list[fp.Real]], yss: list[list[fp.Real]]', """
        r = yss[0]
        zsss = [xss, yss]
        m = zsss[1]
        w = m[0]
        w[0] = 99
        return r[0]
""", [[_L2(1), _L2(5)]]),
    ('xsss: list[list[list[fp.Real]]], yss: list[list[fp.Real]]', """
        r = yss[0]
        xsss[0] = yss
        m = xsss[0]
        w = m[0]
        w[0] = 99
        return r[0]
""", [[_L3(1), _L2(5)]]),
    ('xss: list[list[fp.Real]]', """
        r = xss[0]
        yss = xss[0:1]
        w = yss[0]
        w[0] = 99
        return r[0]
""", [[_L2(1)]]),
    ('xss: list[list[fp.Real]]', """
        r = xss[0]
        for w in xss:
            w[0] = 99
        return r[0]
""", [[_L2(1)], [[]]]),
    ('xs: list[fp.Real], ys: list[fp.Real]', """
        t = (xs, ys)
        a, w = t
        w[0] = 99
        return ys[0]
""", [[_L1(1), _L1(5)]]),
]:
    CORPUS.append((f'import fpy2 as fp\n\n@fp.fpy\ndef main({_sig}):\n    with fp.FP64:' + _body, _args))


# a context chosen at run time inside a statically known one: nothing in its body is a compile-time constant
for _hdr, _body in [
    ('@fp.fpy(ctx=fp.FP64)\ndef main(p):', """
    with fp.MPFloatContext(p):
        t = 1 / 3
        u = t + 0.1
    return u
"""),
    ('@fp.fpy\ndef main(p):', """
    with fp.FP32:
        with fp.MPSFloatContext(p, -8):
            t = 1 / 3
        v = t * 3
    return v
"""),
    ('@fp.fpy(ctx=fp.REAL)\ndef main(p):', """
    c = 1 / 3
    with fp.MPFloatContext((3 if p < 4 else 7)):
        t = c + 0.1
        while t < 1:
            t = t + c
    return t
"""),
]:
    CORPUS.append(('import fpy2 as fp\n\n' + _hdr + _body, [[N.fin(2)], [N.fin(3)], [N.fin(5)], [N.fin(9)], [N.nan()]]))

# callees whose list parameter has a dimension name, returning it directly / in a tuple / in a nested tuple, called
# with a list unrelated to the caller's own dimension of the same name
from ..c13gen import _SIZED_PRELUDE
for _g, _call in [('return xs', 'ys = g(b)'), ('return (xs, len(xs))', '(ys, n) = g(b)'),
                  ('return (0.5, (xs, 1))', '(z, (ys, o)) = g(b)')]:
    CORPUS.append((_SIZED_PRELUDE + f'''@fp.fpy
def g(xs: list[fp.Real]):
    {_g}

_sized(g, xs='N')

@fp.fpy
def main(a: list[fp.Real], b: list[fp.Real]):
    {_call}
    s = sum(ys) + len(a)
    return ys

_sized(main, a='N')
''', [[_L1(1) + _L1(3), _L1(5)], [[], _L1(5) + _L1(7)], [_L1(1), _L1(2)]]))

# a captured (free-variable) list whose rows have different lengths
CORPUS.append(('''import fpy2 as fp

TABLE = [[1.0, 2.0], [3.0, 4.0, 5.0]]

@fp.fpy
def main(x):
    row = TABLE[1]
    s = sum(row)
    return s + x
''', [[N.fin(1)]]))


class _Timeout(Exception):
    pass


def _alarm(signum, frame):
    raise _Timeout()


def with_timeout(thunk, seconds=10):
    old = signal.signal(signal.SIGALRM, _alarm)
    signal.alarm(seconds)
    try:
        return thunk()
    finally:
        signal.alarm(0)
        signal.signal(signal.SIGALRM, old)


def shadowed_for_targets(fd, du):
    """Names that are the target of a `for` while already bound before the loop."""
    import fpy2.ast.fpyast as A
    out = set()

    def block(b):
        for s in b.stmts:
            if isinstance(s, A.ForStmt):
                before = {str(n) for n in du.reach[s].keys()}
                out.update(str(n) for n in s.target.names() if str(n) in before)
            for attr in ('body', 'ift', 'iff'):
                c = getattr(s, attr, None)
                if isinstance(c, A.StmtBlock):
                    block(c)
    block(fd.body)
    return out


def arg_json(a):
    if isinstance(a, list):
        return [arg_json(x) for x in a]
    if isinstance(a, bool):
        return a
    return {'kind': a.kind, 's': a.s, 'q': None if a.q is None else str(a.q)}


def arg_of_json(j):
    from fractions import Fraction
    if isinstance(j, list):
        return [arg_of_json(x) for x in j]
    if isinstance(j, bool):
        return j
    return N(j['kind'], j['s'], None if j['q'] is None else Fraction(j['q']))


def replay(ck):
    """Re-run one stored case: the program, the analyses, the traced run on the stored arguments."""
    import json
    obj = json.loads(open(ck.replay).read())
    r = obj.get('replay', {})
    if 'program' not in r or 'args_json' not in r:
        ck.log('this replay file names a proof obligation / checker verdict, not an input; run the full check')
        return
    mod = lang.load_module(ck.dir / 'progs', 'c13_replay', r['program'])
    args = [arg_of_json(a) for a in r['args_json']]
    caller = None
    if r.get('caller_ctx'):
        import fpy2 as fp
        caller = type('C', (), {'obj': staticmethod(lambda: eval(r['caller_ctx'], {'fp': fp})), 'py': staticmethod(lambda: r['caller_ctx'])})  # noqa: S307
    analyse_and_trace(ck, mod.main, r['program'], [args], [caller], 'replay')


def outcome_term(out):
    if out[0] == 'ok':
        return f'(ROk {cval_of_py(out[1])})'
    e = out[1]
    if isinstance(e, RecursionError):
        return 'RFuel'
    return f'(RErr {lang.ERRS.get(type(e).__name__, "OtherErr")})'


def table_cases():
    """value_class.py's own tables on all inputs, and representable_classes on the contexts of the model."""
    from fpy2.analysis import value_class as vcm
    VC = vcm.ValueClass
    terms = []
    for a, b in itertools.product(range(16), range(16)):
        terms.append(f'(TAdd {a} {b} {int(vcm._exact_add(VC(a), VC(b)).value)})')
        terms.append(f'(TMul {a} {b} {int(vcm._exact_mul(VC(a), VC(b)).value)})')
    for a in range(16):
        terms.append(f'(TLogb {a} {int(vcm._map(vcm._LOGB, VC(a)).value)})')
    specs = [CtxSpec('MPFloat', p=3, rm='RNE'), CtxSpec('MPFloat', p=8, rm='RTZ'), CtxSpec('MPSFloat', p=4, emin=-3, rm='RNE'),
             CtxSpec('IEEE', es=3, nbits=7, rm='RNE', ov='OVERFLOW'), CtxSpec('IEEE', es=4, nbits=9, rm='RTP', ov='SATURATE'),
             CtxSpec('FP64'), CtxSpec('REAL')]
    for s in specs:
        terms.append(f'(TRep {s.coq()} {int(vcm.representable_classes(s.obj()).value)})')
    return terms


def nested_while_cond_nodes(fd):
    """ids of the expression nodes inside the condition of a `while` that is nested in another loop."""
    import fpy2.ast.fpyast as A
    from ..c13lib import _children
    out = set()

    def expr(e):
        out.add(id(e))
        for c in _children(e):
            expr(c)
        if isinstance(e, A.ListComp):
            pass

    def block(b, in_loop):
        for s in b.stmts:
            if isinstance(s, A.WhileStmt) and in_loop:
                expr(s.cond)
            loop = in_loop or isinstance(s, (A.WhileStmt, A.ForStmt))
            for attr in ('body', 'ift', 'iff'):
                c = getattr(s, attr, None)
                if isinstance(c, A.StmtBlock):
                    block(c, loop)
    block(fd.body, False)
    return out


def has_signed_zero_phi(F):
    """Does PartialEval hold +0 for one operand of a phi and -0 for the other?"""
    if F.pe is None:
        return False

    def zero_sign(d):
        v = F.pe.by_def.get(d)
        if v is None or isinstance(v, bool):
            return None
        try:
            n = N.of(v)
        except TypeError:
            return None
        return n.s if (n.kind == 'fin' and n.q == 0) else None
    for phis in F.du.phis.values():
        for phi in phis:
            a, b = zero_sign(F.du.defs[phi.lhs]), zero_sign(F.du.defs[phi.rhs])
            if a is not None and b is not None and a != b:
                return True
    return False


def has_ragged_capture(fn):
    """Does the function capture a (free-variable) list whose elements are lists of different shapes?"""
    def shape(v):
        if isinstance(v, list):
            return ('L', len(v), tuple(shape(x) for x in v))
        if isinstance(v, tuple):
            return ('T', tuple(shape(x) for x in v))
        return 's'

    def ragged(v):
        if isinstance(v, (list, tuple)):
            if isinstance(v, list) and len({shape(x) for x in v}) > 1:
                return True
            return any(ragged(x) for x in v)
        return False
    try:
        return any(ragged(fn.env[str(v)]) for v in fn.ast.free_vars if str(v) in fn.env)
    except Exception:  # noqa: BLE001
        return False


def classify(b, shadow, stale_nodes, signed_zero=False, ragged=False):
    """The known-finding key of a traced fact violation, or None."""
    node = b['node']
    if ragged and (b['analysis'].startswith('type_infer') or b['analysis'].startswith('array_size')):
        return KEY_RAGGED
    if b['analysis'] == 'type_infer.equal_length':
        # symbolic lengths in TypeInfer's types (not ArraySizeInfer's size classes, which are checked separately)
        return KEY_TYLEN
    first = node.split(' ')[0] if node else ''
    if b['analysis'].startswith('partial_eval') and id(b.get('obj')) in stale_nodes:
        return KEY_STALE_COND
    if b['analysis'].startswith('partial_eval') and signed_zero:
        return KEY_SIGNED_ZERO
    if shadow and (node in shadow or first in shadow or b.get('var') in shadow):
        return KEY_FOR_SHADOW
    return None


def analyse_and_trace(ck, fn, prog_src, arg_sets, callers, info):
    """Facts + traced runs of one function.  Returns (Facts, runs, shadow, known_keys)."""
    from ..c13lib import check_result, same_value
    F = Facts(fn)
    for name, err in F.errors.items():
        ck.count(f'analysis-raised:{name}:{err.split(":")[0]}')
    shadow = shadowed_for_targets(fn.ast, F.du)
    stale_nodes = nested_while_cond_nodes(fn.ast)
    signed_zero = has_signed_zero_phi(F)
    ragged = has_ragged_capture(fn)
    known_keys = set()
    seen_bad = set()
    pyfn, rec, _ = compile_traced(fn, F.du)
    runs = []
    for args, caller in zip(arg_sets, callers):
        pa = [py_of_arg(a) for a in args]
        cobj = None if caller is None else caller.obj()
        try:
            events, out = with_timeout(lambda pa=pa, cobj=cobj: run_traced(fn, pyfn, rec, pa, cobj))
        except _Timeout:
            ck.count('run:timeout')
            continue
        # the tracing compiler must not change what the function computes
        try:
            ref = with_timeout(lambda pa=pa, cobj=cobj: ('ok', fn(*[py_of_arg(a) for a in args]) if cobj is None
                                                         else fn(*[py_of_arg(a) for a in args], ctx=cobj)))
        except _Timeout:
            continue
        except Exception as e:  # noqa: BLE001
            ref = ('exc', e)
        same = (ref[0] == out[0]) and (same_value(ref[1], out[1]) if out[0] == 'ok' else type(ref[1]) is type(out[1]))
        if not same:
            ck.broken.append(f'tracing changed the outcome of a run: {info}')
        ck.evaluations += 1
        ck.count('run:' + out[0] + ('' if out[0] == 'ok' else ':' + type(out[1]).__name__))
        ck.count('events', len(events))
        found = check_trace(F, events)
        if out[0] == 'ok':
            found += check_result(F, pa, out[1])
        for b in found:
            sig_b = (b['analysis'], b['node'])
            if sig_b in seen_bad or len(seen_bad) >= 25:
                ck.count('fact-violated(repeats not reported):' + b['analysis'])
                continue
            seen_bad.add(sig_b)
            key = classify(b, shadow, stale_nodes, signed_zero, ragged)
            known_keys.add(key)
            ck.count('fact-violated:' + b['analysis'])
            ck.violation(f"{b['analysis']}: {b['what']}",
                         {'program': prog_src, 'args': [repr(a) for a in args], 'args_json': [arg_json(a) for a in args],
                          'caller_ctx': None if caller is None else caller.py(),
                          'expression_or_definition': b['node'], 'reported_fact': b['fact'], 'observed_value': b['observed'],
                          'note': 'observed on the real interpreter (harness/c13trace.py); replay: load the program, run the analysis, call main(*args)'},
                         key=key)
        runs.append((args, caller, out))
    return F, runs, shadow, known_keys


def run(ck):
    import fpy2  # noqa: F401 -- from $FPY_REPO
    thorough = ck.tier == 'thorough'
    ck.trusted += [
        'Coq 8.16.1 kernel (coqc); vm_compute evaluates the checkers and the instrumented model on the cases',
        'Lang/Sem.v (the documented semantics, C04) and Lang/NumInst.v restricted to well-formed numbers as the number instance of the class theorem\'s instance lemma',
        'harness/c13lib.py: export of (program, reported facts) as an annotated Coq term; harness/lang.py printers',
        'harness/c13trace.py: tracing subclass of fpy2.interpret.byte.BytecodeCompiler (checked on every run to leave outcomes unchanged)',
        'facts of analyses without a proved checker (types, sizes, aliasing, and every fact outside the modelled fragment) are CHECKED BY TRACING, NOT PROVED',
    ]
    ck.assumptions += ['class theorem: for every number instance satisfying NumClassSpec (proved for the instance used in the tie); '
                       'arguments in the classes reported for the parameters',
                       'opaque leaves (list / tuple / call expressions) carry no proved inner facts']
    if ck.replay:
        replay(ck)
        return
    from ..common import EVID
    for old in (EVID / 'replays').glob('C13-*.json'):      # replays of earlier runs of this check
        old.unlink()
    ok, _ = ck.build_static(['Props/C13.v', 'Cases/C13Cases.v'])
    if ok:
        ck.props('Props/C13.v')

    # ---- (3) the transfer tables of value_class.py
    tabs = table_cases()
    ck.evaluations += len(tabs)
    ck.count('table-entries', len(tabs))
    bad, err = ck.coq_eval_mismatches(HEADER, 'table13', tabs, 'check_table13', chunk=600, tag='tables')
    if err:
        ck.broken.append('table evaluation failed: ' + err[:400])
    for i in bad:
        ck.violation('value_class.py: a transfer table entry omits a class the exact operation can produce '
                     '(or representable_classes omits a class the context can produce)', {'entry': tabs[i]})

    # ---- (1)+(2) generated programs
    nprog = 600 if thorough else 100
    nargs = 8 if thorough else 4
    cases, info = [], []
    t0 = time.time()
    rejected = 0
    for idx in range(-len(CORPUS), nprog):
        rng = Rng(ck.seed, f'c13-{idx}')
        use_langgen = (idx >= 0 and idx % 5 == 4)
        g = sig = None
        if idx < 0:
            text, arg_sets = CORPUS[idx + len(CORPUS)]
            prog = type('CorpusProgram', (), {'load': staticmethod(lambda d, m, text=text: lang.load_module(d, m, text)),
                                              'source': staticmethod(lambda m='m', text=text: text)})
        elif idx % 10 == 7:
            text, arg_sets = sized_call_program(rng)
            ck.count('feature:sized-call')
            prog = type('TextProgram', (), {'load': staticmethod(lambda d, m, text=text: lang.load_module(d, m, text)),
                                            'source': staticmethod(lambda m='m', text=text: text)})
        elif use_langgen:
            g = ProgGen(rng, malformed=False)
            prog, sig = g.program()
            arg_sets = [g.args(sig, p_special=(0.0 if j == 0 else 0.3)) for j in range(nargs)]
        else:
            g = Gen13(rng)
            prog, sig = g.program()
            arg_sets = [g.args(sig, special=(0.0 if j == 0 else 0.35)) for j in range(nargs)]
        callers = [None if j % 2 == 0 else small_ctx(rng) for j in range(len(arg_sets))]
        modname = f'c13_prog_{idx:05d}' if idx >= 0 else f'c13_corpus_{idx + len(CORPUS)}'
        try:
            mod = prog.load(ck.dir / 'progs', modname)
        except Exception as e:  # noqa: BLE001
            rejected += 1
            ck.count('generator:rejected')
            if rejected <= 3:
                ck.log(f'program {idx} rejected: {type(e).__name__}: {str(e)[:200]}')
                ck.log(prog.source())
            continue
        fn = mod.main
        src = prog.source()
        F, runs, shadow, known_keys = analyse_and_trace(ck, fn, src, arg_sets, callers, f'program {idx}')
        for f in getattr(g, 'features', ()):
            ck.count('feature:' + f)
        nf = F.nfacts()
        for k, v in nf.items():
            ck.count('facts:' + k, v)
        if nf['class'] or nf['const'] or nf['phi']:
            ck.nontriv(('prog', idx))
        # the annotated term for the verified checkers
        try:
            ex = AnnExporter(F)
            term = ex.afunc()
            callees = {}
            for cal in ex.callees.values():
                for f in lang.export_program(cal).funcs:
                    callees[f.name] = f
            P = clist(f'({lang.cstr(f.name)}, {f.coq()})' for f in callees.values())
        except Unsupported:
            ck.count('export:outside-fragment')
            continue
        except KeyError as e:
            # DefineUse's own tables are inconsistent (a definition site without a definition)
            if shadow:
                ck.violation('DefineUse reports no definition for a binding site (find_def_from_site raises)',
                             {'program': src, 'error': str(e)[:300]}, key=KEY_FOR_SHADOW)
            else:
                ck.violation('DefineUse reports no definition for a binding site (find_def_from_site raises)',
                             {'program': src, 'error': str(e)[:300]})
            continue
        rterms = []
        for args, caller, out in runs:
            try:
                cargs = clist(cval_of_py(a) for a in args)
                cc = 'None' if caller is None else f'(Some {caller.coq()})'
                rterms.append(f'({cargs}, {cc}, {outcome_term(out)})')
            except Unsupported:
                ck.count('export:value-outside-model')
        cases.append(f'({P}, {term}, {clist(rterms)})')
        info.append((idx, src, shadow, known_keys, fn, g, sig, use_langgen))
    ck.log(f'{len(cases)} programs analysed, traced and exported in {time.time() - t0:.1f}s ({rejected} rejected)')
    if rejected > nprog // 10:
        ck.broken.append(f'generator: {rejected} of {nprog} generated programs were rejected by the fpy2 front end')
    for c in cases[:2]:
        ck.sample(c[:1200])
    ck.rule = ('generated programs (class ladders, REAL / rounded blocks, min/max, conditional expressions, nested counter loops, for loops '
               'incl. shadowing targets, constant chains, list binding / indexing / slicing / mutation / tuple packing; 1 in 5 from the C04 '
               'program generator) x argument tuples incl. NaN, +-inf, +-0, huge and tiny values x {no caller ctx, small ctx}; '
               'non-trivial = distinct programs with at least one non-top class fact, constant fact or phi')
    bad, err, stats = eval_cases(ck, cases)
    if err:
        ck.broken.append('checker evaluation failed: ' + err[:600])
    ck.count('const-facts:reported-in-fragment', stats[0])
    ck.count('const-facts:certified-by-the-proved-checker', stats[1])
    ck.extra['const_facts_checked_by_tracing_not_proved'] = stats[0] - stats[1]
    ck.extra['checked_by_tracing_not_proved'] = [
        'type_infer: shapes of expression / definition values (by_expr, by_def)',
        'array_size: static lengths and equal-length classes',
        'alias: names sharing a list object are in one reported region (list-typed definitions)',
        'partial_eval.by_def and every constant fact outside the pure scalar fragment (lists, tuples, list indexing)',
        'every fact of an expression inside an opaque leaf (list / tuple / call / comprehension expressions)',
        'value_class facts that depend on logb / pow rules or on contexts the number instance does not implement',
    ]
    ndiag = 0
    for i, verdict in bad:
        idx, src, shadow, known_keys, fn, g, sig, use_langgen = info[i]
        names = ('class', 'reach', 'const', 'dynamic')
        failed = [n for n, ch in zip(names, verdict) if ch != '1']
        static_ok = all(n == 'dynamic' for n in failed)
        ck.count('coq:' + ('dynamic-disagreement' if static_ok else 'checker-rejected:' + ','.join(f for f in failed if f != 'dynamic')))
        out = ''
        if ndiag < 6:
            ndiag += 1
            out = ck.coq_eval_raw(HEADER, f'diag13 {cases[i]}', name=f'diag_{idx:05d}', timeout=600)
        # the checker rejects but no traced run of this program violated a fact so far: search more inputs
        if not static_ok and not known_keys and g is not None:
            before = len(ck.violations) + sum(ck.known_hits.values())
            extra = [g.args(sig, p_special=0.6) if use_langgen else g.args(sig, special=0.6) for _ in range(24)]
            _, _, _, found = analyse_and_trace(ck, fn, src, extra, [None] * len(extra), f'program {idx} (search)')
            ck.count('search:extra-runs', len(extra))
            if len(ck.violations) + sum(ck.known_hits.values()) > before:
                ck.count('search:failing-input-found')
                known_keys = found
        # a program whose traced runs violate facts only through a listed defect: the checkers reject it for that reason
        key = None
        if known_keys and len(known_keys) == 1:
            key = next(iter(known_keys))
        elif shadow:
            key = KEY_FOR_SHADOW
        ck.violation(('the verified fact checker(s) for %s reject the facts reported by the real analysis' % ', '.join(f for f in failed if f != 'dynamic'))
                     if not static_ok else
                     'the instrumented model execution disagrees with fpy2 or one of its events violates a reported fact',
                     {'program_index': idx, 'program': src, 'failed': failed,
                      'diag ((class, reach, const) static verdicts; per run: outcome agrees, (class, reach, const) claims hold on the model trace, model outcome)': out[-2500:]},
                     key=key, no_input=(not static_ok and key is None and not known_keys))


def eval_cases(ck, cases, chunk=None, timeout=1500, jobs=16):
    """check13 on every case (vm_compute), plus the constant-fact statistics.  -> (bad indices, error text, (reported, certified))"""
    from ..common import COQ, sh
    chunk = chunk or max(2, len(cases) // 32 + 1)
    shards = []
    for si in range(0, len(cases), chunk):
        part = cases[si:si + chunk]
        name = f'cases_{si // chunk:04d}'
        body = ';\n'.join(f'({si + j}%nat, {c})' for j, c in enumerate(part))
        text = (HEADER + '\n'
                f'Definition cases : list (nat * case13) := [\n{body}\n].\n'
                'Definition bad := flat_map (fun ic => let v := verdict13 (snd ic) in '
                'if all_ok13 v then [] else [(fst ic, v)]) cases.\n'
                'Eval vm_compute in bad.\n'
                'Definition stats := fold_right (fun ic acc => let s := const_stats13 (snd ic) in '
                '(fst s + fst acc, snd s + snd acc)%nat) (0%nat, 0%nat) cases.\n'
                'Eval vm_compute in stats.\n')
        (ck.dir / f'{name}.v').write_text(text)
        shards.append(name)
    if not shards:
        return [], None, (0, 0)
    cmd = (f"xargs -P{jobs} -I{{}} sh -c 'timeout {timeout} coqc -Q {COQ} FpyV -Q . Dyn {{}}.v > {{}}.out 2>&1 || echo FAIL >> {{}}.out'")
    sh(cmd, cwd=ck.dir, input='\n'.join(shards), timeout=timeout * (len(shards) // jobs + 1) + 60)
    bad, err, rep, cert = [], None, 0, 0
    for name in shards:
        out = (ck.dir / f'{name}.out').read_text()
        m = re.search(r'=\s*\[(.*?)\]\s*:\s*list \(nat', out, re.S)
        s = re.search(r'=\s*\((\d+)%nat,\s*(\d+)%nat\)\s*:\s*nat \* nat', out)
        if 'FAIL' in out or not m or not s:
            err = (err or '') + f'{name}: {out[-500:]}\n'
            continue
        body = m.group(1).strip()
        nfound = 0
        for mm in re.finditer(r'\((\d+)%nat,\s*\(?(true|false),\s*(true|false),\s*(true|false),\s*(true|false)\)', ' '.join(body.split())):
            bad.append((int(mm.group(1)), ''.join('1' if g == 'true' else '0' for g in mm.groups()[1:])))
            nfound += 1
        if body and not nfound:
            err = (err or '') + f'{name}: cannot parse {body[:200]}\n'
        rep += int(s.group(1))
        cert += int(s.group(2))
    return sorted(bad), err, (rep, cert)
