"""C19 — sites, indices and cursors name exactly what they say.

Proof: coq/Cursor/ForwardProofs.v, coq/Cursor/SitesProofs.v (statements in
coq/Props/C19.v) about the Gallina model of transform/path.py, cursor.py
(`_forward_stmt`, `_forward_block`, `_overlaps`, `EditLog.forward`,
`_forward_region`), function.py (`Function.forward`) and the `where` walk of
utils.SiteRewriter.

Tie (correspondence, every run, on fpy2 from $FPY_REPO):
 A. random statement trees (depth <= 4) compiled by `@fp.fpy` from real module
    files, random disjoint edit logs (and a malformed stream) — the real
    `EditLog`, `StmtCursor/BlockCursor/ExprCursor`, `log.forward`,
    `_forward_stmt`, `_overlaps`, `beneath`, `Function.forward` against the
    model, decided inside Coq (`check19`);
 B. sequences of real strategies on small generated FPy programs: every step's
    reported log, applied by the model to the source tree, must reproduce the
    produced tree (so untouched statements are unchanged and sit where the
    model says), every forwarded cursor must agree with the model, and the
    chain replay must agree with `chain_forward`;
 C. every (program, aimable strategy, index j in -1..k+1): `sites` lists k
    sites, index j<k rewrites the j-th listed and only it, other indices are
    rejected, `None` rewrites all, sites and refusals are disjoint and account
    for every candidate; the walk agrees with the model of `SiteRewriter`;
 D. user rewrite rules (fpy2.rewrite.Rewrite / find_all) on generated programs:
    the whole occurrence-index domain (-k-2 .. k+2, 10k+7, None) - index j<k
    rewrites the j-th listed match only, every other index is a reference
    error (never another exception, never a silent rewrite), cursor j = index
    j; replacement patterns that repeat a variable, followed by an
    expression-sited rewrite aimed at ONE of the copies; and, for every
    produced program of parts B-D, no AST node sits at two program points.
"""
import importlib
import re
import sys

from ..common import Rng, cb, cz

MANIFEST = {
    'text': 'Coq proof (axiom-free) that the model of cursor forwarding (paths, disjoint edit logs with accumulated shifts, '
            'nested blocks, regions, replay along the parent chain) sends a statement path to the statement with the same label '
            'or to the region that replaced it, else a reference error, never to an unrelated statement; that untouched statements '
            'are unchanged; and that a site rewriter aimed at index j rewrites exactly the j-th listed site, rejects other indices, '
            'rewrites all for None, with refusals taking no index. Tied to /repo by running the real cursor/EditLog/Function.forward '
            'code on random trees and logs, sequences of real strategies on generated programs, and every (program, strategy, index) '
            'for small programs, against the model inside Coq.',
    'technique': 'machine-checked proof in Coq + model/implementation correspondence by vm_compute',
}

HEADER = ('From Coq Require Import ZArith List Bool.\n'
          'From FpyV Require Import Cursor.Path Cursor.Edit Cursor.Forward Cursor.Sites Cases.C19Cases.\n'
          'Import ListNotations.\nOpen Scope Z_scope.\n')

FIELDS = {'body': 'FBody', 'ift': 'FIft', 'iff': 'FIff'}


# ---------------------------------------------------------------- Coq printers
def c_bpath(bp):
    t = 'FuncBody'
    for idx, fld in bp:
        t = f'(SubBlock {t} {cz(idx)} {FIELDS[fld]})'
    return t


def c_spath(sp):
    bp, i = sp
    return f'({c_bpath(bp)}, {cz(i)})'


def c_tree(block):
    return '[' + '; '.join(c_stmt(s) for s in block) + ']'


def c_stmt(s):
    if s[0] == 'leaf':
        return f'SLeaf {cz(s[1])}'
    if s[0] == 'one':
        return f'SOne {cz(s[1])} {c_tree(s[2])}'
    return f'STwo {cz(s[1])} {c_tree(s[2])} {c_tree(s[3])}'


def c_zlist(xs):
    return '[' + '; '.join(cz(x) for x in xs) + ']'


def c_edit(e):
    bp, i, r, new = e
    return f'(Edit {c_bpath(bp)} {cz(i)} {cz(r)} {c_tree(new)})'


def c_edit_n(e):
    bp, i, r, n = e
    return f'(mkE {c_bpath(bp)} {cz(i)} {cz(r)} {cz(n)})'


def c_opt(x, f):
    return 'None' if x is None else f'(Some {f(x)})'


def c_err(e):
    n = type(e).__name__
    if n == 'TransformReferenceError':
        return 'RefErr'
    if n == 'ValueError':
        return 'ValErr'
    if n == 'TypeError':
        return 'TypErr'
    raise e


# ---------------------------------------------------------------- harness-side trees
# node = ('leaf', L) | ('one', L, body, kind) | ('two', L, ift, iff)
ONE_KINDS = ('if1', 'while', 'for', 'with')


class Labels:
    def __init__(self, start=1):
        self.n = start

    def fresh(self):
        self.n += 1
        return self.n - 1


def gen_block(rng, lab, depth, maxlen, minlen=1):
    n = rng.randint(minlen, maxlen)
    return [gen_stmt(rng, lab, depth) for _ in range(n)]


def gen_stmt(rng, lab, depth):
    L = lab.fresh()
    if depth <= 1 or rng.random() < 0.45:
        return ('leaf', L)
    if rng.random() < 0.3:
        return ('two', L, gen_block(rng, lab, depth - 1, 3), gen_block(rng, lab, depth - 1, 2))
    return ('one', L, gen_block(rng, lab, depth - 1, 3), rng.choice(ONE_KINDS))


def strip(s):
    """Drop the statement-kind annotation (the Coq term has none)."""
    if s[0] == 'leaf':
        return s
    if s[0] == 'one':
        return ('one', s[1], [strip(x) for x in s[2]])
    return ('two', s[1], [strip(x) for x in s[2]], [strip(x) for x in s[3]])


def text_block(block, ind, out):
    pad = '    ' * ind
    for s in block:
        if s[0] == 'leaf':
            out.append(f'{pad}x = {s[1]}')
        elif s[0] == 'one':
            kind = s[3] if len(s) > 3 else 'if1'
            head = {'if1': f'if x < {s[1]}:', 'while': f'while x < {s[1]}:',
                    'for': f'for i in range({s[1]}):', 'with': f'with fp.MPFixedContext(-{s[1]}):'}[kind]
            out.append(pad + head)
            text_block(s[2], ind + 1, out)
        else:
            out.append(f'{pad}if x < {s[1]}:')
            text_block(s[2], ind + 1, out)
            out.append(f'{pad}else:')
            text_block(s[3], ind + 1, out)


def func_text(name, block):
    out = ['@fp.fpy', f'def {name}(x: fp.Real) -> fp.Real:']
    text_block(block, 1, out)
    out.append('    return x')
    return '\n'.join(out) + '\n'


def sub_blocks(s):
    if s[0] == 'one':
        return [('body', s[2])]
    if s[0] == 'two':
        return [('ift', s[2]), ('iff', s[3])]
    return []


def walk(block, bp=()):
    for i, s in enumerate(block):
        yield (bp, i), s
        for fld, sub in sub_blocks(s):
            yield from walk(sub, bp + ((i, fld),))


def walk_blocks(block, bp=()):
    yield bp, block
    for i, s in enumerate(block):
        for fld, sub in sub_blocks(s):
            yield from walk_blocks(sub, bp + ((i, fld),))


def gen_new(rng, lab):
    L = lab.fresh()
    if rng.random() < 0.75:
        return ('leaf', L)
    return ('one', L, [('leaf', lab.fresh())], rng.choice(ONE_KINDS))


def gen_log(rng, lab, block, bp=(), top=True, rate=0.35):
    """A random well-formed (disjoint) edit log over `block`; edits are
    (block path, index, removed, new statements)."""
    edits = []
    n = len(block)
    limit = n  # at top level the caller appended nothing: `return x` is added in the text only
    i = 0
    kept = 0
    pending = []
    while i <= limit:
        r = rng.random()
        if r < rate * 0.4:
            pending.append((bp, i, 0, [gen_new(rng, lab) for _ in range(rng.randint(1, 2))]))
            kept += 1
            if rng.random() < 0.2:   # two insertions at one index
                pending.append((bp, i, 0, [gen_new(rng, lab)]))
            r = 1.0
        if i == n:
            break
        if r < rate:
            k = rng.randint(1, min(3, n - i))
            m = rng.choice([0, 1, 1, 2, 3])
            pending.append((bp, i, k, [gen_new(rng, lab) for _ in range(m)]))
            kept += m
            i += k
            continue
        kept += 1
        for fld, sub in sub_blocks(block[i]):
            edits += gen_log(rng, lab, sub, bp + ((i, fld),), False, rate)
        i += 1
    if kept == 0:
        # never empty a block (the text would not parse): the last deletion emits a statement
        b, j, r, new = pending[-1]
        pending[-1] = (b, j, r, new + [gen_new(rng, lab)])
    return pending + edits


def m_apply(edits, block, bp=()):
    """Harness twin of the model's `apply` (used only to write the produced
    program's text; Coq compares what fpy2 parsed from it with the model)."""
    out = []
    n = len(block)
    for i in range(n + 1):
        for (b, j, r, new) in edits:
            if b == bp and j == i:
                out += new
        if i == n:
            break
        if any(b == bp and j <= i < j + r for (b, j, r, _) in edits):
            continue
        s = block[i]
        if s[0] == 'leaf':
            out.append(s)
        elif s[0] == 'one':
            out.append(('one', s[1], m_apply(edits, s[2], bp + ((i, 'body'),))) + tuple(s[3:]))
        else:
            out.append(('two', s[1], m_apply(edits, s[2], bp + ((i, 'ift'),)), m_apply(edits, s[3], bp + ((i, 'iff'),))))
    return out


# ---------------------------------------------------------------- fpy2 side
_INT = re.compile(r'\d+')


class Impl:
    """Everything that touches fpy2."""

    def __init__(self, ck):
        self.ck = ck
        import fpy2  # noqa: F401
        from fpy2.transform import cursor as C, path as P
        from fpy2.transform.error import TransformError, TransformReferenceError
        self.C, self.P = C, P
        self.TransformError = TransformError
        self.RefError = TransformReferenceError
        self.gen_dir = ck.dir / 'gen'
        self.gen_dir.mkdir(parents=True, exist_ok=True)
        (self.gen_dir / '__init__.py').write_text('')
        if str(ck.dir) not in sys.path:
            sys.path.insert(0, str(ck.dir))
        self.nmod = 0

    def load(self, texts, prelude=''):
        """Write the function definitions to a real module file and import it."""
        name = f'c19m{self.nmod}'
        self.nmod += 1
        (self.gen_dir / f'{name}.py').write_text('import fpy2 as fp\n' + prelude + '\n\n' + '\n\n'.join(texts))
        importlib.invalidate_caches()
        return importlib.import_module(f'gen.{name}')

    # paths
    def bpath(self, bp):
        p = self.P.FuncBody()
        for idx, fld in bp:
            p = p.stmt(idx).block(fld)
        return p

    def spath(self, sp):
        return self.bpath(sp[0]).stmt(sp[1])

    def un_bpath(self, p):
        steps = []
        while isinstance(p, self.P.SubBlock):
            steps.append((p.parent.index, p.field))
            p = p.parent.parent
        return tuple(reversed(steps))

    def un_spath(self, p):
        return (self.un_bpath(p.parent), p.index)

    # trees read back from a real FuncDef; labels = first integer of the header line
    def label_int(self, stmt):
        m = _INT.search(stmt.format().split('\n')[0])
        return int(m.group(0)) if m else 0

    def tree(self, ast, label=None, drop_return=True):
        label = label or self.label_int

        def blk(b):
            out = []
            for s in b.stmts:
                subs = self.P.sub_blocks(s)
                L = label(s)
                if not subs:
                    out.append(('leaf', L))
                elif len(subs) == 1:
                    out.append(('one', L, blk(subs[0][1])))
                else:
                    out.append(('two', L, blk(subs[0][1]), blk(subs[1][1])))
            return out
        return blk(ast.body)


def _tree_p(self, ast, label):
    def blk(b, bp):
        out = []
        for i, s in enumerate(b.stmts):
            subs = self.P.sub_blocks(s)
            L = label((bp, i), s)
            if not subs:
                out.append(('leaf', L))
            elif len(subs) == 1:
                out.append(('one', L, blk(subs[0][1], bp + ((i, subs[0][0]),))))
            else:
                out.append(('two', L, blk(subs[0][1], bp + ((i, subs[0][0]),)), blk(subs[1][1], bp + ((i, subs[1][0]),))))
        return out
    return blk(ast.body, ())


Impl.tree_p = _tree_p


def expr_field(stmt):
    return {'Assign': 'expr', 'ReturnStmt': 'expr', 'If1Stmt': 'cond', 'IfStmt': 'cond', 'WhileStmt': 'cond',
            'ForStmt': 'iterable', 'ContextStmt': 'ctx', 'AssertStmt': 'test', 'EffectStmt': 'expr',
            'IndexedAssign': 'expr'}.get(type(stmt).__name__)


def observe_cursor(im, out, label):
    """A forwarded cursor as an `obs` term (labels resolved on the real result)."""
    C = im.C
    if isinstance(out, C.StmtCursor):
        return f'(OStmt {c_spath(im.un_spath(out.path))} {cz(label(out.resolve()))})'
    if isinstance(out, C.BlockCursor):
        return (f'(OBlock {c_bpath(im.un_bpath(out.block_path))} {cz(out.span.start)} {cz(out.span.stop)} '
                f'{c_zlist([label(s) for s in out.resolve()])})')
    if isinstance(out, C.ExprCursor):
        return f'(OExpr {c_spath(im.un_spath(out.path.stmt()))})'
    raise TypeError(out)


def run_queries(im, src, log, real_edits, queries, label):
    """Execute the queries on fpy2; returns [(query term, obs term)]."""
    C, P = im.C, im.P
    res = []
    for q in queries:
        kind = q[0]
        try:
            if kind == 'stmt':
                qt = f'QStmt {c_spath(q[1])}'
                o = observe_cursor(im, log.forward(C.StmtCursor(src, im.spath(q[1]))), label)
            elif kind == 'block':
                qt = f'QBlock {c_bpath(q[1])} {cz(q[2])} {cz(q[3])}'
                o = observe_cursor(im, log.forward(C.BlockCursor(src, im.bpath(q[1]), range(q[2], q[3]))), label)
            elif kind == 'expr':
                qt = f'QExpr {c_spath(q[1])}'
                sp = im.spath(q[1])
                st = C.StmtCursor(src, sp).resolve()
                fld = expr_field(st)
                if fld is None:
                    continue   # a statement that holds no expression (`pass`)
                o = observe_cursor(im, log.forward(C.ExprCursor(src, sp.expr(fld))), label)
            elif kind == 'resolve':
                qt = f'QResolve {c_spath(q[1])}'
                o = f'(OLabel {cz(label(P.resolve_stmt(src, im.spath(q[1]))))})'
            elif kind == 'raw':
                qt = f'QRaw {c_spath(q[1])}'
                sp = im.spath(q[1])
                b, i, e = C._forward_stmt(sp, real_edits, sp)
                cont = 'None' if e is None else f'(Some ({cz(e.index)}, {cz(e.removed)}, {cz(e.inserted)}))'
                o = f'(ORaw {c_bpath(im.un_bpath(b))} {cz(i)} {cont})'
            else:
                raise RuntimeError(kind)
        except (im.TransformError, ValueError, TypeError) as ex:
            o = f'(OErr {c_err(ex)})'
        res.append((qt, o))
    return res


def c_queries(qos):
    return '[' + '; '.join(f'({q}, {o})' for q, o in qos) + ']'


# ---------------------------------------------------------------- part A
def part_a(ck, im, rng, cases, n_trees):
    C = im.C
    import fpy2 as fp
    specs = []
    texts = []
    for k in range(n_trees):
        lab = Labels(1)
        depth = rng.choice([2, 3, 3, 4, 4])
        t0 = gen_block(rng, lab, depth, 4)
        lab.n = 1000
        log1 = gen_log(rng, lab, t0, rate=rng.choice([0.15, 0.35, 0.6]))
        t1 = m_apply(log1, t0)
        lab.n = 2000
        log2 = gen_log(rng, lab, t1, rate=0.3)
        t2 = m_apply(log2, t1)
        specs.append((k, t0, log1, t1, log2, t2))
        texts += [func_text(f'a{k}', t0), func_text(f'b{k}', t1), func_text(f'c{k}', t2)]
    mod = im.load(texts)

    for (k, t0, log1, t1, log2, t2) in specs:
        src, res, res2 = getattr(mod, f'a{k}').ast, getattr(mod, f'b{k}').ast, getattr(mod, f'c{k}').ast
        tree0, tree1, tree2 = im.tree(src), im.tree(res), im.tree(res2)
        paths = [sp for sp, _ in walk(tree0)]
        blocks = list(walk_blocks(tree0))

        # ---- the well-formed log
        def real_edits_of(log):
            return tuple(C.Edit(im.bpath(b), i, r, len(new)) for (b, i, r, new) in log)
        dirty = [sp for sp in paths if rng.random() < 0.1]
        pres = rng.random() < 0.8
        made = 'Ok tt'
        try:
            redits = real_edits_of(log1)
            elog = C.EditLog(src, res, redits, exprs_rewritten=tuple(im.spath(sp) for sp in dirty), exprs_preserved=pres)
        except (im.TransformError, ValueError) as ex:
            made = f'Err {c_err(ex)}'
            elog = None
        qs = []
        if elog is not None:
            for sp in paths:
                qs += [('stmt', sp), ('raw', sp)]
                if rng.random() < 0.5:
                    qs.append(('expr', sp))
            for bp, blk in blocks:
                n = len(blk)
                for _ in range(2):
                    lo = rng.randint(-1, n)
                    hi = rng.randint(lo - 1, n + 1)
                    qs.append(('block', bp, lo, hi))
                qs.append(('block', bp, 0, n))
            # paths that name nothing
            for _ in range(4):
                bp, blk = rng.choice(blocks)
                bad = rng.choice([(bp, len(blk)), (bp, -1), (bp + ((0, rng.choice(['body', 'ift', 'iff'])),), 0),
                                  (bp + ((rng.randint(0, len(blk)), 'body'),), rng.randint(0, 2))])
                qs += [('resolve', bad), ('stmt', bad)]
            for sp in paths[:6]:
                qs.append(('resolve', sp))
        qos = run_queries(im, src, elog, redits if elog is not None else (), qs, im.label_int)
        term = (f'CLog {c_tree(tree0)} [{"; ".join(c_edit(e) for e in log1)}] ({made}) {c_tree(tree1)} '
                f'{cb(pres)} [{"; ".join(c_spath(sp) for sp in dirty)}] {c_queries(qos)}')
        nt = None
        for qt, o in qos:
            if qt.startswith('QStmt') and not o.startswith('(OErr'):
                # a cursor that moved or was replaced
                if o.split(' {')[0] and qt[6:] not in o:
                    nt = True
        cases.append((term, 'CLog-valid', None))
        ck.evaluations += len(qos) + 1
        ck.count('A:CLog-valid')
        ck.count('A:queries', len(qos))
        if nt:
            ck.nontriv(('A', k, 'moved'))

        # ---- a malformed log
        bad = list(log1)
        kind = rng.choice(['overlap', 'nested', 'range', 'nopath', 'negative', 'dup'])
        cand = [e for e in log1 if e[2] > 0]
        if kind == 'overlap' and cand:
            b, i, r, new = rng.choice(cand)
            bad.insert(rng.randint(0, len(bad)), (b, i + rng.randint(0, r - 1), rng.choice([0, 1, 2]), [('leaf', 9000)]))
        elif kind == 'nested' and cand:
            b, i, r, new = rng.choice(cand)
            j = i + rng.randint(0, r - 1)
            bad.append((b + ((j, rng.choice(['body', 'ift'])),), 0, rng.choice([0, 1]), [('leaf', 9001)]))
        elif kind == 'range':
            bp, blk = rng.choice(blocks)
            bad.insert(rng.randint(0, len(bad)), (bp, len(blk) + (1 if bp else 2) - rng.choice([0, 1]), rng.choice([1, 2]), []))
        elif kind == 'nopath':
            bp, blk = rng.choice(blocks)
            bad.insert(rng.randint(0, len(bad)), (bp + ((len(blk) + 3, 'body'),), 0, 0, [('leaf', 9002)]))
        elif kind == 'negative':
            bp, blk = rng.choice(blocks)
            bad.append((bp, rng.choice([-1, 0]), rng.choice([-1, 0, 1]) if True else 0, [('leaf', 9003)]))
        elif cand:
            bad.append(rng.choice(cand))
        made = 'Ok tt'
        redits = None
        try:
            redits = real_edits_of(bad)
            C.EditLog(src, res, redits)
        except (im.TransformError, ValueError) as ex:
            made = f'Err {c_err(ex)}'
        if made == 'Ok tt':
            # the mutation happened to stay well-formed: the produced tree no longer matches; skip
            ck.count('A:malformed-still-wellformed')
        else:
            qs = [('resolve', sp) for sp in paths[:4]]
            if redits is not None:
                qs += [('raw', sp) for sp in paths]
            qos = run_queries(im, src, None, redits or (), qs, im.label_int)
            term = (f'CLog {c_tree(tree0)} [{"; ".join(c_edit(e) for e in bad)}] ({made}) {c_tree(tree1)} '
                    f'false [] {c_queries(qos)}')
            cases.append((term, 'CLog-malformed:' + kind, None))
            ck.evaluations += len(qos) + 1
            ck.count('A:CLog-malformed:' + kind + ':' + made)
            ck.nontriv(('A', k, 'malformed', made))
        if redits:
            pairs = [(ia, ib) for ia in range(len(redits)) for ib in range(len(redits))]
            for ia, ib in (pairs if len(pairs) <= 36 else rng.sample(pairs, 36)):
                a, b, ea, eb = redits[ia], redits[ib], bad[ia], bad[ib]
                cases.append((f'COverlap {c_edit(ea)} {c_edit(eb)} {cb(C._overlaps(a, b))}', 'COverlap', None))
                ck.evaluations += 1
                ck.count('A:COverlap')

        # ---- beneath
        for _ in range(6):
            sp = rng.choice(paths)
            bp, blk = rng.choice(blocks)
            lo = rng.randint(0, len(blk))
            hi = rng.randint(lo, len(blk) + 1)
            o = im.P.beneath(im.spath(sp), im.bpath(bp), range(lo, hi))
            cases.append((f'CBeneathS {c_spath(sp)} {c_bpath(bp)} {cz(lo)} {cz(hi)} {cb(o)}', 'CBeneathS', None))
            o = im.P.beneath(im.bpath(sp[0]), im.bpath(bp), range(lo, hi))
            cases.append((f'CBeneathB {c_bpath(sp[0])} {c_bpath(bp)} {cz(lo)} {cz(hi)} {cb(o)}', 'CBeneathB', None))
            ck.evaluations += 2
            ck.count('A:CBeneath', 2)

        # ---- the parent chain (Function.forward)
        from fpy2.function import Function
        F0 = Function(src)
        try:
            F1 = F0.with_edits(C.EditLog(src, res, real_edits_of(log1), exprs_preserved=True))
        except (im.TransformError, ValueError):
            continue
        opaque = rng.random() < 0.25
        if opaque:
            F2 = F1.with_ast(res2)
            steps = f'[(Some [{"; ".join(c_edit(e) for e in log1)}], {c_tree(tree1)}); (None, {c_tree(tree2)})]'
        else:
            F2 = F1.with_edits(C.EditLog(res, res2, real_edits_of(log2), exprs_preserved=True))
            steps = (f'[(Some [{"; ".join(c_edit(e) for e in log1)}], {c_tree(tree1)}); '
                     f'(Some [{"; ".join(c_edit(e) for e in log2)}], {c_tree(tree2)})]')
        asts = {0: (src, tree0), 1: (res, tree1), 2: (res2, tree2)}
        cqs = []
        for start in (0, 1, 2):
            a, tr = asts[start]
            ps = [sp for sp, _ in walk(tr)]
            for sp in (ps if start == 0 else rng.sample(ps, min(4, len(ps)))):
                try:
                    o = observe_cursor(im, F2.forward(C.StmtCursor(a, im.spath(sp))), im.label_int)
                except im.TransformError as ex:
                    o = f'(OErr {c_err(ex)})'
                cqs.append(f'({cz(start)}, {c_spath(sp)}, {o})')
                ck.evaluations += 1
                ck.count('A:CChain-query' + (':opaque' if opaque else ''))
                if not o.startswith('(OErr') and start == 0:
                    ck.nontriv(('A', k, 'chain', c_spath(sp)))
        # a cursor of a program that is not on the chain
        other = getattr(mod, f'a{(k + 1) % len(specs)}').ast
        if other is not src:
            try:
                o = observe_cursor(im, F2.forward(C.StmtCursor(other, im.P.FuncBody().stmt(0))), im.label_int)
            except im.TransformError as ex:
                o = f'(OErr {c_err(ex)})'
            cqs.append(f'(77, (FuncBody, 0), {o})')
            ck.evaluations += 1
        cases.append((f'CChain {c_tree(tree0)} {steps} [{"; ".join(cqs)}]', 'CChain', None))


# ---------------------------------------------------------------- harness mirror of the model's path arithmetic
# (used only to read the inserted statements off the produced tree; Coq then
#  decides whether model `apply` reproduces the produced tree)
def m_forward_block(edits, bp):
    out = ()
    cur = ()
    for (i, fld) in bp:
        shift = 0
        for (b, j, r, n) in edits:
            if b != cur:
                continue
            if i >= j + r:
                shift += n - r
            elif i >= j:
                return None
        out = out + ((i + shift, fld),)
        cur = cur + ((i, fld),)
    return out


def m_forward_stmt(edits, sp):
    bp, i = sp
    nb = m_forward_block(edits, bp)
    if nb is None:
        return None
    shift, cont = 0, None
    for e in edits:
        (b, j, r, n) = e
        if b != bp:
            continue
        if i >= j + r:
            shift += n - r
        elif i >= j:
            cont = e
    if cont is not None:
        return nb, cont[1] + shift, cont
    return nb, i + shift, None


def m_edit_pos(edits, k):
    """Where edit number k's statements start in the produced block."""
    (bp, i, r, n) = edits[k]
    off = i
    for (b, j, r2, n2) in edits:
        if b != bp:
            continue
        off += (n2 if j < i else 0) - max(0, min(i - j, r2))
    for (b, j, r2, n2) in edits[:k]:
        if b == bp and j == i:
            off += n2
    return off


def get_block(tree, bp):
    blk = tree
    for (i, fld) in bp:
        if not 0 <= i < len(blk):
            return None
        s = blk[i]
        sub = dict(sub_blocks(s))
        if fld not in sub:
            return None
        blk = sub[fld]
    return blk


# ---------------------------------------------------------------- real programs
HELPERS = """
@fp.fpy
def g1(a: fp.Real) -> fp.Real:
    b = a + 1
    return b * 2


@fp.fpy
def g2(a: fp.Real) -> fp.Real:
    return a - 3


@fp.fpy
def g3(a: fp.Real, b: fp.Real) -> fp.Real:
    c = a * b
    d = c + a
    return d - b


@fp.fpy
def g4(i: fp.Real) -> fp.Real:
    return i + 0
"""


class ProgGen:
    def __init__(self, rng):
        self.rng = rng
        self.c = 10
        self.v = 0

    def const(self):
        self.c += 1
        return self.c

    def var(self):
        self.v += 1
        return f'e{self.v}'

    def block(self, depth, maxlen, ind, scope):
        out = []
        for _ in range(self.rng.randint(1, maxlen)):
            out += self.stmt(depth, ind, scope)
        return out

    def stmt(self, depth, ind, scope):
        rng = self.rng
        pad = '    ' * ind
        kinds = ['asg', 'asg', 'call', 'rnd', 'rnd', 'idx']
        if depth > 1:
            kinds += ['for', 'for', 'forlit', 'forlit', 'while', 'while', 'if1', 'ifelse']
        k = rng.choice(kinds)
        src = rng.choice(scope)
        if k == 'asg':
            return [f'{pad}a = a + {src} * {self.const()}']
        if k == 'call':
            form = rng.choice([0, 1, 2])
            if form == 0:
                return [f'{pad}a = a + g1({src} + {self.const()})']
            if form == 1:
                return [f'{pad}p = g2(a) + g1({src} * {self.const()})']
            return [f'{pad}p = g3(a, g2({src})) + {self.const()}']
        if k == 'idx':
            # statements holding several expressions: candidate sites in a subscript and in the stored value,
            # in the list and the index of a reference, in the parts of a conditional expression
            form = rng.choice([0, 0, 1, 2, 3, 4])
            c = self.const()
            if form == 0:
                return [f'{pad}ys[g4(1)] = g1({src} + {c})']
            if form == 1:
                return [f'{pad}ys[g4(g4(0))] = g2(a) + g3({src}, {c})']
            if form == 2:
                return [f'{pad}a = ys[g4(2)] + g1({src} * {c})']
            if form == 3:
                return [f'{pad}ys[g4(0)] = ys[g4(1)] + g2({src} + {c})']
            return [f'{pad}a = g1({src}) if g2(a) > {c} else g3(a, {src})']
        if k == 'rnd':
            ctx = rng.choice(['fp.FP16', 'fp.FP16', 'fp.FP32', 'fp.REAL', 'fp.MPFixedContext(-8)',
                              'fp.FixedContext(True, -4, 16)'])
            lines = [f'{pad}with {ctx}:']
            n = rng.choice([1, 1, 2])
            for j in range(n):
                tgt = rng.choice(['p', 'q'])
                lines.append(f'{pad}    {tgt} = fp.round({rng.choice(scope)})')
            # make the header unique: a trailing assignment carries the constant
            return [f'{pad}a = a + {self.const()}'] + lines if rng.random() < 0.3 else lines
        if k == 'for':
            v = self.var()
            return [f'{pad}for {v} in xs:'] + self.block(depth - 1, 2, ind + 1, scope + [v])
        if k == 'forlit':
            v = self.var()
            n = rng.choice([2, 3, 4])
            lit = ', '.join(f'{self.const()}.0' for _ in range(n))
            return [f'{pad}for {v} in [{lit}]:'] + self.block(depth - 1, 2, ind + 1, scope + [v])
        if k == 'while':
            return [f'{pad}while a > {self.const()}:'] + self.block(depth - 1, 2, ind + 1, scope) + [f'{pad}    a = a - {self.const()}']
        if k == 'if1':
            return [f'{pad}if a > {self.const()}:'] + self.block(depth - 1, 2, ind + 1, scope)
        return ([f'{pad}if a > {self.const()}:'] + self.block(depth - 1, 2, ind + 1, scope)
                + [f'{pad}else:'] + self.block(depth - 1, 2, ind + 1, scope))

    def program(self, name, depth, maxlen):
        body = self.block(depth, maxlen, 1, ['x', 'y'])
        return '\n'.join([
            '@fp.fpy(ctx=fp.REAL)',
            f'def {name}(xs: list[fp.Real], x: fp.Real, y: fp.Real) -> fp.Real:',
            '    a = 0.0', '    p = 0.0', '    q = 0.0', '    ys = [0.0, 0.0, 0.0]'] + body + ['    return a + p + q + ys[0]']) + '\n'

    def round_program(self, name):
        """A program for `insert_round`: exact operations under `fp.REAL`, also inside the iterable of a
        `for`, the condition of an `if` / `while`, each followed by more statements."""
        rng = self.rng
        body = ['        acc = 0.0']
        n = 0
        for _ in range(rng.randint(2, 4)):
            n += 1
            k = rng.choice(['op', 'op', 'for-iter', 'for-iter', 'for-body', 'if-cond', 'while-cond', 'abs'])
            a, b = rng.choice(['x', 'y']), rng.choice(['x', 'y'])
            if k == 'op':
                body.append(f'        t{n} = {a} * {b}')
                body.append(f'        acc = acc + t{n}')
            elif k == 'abs':
                body.append(f'        t{n} = abs({a})')
                body.append(f'        acc = acc + t{n} * {b}')
            elif k == 'for-iter':
                body.append(f'        for v{n} in [{a} * {b}, {b}]:')
                body.append(f'            acc = acc + v{n}')
            elif k == 'for-body':
                body.append(f'        for v{n} in [{a}, {b}]:')
                body.append(f'            w{n} = v{n} * {a}')
                body.append(f'            acc = acc + w{n}')
            elif k == 'if-cond':
                body.append(f'        if {a} * {b} > {self.const()}:')
                body.append(f'            acc = acc + {a}')
            else:
                body.append(f'        while {a} * {b} > acc:')
                body.append(f'            acc = acc + {self.const()}')
        body.append(f'        z = abs(y)')
        body.append(f'        c = z * y')
        return '\n'.join(['@fp.fpy(ctx=fp.FP64)', f'def {name}(x: fp.Real, y: fp.Real) -> fp.Real:',
                          '    with fp.REAL:'] + body + ['    return acc + c']) + '\n'



class Interner:
    def __init__(self):
        self.d = {}

    def __call__(self, s):
        if s not in self.d:
            self.d[s] = len(self.d) + 1
        return self.d[s]


def header(stmt):
    return stmt.format().split('\n')[0]


def strategies_table():
    import fpy2 as fp
    from fpy2.ast import Integer
    from fpy2 import strategies as S
    from fpy2.transform import ForUnrollStrategy, SplitLoopStrategy
    tab = []
    for times in (1, 2):
        for strat in (ForUnrollStrategy.PEEL, ForUnrollStrategy.STRICT):
            tab.append((f'unroll_for[{times},{strat.name}]', S.unroll_for, dict(times=times, strategy=strat),
                        dict(times=times, strategy=strat), 'ForStmt', 0))
    for times in (1, 2):
        tab.append((f'unroll_while[{times}]', S.unroll_while, {}, dict(times=times), 'WhileStmt', times))
    for strat in (SplitLoopStrategy.PEEL, SplitLoopStrategy.STRICT):
        tab.append((f'split[2,{strat.name}]', S.split, dict(factor=Integer(2, None), strategy=strat),
                    dict(factor=2, strategy=strat), 'ForStmt', 0))
    tab.append(('unfold_special', S.unfold_special, {}, {}, 'ContextStmt', 0))
    tab.append(('unfold_neg_zero', S.unfold_neg_zero, {}, {}, 'ContextStmt', 0))
    tab.append(('unfold_overflow', S.unfold_overflow, {}, {}, 'ContextStmt', 0))
    tab.append(('unfold_overflow[early]', S.unfold_overflow, {}, dict(early_check=True), 'ContextStmt', 0))
    tab.append(('float_to_fixed', S.float_to_fixed, {}, {}, 'ContextStmt', 0))
    tab.append(('rescale_fixed', S.rescale_fixed, {}, {}, 'ContextStmt', 0))
    tab.append(('insert_round[FP32]', S.insert_round, dict(ctx=fp.FP32), dict(ctx=fp.FP32), None, 0))
    tab.append(('insert_round[FP64]', S.insert_round, dict(ctx=fp.FP64), dict(ctx=fp.FP64), None, 0))
    tab.append(('inline', S.inline, {}, {}, 'Call', 0))
    tab.append(('inline[nonrec]', S.inline, {}, dict(recursive=False), 'Call', 0))
    return tab


def stmt_path_of(im, cur):
    """The statement path a site cursor sits at (its own, or its statement's)."""
    if isinstance(cur, im.C.ExprCursor):
        return im.un_spath(cur.path.stmt())
    return im.un_spath(cur.path)


def at_or_beneath(sp, loc):
    """Whether statement path sp is at or beneath statement path loc (harness tuples)."""
    (bp, i), (lb, li) = sp, loc
    full = bp + ((i, None),)
    pref = lb + ((li, None),)
    if len(full) < len(pref):
        return False
    for k, (a, b) in enumerate(zip(full, pref)):
        if k == len(pref) - 1:
            return a[0] == b[0]
        if a != b:
            return False
    return True


def shared_nodes(im, ast):
    """Statement / expression objects reachable at more than one program point (a program is a tree:
    a node held twice makes a later rewrite of one place change the other)."""
    seen, dup = {}, []
    for _, s in im.P.walk_stmts(ast):
        if id(s) in seen:
            dup.append(s)
        seen[id(s)] = s
    for _, e in im.P.walk_exprs(ast):
        if id(e) in seen:
            dup.append(e)
        seen[id(e)] = e
    return dup


def check_tree(ck, im, f_res, tag, f_src=None, key=None):
    dup = shared_nodes(im, f_res.ast)
    ck.evaluations += 1
    if dup:
        ck.violation(f'{tag.split("[")[0]}: the produced program holds one AST node at several program points',
                     {'what': tag, 'program': None if f_src is None else f_src.format(), 'result': f_res.format(),
                      'shared': [type(d).__name__ + ': ' + d.format().splitlines()[0] for d in dup[:6]]}, key=key)
    return not dup


def log_case(ck, im, f_src, f_res, intern, tag, cases, key=None, expr_queries=True):
    """One reported log of a real pass as a CLog case: model `apply` of the
    reported edits must reproduce the produced tree, and every statement
    cursor must forward as the model says."""
    C = im.C
    log = f_res.edits
    src, res = f_src.ast, f_res.ast
    check_tree(ck, im, f_res, tag, f_src, key)
    edits_n = [(im.un_bpath(e.block_path), e.index, e.removed, e.inserted) for e in log.edits]
    dirty = [im.un_spath(sp) for sp in log.exprs_rewritten]
    pres = bool(log.exprs_preserved)
    dirty_res = set()
    for sp in dirty:
        r = m_forward_stmt(edits_n, sp)
        if r is not None:
            dirty_res.add((r[0], r[1]))

    def lab_src(sp, s):
        if (not pres) or sp in dirty:
            return intern('#' + type(s).__name__)
        return intern(header(s))

    def lab_res(sp, s):
        if (not pres) or sp in dirty_res:
            return intern('#' + type(s).__name__)
        return intern(header(s))

    tree0 = im.tree_p(src, lab_src)
    tree1 = im.tree_p(res, lab_res)
    lab_of = {}
    for sp, s in im.P.walk_stmts(res):
        lab_of[id(s)] = lab_res(im.un_spath(sp), s)
    edits = []
    for k, (bp, i, r, n) in enumerate(edits_n):
        nb = m_forward_block(edits_n, bp)
        blk = None if nb is None else get_block(tree1, nb)
        pos = m_edit_pos(edits_n, k)
        if blk is None or pos < 0 or pos + n > len(blk):
            ck.violation(f'{tag}: a reported edit does not fit the produced program',
                         {'program': f_src.format(), 'result': f_res.format(), 'edits': repr(log.edits)}, key=key)
            return
        edits.append((bp, i, r, blk[pos:pos + n]))
    paths = [sp for sp, _ in walk(tree0)]
    qs = []
    for sp in paths:
        qs += [('stmt', sp), ('raw', sp)]
        if expr_queries:
            qs.append(('expr', sp))
    for bp, blk in walk_blocks(tree0):
        qs.append(('block', bp, 0, len(blk)))
        if len(blk) > 1:
            qs.append(('block', bp, 0, len(blk) - 1))
    qos = run_queries(im, src, log, log.edits, qs, lambda s: lab_of[id(s)])
    term = (f'CLog {c_tree(tree0)} [{"; ".join(c_edit(e) for e in edits)}] (Ok tt) {c_tree(tree1)} '
            f'{cb(pres)} [{"; ".join(c_spath(sp) for sp in dirty)}] {c_queries(qos)}')
    cases.append((term, tag + '\n--- source\n' + f_src.format() + '\n--- result\n' + f_res.format() + '\n--- edits ' + repr(log.edits), key))
    ck.evaluations += len(qos) + 1
    ck.count('B:CLog-real')
    ck.count('B:queries', len(qos))
    if edits:
        ck.nontriv((tag, f_src.format()))

    # direct, model-free reading of "untouched statements are unchanged"
    for sp_r, s in im.P.walk_stmts(src):
        sp = im.un_spath(sp_r)
        touched = any(at_or_beneath(sp, (b, j)) or (b == sp[0] and j <= sp[1] < j + r)
                      for (b, i0, r, n) in edits_n for j in range(i0, i0 + max(r, 0)))
        # an edit inside the statement's own blocks also changes its text
        inside = any(len(b) > len(sp[0]) and b[:len(sp[0])] == sp[0] and b[len(sp[0])][0] == sp[1] for (b, _, _, _) in edits_n)
        if touched or inside or not pres or any(at_or_beneath(d, sp) or at_or_beneath(sp, d) for d in dirty):
            continue
        try:
            img = log.forward(C.StmtCursor(src, sp_r))
        except im.TransformError as ex:
            ck.violation(f'{tag}: an untouched statement does not forward', {'program': f_src.format(), 'path': c_spath(sp), 'error': str(ex)}, key=key)
            continue
        if not isinstance(img, C.StmtCursor) or img.resolve().format() != s.format():
            ck.violation(f'{tag}: an untouched statement changed or was mis-forwarded',
                         {'program': f_src.format(), 'result': f_res.format(), 'path': c_spath(sp)}, key=key)
        ck.evaluations += 1


def part_bc(ck, im, rng, cases, n_progs, n_seqs):
    import fpy2 as fp
    from fpy2 import strategies as S
    C, P = im.C, im.P
    tab = strategies_table()
    gen = ProgGen(rng)
    names, texts = [], []
    for k in range(n_progs):
        depth = rng.choice([1, 2, 2, 3])
        texts.append(gen.program(f'p{k}', depth, rng.choice([2, 3, 4])))
        names.append(f'p{k}')
    # directed: several rounding blocks in ONE statement list, an earlier one replaced by several statements,
    # untouched statements between and behind them (edit positions of a plural application)
    texts.append('\n'.join([
        '@fp.fpy(ctx=fp.REAL)',
        'def pq(xs: list[fp.Real], x: fp.Real, y: fp.Real) -> fp.Real:',
        '    a = 0.0', '    p = 0.0', '    q = 0.0', '    ys = [0.0, 0.0, 0.0]',
        '    with fp.FP16:', '        p = fp.round(x)', '        q = fp.round(y)',
        '    with fp.FP32:', '        q = fp.round(q)',
        '    a = p + q',
        '    with fp.FP16:', '        p = fp.round(a)', '        q = fp.round(p)',
        '    a = a + q',
        '    return a + p + q + ys[0]']) + '\n')
    names.append('pq')
    n_round = max(3, n_progs // 3)
    rnames = [f'r{k}' for k in range(n_round)]
    texts += [gen.round_program(nm) for nm in rnames]
    mod = im.load(texts, prelude=HELPERS)
    progs = [getattr(mod, n) for n in names]
    # pinned to FP32 arguments, so that products are exactly representable in FP64 (`insert_round` has sites)
    from fpy2.types import RealType
    round_progs = set()
    for nm in rnames:
        try:
            progs.append(S.monomorphize(getattr(mod, nm), fp.FP64, [RealType(fp.FP32)] * 2))
            round_progs.add(len(progs) - 1)
            ck.count('C:round-programs')
        except Exception as ex_:  # noqa: BLE001
            ck.count(f'C:round-program-not-monomorphized:{type(ex_).__name__}')

    def order_key(f):
        keys = {}
        for n, (sp, s) in enumerate(P.walk_stmts(f.ast)):
            keys[('s', im.un_spath(sp))] = (n, -1)
        ex = {}
        for n, (ep, e) in enumerate(P.walk_exprs(f.ast)):
            ex[id(e)] = n
        return keys, ex

    def cand_key(f, cur, keys, ex):
        if isinstance(cur, C.ExprCursor):
            return (keys[('s', im.un_spath(cur.path.stmt()))][0], ex[id(cur.resolve())])
        return keys[('s', im.un_spath(cur.path))]

    # ------------------------------------------------------------ part C
    for fi, f in enumerate(progs):
        keys, ex = order_key(f)
        intern = Interner()
        tree_hdr = im.tree_p(f.ast, lambda sp, s: intern(header(s)))
        for (sname, st, skw, akw, ckind, reps) in tab:
            try:
                Ss = S.sites(st, f, **skw)
                Rs = [c for c, _ in S.refusals(st, f, **skw)]
            except im.TransformError as ex_:
                ck.violation(f'C:{sname}: listing sites raised', {'program': f.format(), 'error': repr(ex_)})
                continue
            except Exception as ex_:  # an analysis the pass relies on gave up on this program
                ck.count(f'C:{sname}:listing-crashed:{type(ex_).__name__}')
                continue
            k = len(Ss)
            ck.count('C:(program,strategy)')
            ck.count('C:listed-sites', k)
            ck.count('C:listed-refusals', len(Rs))
            # sites and refusals are disjoint, in visit order, and account for every candidate
            skeys = [cand_key(f, c, keys, ex) for c in Ss]
            rkeys = [cand_key(f, c, keys, ex) for c in Rs]
            if set(skeys) & set(rkeys) or skeys != sorted(skeys) or rkeys != sorted(rkeys) or len(set(skeys)) != k:
                ck.violation(f'C:{sname}: sites and refusals overlap or are out of visit order',
                             {'program': f.format(), 'sites': [str(c) for c in Ss], 'refusals': [str(c) for c in Rs]})
            if ckind in ('ForStmt', 'WhileStmt', 'ContextStmt') and not (ckind == 'ContextStmt' and fi in round_progs):
                # (in the generated programs every `with` is a rounding block, except the `with fp.REAL`
                #  that wraps a program of the round family)
                expect = sorted(keys[('s', im.un_spath(sp))] for sp, s in P.walk_stmts(f.ast) if type(s).__name__ == ckind)
                if sorted(skeys + rkeys) != expect:
                    ck.violation(f'C:{sname}: sites + refusals do not account for every `{ckind}`',
                                 {'program': f.format(), 'sites': [str(c) for c in Ss], 'refusals': [str(c) for c in Rs]})
            elif ckind == 'Call':
                from fpy2.function import Function
                expect = sorted((keys[('s', im.un_spath(ep.stmt()))][0], ex[id(e)]) for ep, e in P.walk_exprs(f.ast)
                                if type(e).__name__ == 'Call' and isinstance(e.fn, Function))
                if sorted(skeys + rkeys) != expect:
                    ck.violation(f'C:{sname}: sites + refusals do not account for every call',
                                 {'program': f.format(), 'sites': [str(c) for c in Ss], 'refusals': [str(c) for c in Rs]})
            merged = sorted([(kk, False, c) for kk, c in zip(skeys, Ss)] + [(kk, True, c) for kk, c in zip(rkeys, Rs)], key=lambda z: z[0])
            refs = [m[1] for m in merged]
            site_no = [n for n, m in enumerate(merged) if not m[1]]     # candidate number of the j-th site
            site_sp = [stmt_path_of(im, c) for c in Ss]
            expr_sited = any(isinstance(c, C.ExprCursor) for c in Ss)
            site_txt = [c.resolve().format() for c in Ss] if expr_sited else None
            lab_sites = [intern(header(c.resolve())) for c in Ss] if not expr_sited else None
            lab_refs = [intern(header(c.resolve())) for c in Rs] if not expr_sited else None
            if not expr_sited and ckind in ('ForStmt', 'WhileStmt', 'ContextStmt'):
                cands = lab_sites + lab_refs
                if len(set(cands)) == len(cands):
                    cases.append((f'CTreeList {c_tree(tree_hdr)} {c_zlist(cands)} {c_zlist(lab_refs)} {c_zlist(lab_sites)} {c_zlist(lab_refs)}',
                                  f'C:{sname}: sites/refusals listing vs the walk of the model\n' + f.format(), None))
                    ck.evaluations += 1

            def callee(c):
                return getattr(c.resolve().fn, 'name', '?')

            def observe(out, j):
                """Which sites (numbers into Ss) the pass rewrote, read off what it produced."""
                locs = [(im.un_bpath(e.block_path), e.index) for e in out.edits.edits]
                if expr_sited and sname.startswith('inline'):
                    # calls are told apart by their callee: the listing of the result is the
                    # old listing less the calls that were inlined
                    names_ = [callee(c) for c in Ss]
                    left = [callee(c) for c in S.sites(st, out, **skw)]
                    if j is None:
                        return list(range(k)) if not left else [n for n in range(k) if names_[n] not in left]
                    fits = [n for n in range(k) if names_[:n] + names_[n + 1:] == left]
                    if j in fits:
                        return [j]
                    return fits[:1] if fits else [-1]
                if expr_sited:
                    # insert_round: sites of one statement are told apart only by count
                    hit = [n for n in range(k) if any(site_sp[n] == loc for loc in locs)]
                    if j is not None and j in hit and len(S.sites(st, out, **skw)) == k - 1:
                        return [j]
                    return hit
                if j is not None:
                    return [n for n in range(k) if any(site_sp[n] == loc for loc in locs)]
                return [n for n in range(k) if any(at_or_beneath(site_sp[n], loc) for loc in locs)]

            outs = {}
            for j in [None] + list(range(-1, k + 2)):
                ck.evaluations += 1
                try:
                    out = st(f, where=j, **akw)
                    outs[j] = out
                except im.RefError:
                    outs[j] = 'RefErr'
                except im.TransformError as ex_:
                    outs[j] = 'Declined'
                    ck.violation(f'C:{sname}: an index raised something other than a reference error',
                                 {'program': f.format(), 'where': j, 'error': repr(ex_)})
                    continue
                except Exception as ex_:
                    ck.count(f'C:{sname}:apply-crashed:{type(ex_).__name__}')
                    outs[j] = None
                    continue
                rep = {'program': f.format(), 'strategy': sname, 'where': j, 'sites': [str(c) for c in Ss]}
                ck.count('C:index-' + ('none' if j is None else 'in-range' if 0 <= j < k else 'out-of-range'))
                if j is not None and not 0 <= j < k:
                    if outs[j] != 'RefErr':
                        ck.violation(f'C:{sname}: an index outside the listed sites was accepted', rep)
                    o = 'Err RefErr'
                elif outs[j] == 'RefErr':
                    ck.violation(f'C:{sname}: a listed site index (or None) was rejected', rep)
                    o = 'Err RefErr'
                else:
                    out = outs[j]
                    got = observe(out, j)
                    o = f'Ok {c_zlist([site_no[n] for n in got])}'
                    if j is not None:
                        ck.nontriv(('C', sname, f.format(), j))
                        if got != [j]:
                            ck.violation(f'C:{sname}: index j did not rewrite exactly the j-th listed site',
                                         dict(rep, rewritten=got, result=out.format()))
                        locs = [(im.un_bpath(e.block_path), e.index) for e in out.edits.edits]
                        if locs != [site_sp[j]]:
                            ck.violation(f'C:{sname}: the reported edit is not at the j-th listed site',
                                         dict(rep, edits=repr(out.edits.edits)))
                    else:
                        if got != list(range(k)):
                            ck.violation(f'C:{sname}: aiming at nothing did not rewrite all listed sites',
                                         dict(rep, rewritten=got, result=out.format()))
                        locs = [(im.un_bpath(e.block_path), e.index) for e in out.edits.edits]
                        if any(loc not in site_sp for loc in locs):
                            ck.violation(f'C:{sname}: rewrite-all reported an edit that is not at a listed site',
                                         dict(rep, edits=repr(out.edits.edits)))
                    # everything else is unchanged: the model applied to the untouched program gives the result
                    if k > 0:
                        log_case(ck, im, f, out, Interner(), f'C:{sname}[where={j}]', cases, expr_queries=False)
                    if not expr_sited and ckind in ('ForStmt', 'WhileStmt', 'ContextStmt') and len(set(lab_sites + lab_refs)) == len(lab_sites + lab_refs):
                        cases.append((f'CTreeSites {c_tree(tree_hdr)} {c_zlist(lab_sites + lab_refs)} {c_zlist(lab_refs)} {cz(reps)} '
                                      f'{c_opt(j, cz)} (Ok {c_zlist([lab_sites[n] for n in got])})',
                                      f'C:{sname}[where={j}] walk over the tree vs the model\n' + f.format(), None))
                cases.append((f'CSites [{"; ".join(cb(b) for b in refs)}] {c_opt(j, cz)} ({o})',
                              f'C:{sname}[where={j}] vs the model of SiteRewriter\n' + f.format(), None))
            # rewrite-all and rewrite-one agree on what replaces a site
            nested = any(a != b and at_or_beneath(a, b) for a in site_sp for b in site_sp)
            if not expr_sited and not nested and hasattr(outs.get(None), 'edits'):
                allmap = {(im.un_bpath(e.block_path), e.index): e for e in outs[None].edits.edits}
                for j in range(k):
                    if hasattr(outs.get(j), 'edits') and len(outs[j].edits.edits) == 1:
                        e = outs[j].edits.edits[0]
                        ea = allmap.get((im.un_bpath(e.block_path), e.index))
                        if ea is not None and (ea.removed, ea.inserted) != (e.removed, e.inserted):
                            ck.violation(f'C:{sname}: rewrite-all and rewrite-one replace the same site differently',
                                         {'program': f.format(), 'where': j, 'one': repr(e), 'all': repr(ea)})

    # ------------------------------------------------------------ part B
    opaque = [('simplify', S.simplify, {}), ('elim_round', S.elim_round, {})]
    whole = [('lift_context', S.lift_context, {}), ('close', S.close, {})]
    for n in range(n_seqs):
        f0 = rng.choice(progs)
        intern = Interner()
        chain = [f0]
        descr = []
        for step in range(rng.choice([1, 2, 2, 3])):
            cur = chain[-1]
            r = rng.random()
            try:
                if r < 0.08:
                    nm, st, akw = rng.choice(opaque)
                    nxt = st(cur, **akw)
                    descr.append(nm)
                elif r < 0.16:
                    nm, st, akw = rng.choice(whole)
                    nxt = st(cur, **akw)
                    descr.append(nm)
                else:
                    (sname, st, skw, akw, ckind, reps) = rng.choice(tab)
                    mode = rng.choice(['none', 'index', 'index', 'cursor'])
                    if mode == 'none':
                        where = None
                    elif mode == 'index':
                        kk = len(S.sites(st, cur, **skw))
                        if kk == 0:
                            continue
                        where = rng.randrange(kk)
                    else:
                        # a site of the *original* program, forwarded by the strategy itself
                        s0 = S.sites(st, f0, **skw)
                        if not s0:
                            continue
                        where = rng.choice(s0)
                    nxt = st(cur, where=where, **akw)
                    descr.append(f'{sname}(where={where if not isinstance(where, C.Cursor) else "cursor " + str(where).split(" at")[0]})')
                    if mode == 'cursor' and cur is not f0:
                        # aiming with an old cursor = aiming with the cursor forwarded by hand
                        alt = st(cur, where=cur.forward(where), **akw)
                        ck.evaluations += 1
                        if alt.format() != nxt.format():
                            ck.violation('B: a strategy aimed with a cursor of an ancestor differs from aiming with the forwarded cursor',
                                         {'program': cur.format(), 'strategy': descr[-1]})
            except im.TransformError:
                ck.count('B:step-declined')
                continue
            except Exception as ex_:
                ck.count(f'B:step-crashed:{type(ex_).__name__}')
                continue
            chain.append(nxt)
        if len(chain) < 2:
            continue
        ck.count('B:sequences')
        ck.count(f'B:sequence-length-{len(chain) - 1}')
        tag = 'B:' + ' ; '.join(descr)
        # every step that reported a log, against the model
        for a, b in zip(chain, chain[1:]):
            if b.edits is not None:
                log_case(ck, im, a, b, intern, tag, cases)
        # the replay along the chain, against the model (labels: header text, or the
        # statement kind once some pass rewrote expressions without saying where)
        loose = any(b.edits is not None and (not b.edits.exprs_preserved or b.edits.exprs_rewritten) for b in chain[1:])

        def lab(sp, s):
            return intern('#' + type(s).__name__) if loose else intern(header(s))
        trees = [im.tree_p(g.ast, lab) for g in chain]
        steps = []
        okc = True
        for idx in range(1, len(chain)):
            b = chain[idx]
            if b.edits is None:
                steps.append(f'(None, {c_tree(trees[idx])})')
                continue
            edits_n = [(im.un_bpath(e.block_path), e.index, e.removed, e.inserted) for e in b.edits.edits]
            es = []
            for kx, (bp, i, r, nn) in enumerate(edits_n):
                nb = m_forward_block(edits_n, bp)
                blk = None if nb is None else get_block(trees[idx], nb)
                pos = m_edit_pos(edits_n, kx)
                if blk is None or pos < 0 or pos + nn > len(blk):
                    okc = False
                    break
                es.append((bp, i, r, blk[pos:pos + nn]))
            steps.append(f'(Some [{"; ".join(c_edit(e) for e in es)}], {c_tree(trees[idx])})')
        if not okc:
            continue   # already reported by log_case
        last = chain[-1]
        labl = {}
        for sp, s in P.walk_stmts(last.ast):
            labl[id(s)] = lab(im.un_spath(sp), s)
        cqs = []
        for start in range(len(chain)):
            for sp_r, s in P.walk_stmts(chain[start].ast):
                sp = im.un_spath(sp_r)
                try:
                    img = last.forward(C.StmtCursor(chain[start].ast, sp_r))
                    o = observe_cursor(im, img, lambda z: labl[id(z)])
                    if start == 0:
                        ck.nontriv(('B', tag, f0.format(), c_spath(sp)))
                except im.TransformError as ex_:
                    o = f'(OErr {c_err(ex_)})'
                cqs.append(f'({cz(start)}, {c_spath(sp)}, {o})')
                ck.evaluations += 1
        ck.count('B:CChain-real')
        ck.count('B:chain-queries', len(cqs))
        cases.append((f'CChain {c_tree(trees[0])} [{"; ".join(steps)}] [{"; ".join(cqs)}]',
                      tag + ' (Function.forward along the chain)\n' + '\n---\n'.join(g.format() for g in chain), None))


PATTERNS = """
@fp.pattern
def dbl_l(a):
    y = a * 2


@fp.pattern
def dbl_r(a):
    y = a + a


@fp.pattern
def tri_l(a):
    a * 3


@fp.pattern
def tri_r(a):
    (a + a) + a


@fp.pattern
def neg_l(b):
    -b


@fp.pattern
def neg_r(b):
    0 - b


@fp.pattern
def fma_l(a, b, c):
    a * b + c


@fp.pattern
def fma_r(a, b, c):
    fp.fma(a, b, c)


@fp.pattern
def bump_l(a):
    y = a + 1


@fp.pattern
def bump_r(a):
    y = a + 2


@fp.pattern
def pair_l(a, b):
    y = a + 1
    u = b


@fp.pattern
def pair_r(a, b):
    u = b
    y = a + 2
    y = y + a
"""


def rule_program(rng, name, gen):
    """A program for the user-rewrite rules: every statement is textually distinct (fresh constants), and a
    statement holds at most one match of each left-hand side."""
    def operand():
        c = gen.const()
        return rng.choice([f'g1(x + {c})', f'(-(z + {c}))', f'g2(z - {c})', f'(x + {c})', f'-x'])

    def stmt(pad, depth):
        k = rng.choice(['dbl', 'dbl', 'tri', 'fma', 'bump', 'bump-use', 'plain'] + (['if', 'for'] if depth > 0 else []))
        if k == 'dbl':
            return [f'{pad}y = {operand()} * 2']
        if k == 'tri':
            return [f'{pad}u = ({operand()} + y) * 3']
        if k == 'fma':
            return [f'{pad}v = {operand()} * x + {gen.const()}']
        if k == 'bump':
            return [f'{pad}y = {operand()} + 1']
        if k == 'bump-use':
            return [f'{pad}y = {operand()} + 1', f'{pad}u = v - {gen.const()}']
        if k == 'plain':
            return [f'{pad}v = u - y - {gen.const()}']
        if k == 'if':
            return [f'{pad}if z > {gen.const()}:'] + stmt(pad + '    ', depth - 1) + stmt(pad + '    ', depth - 1)
        return [f'{pad}for e{gen.const()} in xs:'] + stmt(pad + '    ', depth - 1)
    body = []
    for _ in range(rng.randint(3, 6)):
        body += stmt('    ', 1)
    return '\n'.join(['@fp.fpy', f'def {name}(xs: list[fp.Real], x: fp.Real, z: fp.Real) -> fp.Real:',
                      '    y = 0.0', '    u = 0.0', '    v = 0.0'] + body + ['    return y - u - v']) + '\n'


def part_d(ck, im, rng, cases, n_progs):
    """User rewrite rules (fpy2.rewrite): the whole occurrence-index domain, replacement patterns that
    repeat a variable, and what a later expression-sited rewrite does to the copies."""
    import fpy2 as fp  # noqa: F401
    from fpy2 import strategies as S
    from fpy2.rewrite import Rewrite, find_all
    C, P = im.C, im.P
    gen = ProgGen(rng)
    names = [f'd{k}' for k in range(n_progs)]
    mod = im.load([rule_program(rng, nm, gen) for nm in names], prelude=HELPERS + PATTERNS)
    rules = [(nm, Rewrite(getattr(mod, nm + '_l'), getattr(mod, nm + '_r'), name=nm))
             for nm in ('dbl', 'tri', 'neg', 'fma', 'bump', 'pair')]

    def stmt_of(cur):
        if isinstance(cur, C.ExprCursor):
            return im.un_spath(cur.path.stmt())
        if isinstance(cur, C.BlockCursor):
            return (im.un_bpath(cur.block_path), cur.span.start)
        return im.un_spath(cur.path)

    def attempt(fn, rep, what):
        """Run a rewrite; a failure outside the TransformError hierarchy is a violation."""
        try:
            return fn()
        except im.RefError:
            return 'RefErr'
        except im.TransformError as ex_:
            return 'Declined:' + str(ex_)[:80]
        except Exception as ex_:  # noqa: BLE001
            ck.violation(f'D:{what}: a rewrite failed outside the TransformError hierarchy',
                         dict(rep, error=f'{type(ex_).__name__}: {ex_}'))
            return 'Crash'

    for nm in names:
        f = getattr(mod, nm)
        for rname, rule in rules:
            M = find_all(rule.lhs, f)
            k = len(M)
            ck.count('D:(program,rule)')
            ck.count('D:listed-matches', k)
            locs = [stmt_of(c) for c in M]
            overlapping = any(isinstance(c, C.BlockCursor) and len(c) > 1 for c in M) and len(set(
                (l[0], i) for c, l in zip(M, locs) for i in (range(l[1], l[1] + len(c)) if isinstance(c, C.BlockCursor) else [l[1]]))) < sum(
                    (len(c) if isinstance(c, C.BlockCursor) else 1) for c in M)
            distinct = len(set(locs)) == k and not overlapping
            src_text = {sp: s.format() for sp, s in ((im.un_spath(q), s) for q, s in P.walk_stmts(f.ast))}

            def rewritten(out):
                """Listed matches whose statement (or window) no longer stands as it was."""
                if isinstance(M[0], C.ExprCursor):
                    # an expression rule keeps every statement in place
                    now = {im.un_spath(q): s.format() for q, s in P.walk_stmts(out.ast)}
                    return [i for i, l in enumerate(locs) if now.get(l) != src_text[l]]
                at = [(im.un_bpath(e.block_path), e.index) for e in out.edits.edits]
                return [i for i, l in enumerate(locs) if l in at]

            domain = [None] + list(range(-k - 2, k + 3)) + [10 * k + 7]
            for j in domain:
                ck.evaluations += 1
                rep = {'program': f.format(), 'rule': rname, 'where': j, 'matches': [str(c).split(' at')[0] for c in M]}
                out = attempt(lambda: rule.apply(f, j), rep, rname)
                if out == 'Crash':
                    continue
                ck.count('D:index-' + ('none' if j is None else 'in-range' if 0 <= j < k else 'out-of-range'))
                if k == 0 or (j is not None and not 0 <= j < k):
                    # nothing to name: rejected, never a silent rewrite of some other match
                    if out != 'RefErr':
                        ck.violation(f'D:{rname}: an index outside the listed matches (or a rule that matches nothing) was accepted',
                                     dict(rep, outcome=out if isinstance(out, str) else out.format()))
                    o = 'Err RefErr'
                elif isinstance(out, str):
                    if out.startswith('Declined') and overlapping:
                        ck.count('D:overlapping-windows-declined')
                        continue
                    ck.violation(f'D:{rname}: a listed match index (or None) was rejected', dict(rep, outcome=out))
                    o = 'Err RefErr'
                else:
                    check_tree(ck, im, out, f'D:{rname}[where={j}]', f)
                    got = rewritten(out) if distinct else None
                    if got is not None:
                        want = list(range(k)) if j is None else [j]
                        ck.nontriv(('D', rname, nm, j))
                        if got != want:
                            ck.violation(f'D:{rname}: index j did not rewrite exactly the j-th listed match (None: all)',
                                         dict(rep, rewritten=got, result=out.format()))
                        o = f'Ok {c_zlist(got)}'
                    else:
                        o = None
                    log_case(ck, im, f, out, Interner(), f'D:{rname}[where={j}]', cases, expr_queries=False)
                if k > 0 and o is not None:
                    cases.append((f'CSites [{"; ".join(["false"] * k)}] {c_opt(j, cz)} ({o})',
                                  f'D:{rname}[where={j}] vs the model of the site walk\n' + f.format(), None))
            # aimed by the listed cursor = aimed by its index
            for j, cur in enumerate(M):
                a = attempt(lambda: rule.apply(f, j), {'program': f.format(), 'rule': rname, 'where': j}, rname)
                b = attempt(lambda: rule.apply(f, cur), {'program': f.format(), 'rule': rname, 'where': str(cur)}, rname)
                ck.evaluations += 1
                if isinstance(cur, C.ExprCursor) and not isinstance(a, str) and (isinstance(b, str) or a.format() != b.format()):
                    ck.violation(f'D:{rname}: aiming at listed match j by cursor differs from aiming by index j',
                                 {'program': f.format(), 'where': j, 'by_index': a.format(), 'by_cursor': b if isinstance(b, str) else b.format()})

        # ---- a later expression-sited rewrite on the copies a repeated pattern variable made
        for rname, rule in rules[:2]:
            doubled = attempt(lambda: rule.apply(f), {'program': f.format(), 'rule': rname}, rname)
            if isinstance(doubled, str):
                continue
            for lname, later in (('inline', None), ('neg', rules[2][1])):
                if later is None:
                    listed = attempt(lambda: S.sites(S.inline, doubled), {'program': doubled.format()}, 'sites(inline)')
                else:
                    listed = find_all(later.lhs, doubled)
                if isinstance(listed, str):
                    continue
                k = len(listed)
                for j, cur in enumerate(listed):
                    ck.evaluations += 1
                    rep = {'program': doubled.format(), 'after': rname, 'then': lname, 'where': j, 'listed': [str(c).split(' at')[0] for c in listed]}
                    for how, aim in (('index', j), ('cursor', cur)):
                        if later is None:
                            once = attempt(lambda: S.inline(doubled, aim), rep, 'inline')
                            left = None if isinstance(once, str) else len(S.sites(S.inline, once))
                        else:
                            once = attempt(lambda: later.apply(doubled, aim), rep, lname)
                            left = None if isinstance(once, str) else len(find_all(later.lhs, once)) if find_all(later.lhs, once) is not None else 0
                        if isinstance(once, str):
                            if once != 'Crash':
                                ck.violation(f'D:{lname} after {rname}: a listed site aimed at by {how} was rejected', dict(rep, outcome=once))
                            continue
                        ck.nontriv(('D2', nm, rname, lname, j, how))
                        if left != k - 1:
                            ck.violation(f'D:{lname} after {rname}: aiming at ONE listed site (by {how}) did not rewrite exactly one',
                                         dict(rep, sites_before=k, sites_left=left, result=once.format()))
                        check_tree(ck, im, once, f'D:{lname} after {rname}', doubled)


def coq_eval(ck, cases, check_fn, case_type, tag, shard=600, block=50, jobs=12, timeout=1200):
    """`check_fn case = true` decided in Coq for every case; returns the failing
    indices.  Like Check.coq_eval_mismatches, but with binary (N) indices (a
    unary `nat` index costs its value to elaborate) and the case list split
    into small definitions (one long list literal is superlinear to elaborate)."""
    from ..common import COQ, sh
    names = []
    for si in range(0, len(cases), shard):
        part = cases[si:si + shard]
        name = f'{tag}_{si // shard:04d}'
        text = [HEADER, 'From Coq Require Import NArith.']
        defs = []
        for bi in range(0, len(part), block):
            d = f'blk{bi // block}'
            defs.append(d)
            body = ';\n'.join(f'({si + bi + j}%N, {c})' for j, c in enumerate(part[bi:bi + block]))
            text.append(f'Definition {d} : list (N * {case_type}) := [\n{body}\n].')
        text.append('Definition bad := map fst (filter (fun ic => negb (' + check_fn + ' (snd ic))) (' + ' ++ '.join(defs) + ')).')
        text.append('Eval vm_compute in bad.')
        (ck.dir / f'{name}.v').write_text('\n'.join(text) + '\n')
        names.append(name)
    if not names:
        return [], None
    cmd = (f"xargs -P{jobs} -I{{}} sh -c 'timeout {timeout} coqc -Q {COQ} FpyV -Q . Dyn {{}}.v > {{}}.out 2>&1 || echo FAIL >> {{}}.out'")
    sh(cmd, cwd=ck.dir, input='\n'.join(names), timeout=timeout * (len(names) // jobs + 1) + 60)
    bad, err = [], None
    for name in names:
        out = (ck.dir / f'{name}.out').read_text()
        m = re.search(r'=\s*\[(.*?)\]\s*:\s*list N', out, re.S)
        if 'FAIL' in out or not m:
            err = (err or '') + f'{name}: {out[-500:]}\n'
            continue
        body = m.group(1).strip()
        if body:
            bad += [int(x.replace('%N', '').strip()) for x in body.split(';')]
    ck.checker_cmds.append(f'coqc -Q coq FpyV build/{ck.pid}/{tag}_*.v  # {check_fn} on {len(cases)} cases')
    return sorted(bad), err


def run(ck):
    thorough = ck.tier == 'thorough'
    ck.trusted += [
        'Coq 8.16.1 kernel (coqc); vm_compute for evaluating the model on correspondence cases; no native_compute',
        'hand-written Gallina model of transform/path.py, cursor.py, function.py (Function.forward), utils.SiteRewriter (coq/Cursor/*.v), '
        'tied to /repo by differential execution on every run (harness/props/c19.py + coq/Cases/C19Cases.v)',
        'statements are abstracted to a label (first integer of the header line for generated trees; interned header text for real programs) '
        'plus the blocks they hold; expression paths are opaque (ExprCursor validation against the result is not modelled)',
        'the harness twin of `apply` only writes the produced program text; agreement of what fpy2 parsed with the model `apply` is decided in Coq',
    ]
    ck.assumptions += ['model of cursor forwarding / site walk is hand-written; tie to /repo is the correspondence run below',
                       'per-strategy site listing is covered by the generic SiteRewriter model plus exhaustive (program, strategy, index) runs, not by a per-strategy proof']
    ok, _ = ck.build_static(['Props/C19.v', 'Cases/C19Cases.v'])
    if ok:
        names = re.findall(r'Print Assumptions\s+([A-Za-z0-9_]+)', (__import__('harness.common', fromlist=['COQ']).COQ / 'Props' / 'C19.v').read_text())
        ck.props('Props/C19.v', closed=tuple(names))

    im = Impl(ck)
    rng = Rng(ck.seed, 'c19')
    cases = []
    import os
    parts = os.environ.get('C19_PARTS', 'ABCD')
    if 'A' in parts:
        part_a(ck, im, rng, cases, 400 if thorough else 90)
    if 'D' in parts:
        part_d(ck, im, Rng(ck.seed, 'c19-d'), cases, 40 if thorough else 10)
    if 'B' in parts or 'C' in parts:
        part_bc(ck, im, Rng(ck.seed, 'c19-bc'), cases, 60 if thorough else 14, 400 if thorough else 80)

    ck.rule = ('non-trivial = distinct (tree, log) whose forwarding moved or replaced a cursor, malformed logs by verdict, '
               'chain cursors that reach the final program, (program, strategy, index) triples that rewrote a site')
    for t, d, _ in cases[:2] + cases[len(cases) // 2:len(cases) // 2 + 2]:
        ck.sample(t[:600])
    ck.log(f'{len(cases)} model cases')
    bad, err = coq_eval(ck, [c[0] for c in cases], 'check19', 'case19', 'cases')
    if err:
        ck.broken.append('correspondence evaluation failed: ' + err[:500])
    for i in bad:
        term, desc, key = cases[i]
        ck.violation(f'implementation and model disagree on {desc.splitlines()[0]}',
                     {'what': desc, 'case': term, 'note': 'Coq term of type case19: inputs and what fpy2 returned; check19 (model) disagrees'}, key=key)
