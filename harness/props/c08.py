"""C08 — loop and iterator restructuring preserves results.

Proof: coq/Lang/Transforms/*.v (models, definitions only) + *Proofs.v; statements in
coq/Props/C08.v.  Tie (B): generated loop programs are written as real source files
and decorated by fpy2; the REAL strategies (unroll_while, unroll_for, split, elim_iter,
fuse; loop chosen by index, by cursor, or all) are applied; the function they return is
exported and compared in Coq with the output of the Gallina model of the transform
(equality up to a bijective renaming that fixes the user's names); original and
transformed functions are executed on fpy2 on list lengths 0,1,k-1,k,k+1,2k,2k+1 and
random ones, and Coq decides (i) the property instance (same value whenever the original
returns), (ii) agreement of the Gallina evaluator on the original / on the model's
output with fpy2.
"""
import os
import re
import signal
import time

from ..common import Rng, cz
from .. import lang
from ..lang import COQ_HEADER, clist, cval_of_py, py_of_arg, res_of_call
from ..c08gen import LoopGen, corpus

MANIFEST = {
    'text': 'Gallina models of while/for unrolling, loop splitting, zip/enumerate elimination and any/all fusion exactly as '
            'coded (emitted schema, site selection by index / cursor / all, PEEL and STRICT, static-size specialisations with '
            'the array-size analysis as an oracle, fresh temporaries). PROVED for every number instance: while_unroll_sound at '
            'full strength (every k, every selection, early returns, nested loops, calls); for_unroll_peel_sound_partial (every '
            'unroll factor, every list length by induction, INTEGER index arithmetic exact under any ambient context, reads '
            'adjacent to each body copy, in-place mutation of the iterated list, early returns; for the first top-level loop of a '
            'function in the allocation-free call-free fragment) and the block-level simulations peel_block_sim and strict_block_sim '
            '(STRICT when the length is divisible); the fresh-name lemma. REFUTED on the faithful model (genuine defects, known findings): zip/enumerate elimination with a body that '
            'writes a source list; any/all fusion out of a while condition, out of a short-circuit operand, with a target that '
            'names a variable. MODELLED, NOT YET PROVED: for-unroll STRICT at run level / static-size / nested-selected loops / allocating '
            'bodies, split (all variants), the repaired elim_iter and fuse. Tied to /repo on every run: real strategy outputs are '
            'compared structurally with the model outputs and original/transformed functions are executed on fpy2 and on the '
            'Gallina evaluator.',
    'technique': 'machine-checked proof in Coq + structural model/implementation correspondence + differential execution (vm_compute)',
}

HEADER = (COQ_HEADER +
          'From FpyV Require Import Num.Out Lang.Transforms.Common Lang.Transforms.WhileUnroll Lang.Transforms.ForUnroll '
          'Lang.Transforms.SplitLoop Lang.Transforms.IterElim Lang.Transforms.ReduceFusion Lang.Transforms.NumInt Cases.C08Cases.\n')

HEADER += ('Definition vn (s : bool) (e c : Z) : cval := CNum (NF (FFin (RF s e c))).\n'
           'Definition ei (z : Z) : expr := ENum (FFin (RF false 0 z)).\n'
           'Definition en (s : bool) (e c : Z) : expr := ENum (FFin (RF s e c)).\n')

_RX = [
    (re.compile(r'\(CNum \(NF \(FFin \(RF (true|false) (\(-\d+\)%Z|\d+%Z) (\d+%Z)\)\)\)\)'), r'(vn \1 \2 \3)'),
    (re.compile(r'\(ENum \(FFin \(RF false 0%Z (\d+%Z)\)\)\)'), r'(ei \1)'),
    (re.compile(r'\(ENum \(FFin \(RF (true|false) (\(-\d+\)%Z|\d+%Z) (\d+%Z)\)\)\)'), r'(en \1 \2 \3)'),
    (re.compile(re.escape('(CMPFixed (-1)%Z RTZ (Some 0%Z) (SP false false None None) false)')), 'CInteger'),
]


def compress(term):
    """Shorter spellings of the same Coq terms (elaboration time is linear in the text)."""
    for rx, rep in _RX:
        term = rx.sub(rep, term)
    return term


KEY_ITER = 'iter-elim-loop-body-mutates-a-source-list'
KEY_FUSE_WHILE = 'fuse-hoists-reduction-out-of-while-condition'
KEY_FUSE_SC = 'fuse-hoists-reduction-out-of-short-circuit-operand'
KEY_FUSE_TARGET = 'fuse-comprehension-target-clobbers-variable'
KEY_GENSYM = 'gensym-temporary-collides-with-user-name'


class _Timeout(Exception):
    pass


_fired = [False]


def _alarm(signum, frame):
    _fired[0] = True
    raise _Timeout()


def call_with_timeout(thunk, seconds=3):
    """The outcome of thunk() as a Coq `res cval` term; a run cut off by the alarm is RFuel, whatever exception
    the interrupted code turned the interruption into."""
    old = signal.signal(signal.SIGALRM, _alarm)
    _fired[0] = False
    signal.alarm(seconds)
    try:
        out = res_of_call(thunk)
    except _Timeout:
        out = 'RFuel'
    finally:
        signal.alarm(0)
        signal.signal(signal.SIGALRM, old)
    return 'RFuel' if _fired[0] else out


# ---------------------------------------------------------------- Coq terms of configurations
def c_sel(w):
    if w is None:
        return 'SelAll'
    return f'({"SelIdx" if w[0] == "idx" else "SelUnder"} {w[1]}%nat)'


def c_sizes(sizes):
    return clist('None' if s is None else f'(Some {cz(s)})' for s in sizes)


def c_cfg(cfg):
    k = cfg[0]
    if k == 'while':
        return f'(TWhile {c_sel(cfg[1])} {cfg[2]}%nat)'
    if k == 'for':
        return f'(TFor {c_sel(cfg[1])} {cfg[2]}%nat {"true" if cfg[3] else "false"} {c_sizes(cfg[4])})'
    if k == 'split':
        fac = f'(FLit {cz(cfg[2])})' if isinstance(cfg[2], int) else f'(FVar "{cfg[2]}")'
        return f'(TSplit {c_sel(cfg[1])} {fac} {"true" if cfg[3] else "false"} {c_sizes(cfg[4])})'
    if k == 'iter':
        return f'(TIter {"true" if cfg[1] else "false"} {"true" if cfg[2] else "false"})'
    return 'TFuse'


# ---------------------------------------------------------------- walking real ASTs
def for_sizes(fd):
    """static_size of the iterable of every `for` statement, in visit order."""
    from fpy2.ast import fpyast as A
    from fpy2.transform.utils import infer_array_size, static_size
    an = infer_array_size(fd)
    out = []

    def block(b):
        for s in b.stmts:
            if isinstance(s, A.ForStmt):
                out.append(static_size(an, s.iterable))
                block(s.body)
            elif isinstance(s, A.IfStmt):
                block(s.ift)
                block(s.iff)
            elif isinstance(s, (A.If1Stmt, A.WhileStmt, A.ContextStmt)):
                block(s.body)
    block(fd.body)
    return out


def apply_real(fn, cfg):
    """Apply the real strategy; returns the transformed fpy2 Function."""
    import fpy2.strategies as S
    from fpy2.ast import Integer, NamedId, Var
    from fpy2.transform import ForUnroll, ForUnrollStrategy, SplitLoop, SplitLoopStrategy, WhileUnroll
    k = cfg[0]

    def where_of(w, sites):
        if w is None:
            return None
        if w[0] == 'idx':
            return w[1]
        return sites()[w[1]]
    if k == 'while':
        _, w, times = cfg
        wh = where_of(w, lambda: WhileUnroll.sites(fn.ast))
        if times == 0:
            return fn.with_edits(WhileUnroll.apply_with_edits(fn.ast, wh, 0))
        return S.unroll_while(fn, wh, times)
    if k == 'for':
        _, w, times, strict, _ = cfg
        st = ForUnrollStrategy.STRICT if strict else ForUnrollStrategy.PEEL
        wh = where_of(w, lambda: ForUnroll.sites(fn.ast, times=times, strategy=st))
        if times == 0:
            return fn.with_edits(ForUnroll.apply_with_edits(fn.ast, wh, 0, st))
        return S.unroll_for(fn, wh, times, strategy=st)
    if k == 'split':
        _, w, fac, strict, _ = cfg
        st = SplitLoopStrategy.STRICT if strict else SplitLoopStrategy.PEEL
        fe = Integer(fac, None) if isinstance(fac, int) else Var(NamedId(fac), None)
        wh = where_of(w, lambda: SplitLoop.sites(fn.ast, factor=fe, strategy=st))
        return S.split(fn, fac, wh, strategy=st)
    if k == 'iter':
        return S.elim_iter(fn, enable_enumerate=cfg[1], enable_zip=cfg[2])
    return S.fuse(fn)


def n_sites(fn, cfg_kind, times=1, strict=False, fac=2):
    from fpy2.ast import Integer, NamedId, Var
    from fpy2.transform import ForUnroll, ForUnrollStrategy, SplitLoop, SplitLoopStrategy, WhileUnroll
    if cfg_kind == 'while':
        return len(WhileUnroll.sites(fn.ast))
    if cfg_kind == 'for':
        st = ForUnrollStrategy.STRICT if strict else ForUnrollStrategy.PEEL
        return len(ForUnroll.sites(fn.ast, times=times, strategy=st))
    st = SplitLoopStrategy.STRICT if strict else SplitLoopStrategy.PEEL
    fe = Integer(fac, None) if isinstance(fac, int) else Var(NamedId(fac), None)
    return len(SplitLoop.sites(fn.ast, factor=fe, strategy=st))


# ---------------------------------------------------------------- hazard classes (known findings)
def _walk_expr(e, f, hoist, pos):
    """f(node, hoist, pos): hoist = the reduce-fusion visitor reaches this node with a statement slot."""
    if not isinstance(e, lang.Node):
        return
    f(e, hoist, pos)
    k, a = e.k, e.a
    if k in ('any', 'all') and a[0].k == 'comp' and len(a[0].a[0]) == 1 and hoist:
        (p, it), = a[0].a[0]
        _walk_expr(it, f, True, pos)
        _walk_expr(a[0].a[1], f, False, pos)
        return
    if k == 'comp':
        for p, it in a[0]:
            _walk_expr(it, f, False, pos)
        _walk_expr(a[1], f, False, pos)
        return
    if k == 'ife':
        _walk_expr(a[0], f, hoist, pos)
        _walk_expr(a[1], f, False, pos)
        _walk_expr(a[2], f, False, pos)
        return
    if k in ('and', 'or'):
        for j, x in enumerate(a[0]):
            _walk_expr(x, f, hoist, pos if j == 0 else pos + ['sc'])
        return
    for x in a:
        if isinstance(x, lang.Node):
            _walk_expr(x, f, hoist, pos)
        elif isinstance(x, (list, tuple)):
            for y in x:
                if isinstance(y, lang.Node):
                    _walk_expr(y, f, hoist, pos)


def _names(n, acc):
    if isinstance(n, lang.Node):
        if n.k in ('var', 'pvar'):
            acc.append(n.a[0])
        elif n.k == 'iassign':
            acc.append(n.a[0])
        for x in n.a:
            _names(x, acc)
    elif isinstance(n, (list, tuple)):
        for x in n:
            _names(x, acc)


def hazards(func, cfg):
    """Known-finding classes whose side condition this (program, transform) pair violates."""
    keys = set()
    kind = cfg[0]

    def has_write(b):
        found = []

        def g(n):
            if n.k in ('iassign', 'call'):
                found.append(n)
        lang.walk(b, g)
        return bool(found)

    def stmts(b):
        for s in b:
            k, a = s.k, s.a
            if kind == 'iter' and k == 'for':
                it = a[1]
                matched = (it.k == 'zip' and cfg[2]) or (it.k == 'enumerate' and cfg[1] and a[0].k == 'ptuple' and len(a[0].a[0]) == 2)
                if matched and has_write(a[2]):
                    keys.add(KEY_ITER)
            if kind == 'fuse':
                exprs = []
                if k in ('assign', 'assert', 'effect', 'return'):
                    exprs = [(a[-1] if k == 'assign' else a[0], [])]
                elif k == 'iassign':
                    exprs = [(x, []) for x in a[1]] + [(a[2], [])]
                elif k in ('if1', 'if'):
                    exprs = [(a[0], [])]
                elif k == 'while':
                    exprs = [(a[0], ['while'])]
                elif k == 'for':
                    exprs = [(a[1], [])]
                elif k == 'with':
                    exprs = [(a[1], [])]
                for e, pos in exprs:
                    def f(n, hoist, p):
                        if n.k in ('any', 'all') and n.a[0].k == 'comp' and len(n.a[0].a[0]) == 1 and hoist:
                            if 'while' in p:
                                keys.add(KEY_FUSE_WHILE)
                            if 'sc' in p:
                                keys.add(KEY_FUSE_SC)
                            inside, everything = [], []
                            _names(n, inside)
                            _names(func.body, everything)
                            everything += func.params
                            tg = []
                            _names(n.a[0].a[0][0][0], tg)
                            for x in tg:
                                if everything.count(x) > inside.count(x):
                                    keys.add(KEY_FUSE_TARGET)
                    _walk_expr(e, f, True, pos)
            for x in a:
                if isinstance(x, list) and x and isinstance(x[0], lang.Node) and x[0].k in (
                        'assign', 'iassign', 'if1', 'if', 'while', 'for', 'with', 'assert', 'effect', 'return', 'pass'):
                    stmts(x)
    stmts(func.body)
    return keys


# ---------------------------------------------------------------- configurations per family
def configs(rng, fam, fn, thorough):
    out = []
    if fam == 'while':
        ns = n_sites(fn, 'while')
        if ns == 0:
            return out
        for times in ([0, 1, 2, 3, 4] if thorough else rng.sample([0, 1, 2, 3, 4], 3)):
            ws = [None, ('idx', rng.randrange(ns)), ('cur', rng.randrange(ns))]
            out.append(('while', rng.choice(ws), times))
        return out
    if fam == 'for':
        sizes = for_sizes(fn.ast)
        for _ in range(4 if thorough else 2):
            times = rng.choice([0, 1, 1, 2, 2, 3, 4])
            strict = rng.random() < 0.35
            ns = n_sites(fn, 'for', times=times, strict=strict)
            if ns:
                w = rng.choice([None, ('idx', rng.randrange(ns)), ('cur', rng.randrange(ns))])
                out.append(('for', w, times, strict, sizes))
        for _ in range(4 if thorough else 2):
            fac = rng.choice([1, 2, 2, 3, 4, 'kf', 'kf'])
            strict = rng.random() < 0.35
            ns = n_sites(fn, 'split', strict=strict, fac=fac)
            if ns:
                w = rng.choice([None, ('idx', rng.randrange(ns)), ('cur', rng.randrange(ns))])
                out.append(('split', w, fac, strict, sizes))
        return out
    if fam == 'iter':
        return [('iter', True, True)] + ([('iter', True, False), ('iter', False, True)] if thorough or rng.random() < 0.4 else [])
    return [('fuse',)]


def lengths_for(rng, cfg):
    k = 2
    if cfg[0] == 'for':
        k = cfg[2] + 1
    elif cfg[0] == 'split':
        k = cfg[2] if isinstance(cfg[2], int) else rng.choice([2, 3])
    elif cfg[0] == 'while':
        k = cfg[2] + 1
    ls = {0, 1, max(k - 1, 0), k, k + 1, 2 * k, 2 * k + 1, rng.randint(0, 9)}
    return sorted(x for x in ls if x <= 9)


def iter_length(it, n):
    """The run-time length of an iterable of the generated programs when xs, ys have length n (None: not known
    syntactically -- the run is then not counted as an instance of a STRICT precondition)."""
    k, a = it.k, it.a
    if k == 'var':
        return n if a[0] in ('xs', 'ys') else None
    if k == 'list':
        return len(a[0])
    if k == 'range' and len(a[0]) == 1:
        b = a[0][0]
        if b.k == 'len':
            return iter_length(b.a[0], n)
        if b.k == 'num' and b.a[0].kind == 'fin' and b.a[0].q.denominator == 1 and b.a[0].q >= 0:
            return int(b.a[0].q)
        return None
    if k == 'slice' and a[1] is None and a[2] is None:
        return iter_length(a[0], n)
    if k == 'comp' and len(a[0]) == 1:
        return iter_length(a[0][0][1], n)
    if k == 'enumerate':
        return iter_length(a[0], n)
    if k == 'zip':
        ls = [iter_length(x, n) for x in a[0]]
        return ls[0] if ls and all(x is not None and x == ls[0] for x in ls) else None
    return None


def selected_loops(body, cfg, divisor):
    """The iterables of the `for` statements the configuration rewrites (sites are counted in visit order; a loop whose
    statically known length is indivisible is not a site under STRICT -- the same rule as the transforms)."""
    where, strict, sizes = cfg[1], cfg[3], cfg[4]
    out = []
    st = {'raw': 0, 'idx': 0}

    def block(b, inside):
        for s in b:
            k, a = s.k, s.a
            if k == 'for':
                size = sizes[st['raw']] if st['raw'] < len(sizes) else None
                st['raw'] += 1
                refused = (strict and divisor is not None and size is not None and size % divisor != 0
                           and not (cfg[0] == 'for' and cfg[2] == 0))
                ins = inside
                if not refused:
                    idx = st['idx']
                    st['idx'] += 1
                    sel = where is None or (idx == where[1]) or (where[0] == 'cur' and inside)
                    if sel:
                        out.append(a[1])
                    ins = inside or (where is not None and where[0] == 'cur' and idx == where[1])
                block(a[2], ins)
            elif k == 'if':
                block(a[1], inside)
                block(a[2], inside)
            elif k in ('if1', 'while'):
                block(a[1], inside)
            elif k == 'with':
                block(a[2], inside)
    block(body, False)
    return out


def precondition(cfg, n, kfv, body):
    """Does the precondition of the transform hold on this input?  STRICT: the length of EVERY iterable the chosen
    loops iterate over is a multiple of the factor (decided on the iterable itself, not on the argument lists);
    a variable split factor: an integer >= 1."""
    from fractions import Fraction
    if cfg[0] == 'for':
        if not cfg[3] or cfg[2] == 0:
            return True
        k = cfg[2] + 1
        ls = [iter_length(it, n) for it in selected_loops(body, cfg, k)]
        return all(x is not None and x % k == 0 for x in ls)
    if cfg[0] == 'split':
        fac = cfg[2]
        static = isinstance(fac, int)
        if not static:
            q = Fraction(kfv)
            if q.denominator != 1 or q < 1:
                return False
            fac = int(q)
        if not cfg[3]:
            return True
        ls = [iter_length(it, n) for it in selected_loops(body, cfg, fac if static else None)]
        return all(x is not None and x % fac == 0 for x in ls)
    return True


def run(ck):
    import fpy2  # noqa: F401 -- from $FPY_REPO
    thorough = ck.tier == 'thorough'
    ck.trusted += [
        'Coq 8.16.1 kernel (coqc); vm_compute evaluates the transform models and the evaluator on the correspondence cases; no native_compute',
        'hand-written Gallina models of the transforms (coq/Lang/Transforms/{WhileUnroll,ForUnroll,SplitLoop,IterElim,ReduceFusion}.v), tied to /repo by structural comparison with the real outputs on every run, not by translation',
        'the array-size analysis (ArraySizeInfer) is an ORACLE of the for-unroll / split models: its answers are read from the real analysis; its soundness is not part of this property',
        'shared FPyLang evaluator coq/Lang/Sem.v (owned by C04) and the number instance coq/Lang/Transforms/NumInt.v (NumInst.v + MPFixed/INTEGER rounding + fmod)',
        'harness/lang.py exporter (fpy2 AST -> Coq term) and printers, harness/c08gen.py generator',
        'MODELLED, NOT YET PROVED (covered by structural correspondence + differential execution only): unroll_for with STRICT, with a statically known length, with loops nested in other statements / selected by cursor or all, with bodies that allocate lists or call functions; split (constant and variable factor, PEEL and STRICT); the repaired elim_iter and fuse (elim_iter_fixed, reduce_fusion_fixed); elim_iter and fuse as coded are REFUTED',
        'the proved for-unroll theorem assumes exact INTEGER arithmetic of the number instance (int_exact; proved for the instance of the correspondence runs, C08_int_exact_inst)',
    ]
    ck.assumptions += [
        'a variable split factor holds an integer >= 1 at the loop (else the emitted assert fires); STRICT requires a divisible length; '
        'zip over lists of unequal length is outside the property (the original raises)',
        'well-typed programs only',
    ]
    ok, _ = ck.build_static(['Props/C08.v', 'Cases/C08Cases.v'])
    if ok:
        ck.props('Props/C08.v')

    fams = ['while', 'for', 'for', 'iter', 'iter', 'fuse']
    nprog = int(os.environ.get('C08_NPROG', 900 if thorough else 80))
    cases, info = [], []
    rejected = 0
    t0 = time.time()
    fixed = corpus()
    for idx in range(nprog + len(fixed)):
        rng = Rng(ck.seed, f'c08-{idx}')
        if idx < nprog:
            fam = fams[idx % len(fams)]
            g = LoopGen(rng, fam)
            prog = g.program()
        else:
            # the fixed corpus (every seed): the generator object only draws the arguments
            fam, prog = fixed[idx - nprog]
            g = LoopGen(rng, fam)
            g.features.add('corpus')
        modname = f'c08_prog_{idx:05d}'
        try:
            mod = prog.load(ck.dir / 'progs', modname)
            fn = mod.main
            exported = lang.export_funcdef(fn.ast)
        except Exception as e:  # noqa: BLE001
            rejected += 1
            ck.count('generator:rejected')
            if rejected <= 3:
                ck.log(f'program {idx} rejected: {type(e).__name__}: {str(e)[:300]}')
                ck.log(prog.source())
            continue
        if exported.coq() != prog.funcs[0].coq():
            ck.violation('the AST built by the real parser differs from the generated program text',
                         {'program': prog.source(), 'generated': prog.funcs[0].coq(), 'parsed': exported.coq()})
            continue
        for f in g.features:
            ck.count('feature:' + f)
        try:
            cfgs = configs(rng, fam, fn, thorough)
        except Exception as e:  # noqa: BLE001 -- listing the sites runs the real analyses
            ck.count('sites-raised:' + type(e).__name__)
            ck.violation('listing the sites of a strategy raised on a generated program',
                         {'program': prog.source(), 'family': fam, 'error': f'{type(e).__name__}: {e}'})
            continue
        for cfg in cfgs:
            try:
                tf = apply_real(fn, cfg)
                real = lang.export_funcdef(tf.ast)
            except Exception as e:  # noqa: BLE001
                ck.count('transform-raised:' + type(e).__name__)
                ck.violation('a strategy raised on a generated program with a valid configuration',
                             {'program': prog.source(), 'config': repr(cfg), 'error': f'{type(e).__name__}: {e}'})
                continue
            runs, metas = [], []
            for n in lengths_for(rng, cfg):
                args = g.args(n, kf=(rng.choice([1, 2, 3, 2, 0, -1, 1.5, 4]) if cfg[0] == 'split' and not isinstance(cfg[2], int) else None))
                pre = precondition(cfg, n, args[2].q, prog.funcs[0].body)
                o = call_with_timeout(lambda: fn(*[py_of_arg(a) for a in args]))
                t = call_with_timeout(lambda: tf(*[py_of_arg(a) for a in args]))
                cargs = clist(cval_of_py(a) for a in args)
                runs.append(f'({cargs}, None, {"true" if pre else "false"}, {o}, {t})')
                metas.append({'len': n, 'args': [repr(a) for a in args], 'precondition': pre, 'original': o, 'transformed': t})
                ck.evaluations += 2
                ck.count('outcome-original:' + o.split(' ')[0].strip('()'))
                ck.count('outcome-transformed:' + t.split(' ')[0].strip('()'))
                ck.count('len:' + str(n))
            ck.count('config:' + cfg[0])
            if cfg[0] in ('while', 'for', 'split'):
                ck.count('where:' + ('all' if cfg[1] is None else cfg[1][0]))
            case = compress(f'({prog.coq()}, "main", {c_cfg(cfg)}, {real.coq()}, {clist(runs)})')
            cases.append(case)
            info.append((idx, prog, cfg, metas, tf))
            ck.nontriv((idx, repr(cfg[:4])))
    ck.log(f'{len(cases)} cases from {nprog} programs built and run on fpy2 in {time.time() - t0:.1f}s ({rejected} rejected)')
    if rejected > nprog // 20:
        ck.broken.append(f'generator: {rejected} of {nprog} generated programs were rejected by the fpy2 front end')
    for c in cases[:2]:
        ck.sample(c[:1500])
    ck.rule = ('generated loop programs (bodies reassigning outer variables, mutating the iterated list, returning early, nested loops, '
               'zip/enumerate/enumerate(zip) with whole-tuple and discarded slots, comprehension forms, any/all in every statement '
               'position, user names clashing with temporaries, declared low-precision contexts) x real strategy configurations '
               '(unroll counts 0..4, PEEL/STRICT, split factors 1..4 and variable, where = index / cursor / all) x list lengths '
               '0,1,k-1,k,k+1,2k,2k+1,random; non-trivial = distinct (program, configuration) pairs')
    bad, err = ck.coq_eval_mismatches(HEADER, 'case8', cases, 'check8', chunk=max(2, len(cases) // 16 + 1), timeout=1500)
    if err:
        ck.broken.append('correspondence evaluation failed: ' + err[:600])
    struct_bad = 0
    import re
    diag = {}
    if bad:
        # one batch: loading the libraries dominates the cost of a coqc run
        out = ck.coq_eval_raw(HEADER, 'map diag8 [' + ';\n'.join(cases[i] for i in bad[:60]) + ']', name='diag', timeout=1200)
        body = out.split(': list (list bool)')[0]
        groups = re.findall(r'\[([^\[\]]*)\]', body)
        groups = [[x == 'true' for x in re.findall(r'\b(true|false)\b', g)] for g in groups if g.strip()]
        if len(groups) == len(bad[:60]):
            diag = dict(zip(bad[:60], groups))
        else:
            ck.broken.append('diagnosis of the failing cases did not evaluate: ' + out[-300:])
    for i in bad:
        idx, prog, cfg, metas, tf = info[i]
        flags = diag.get(i, [])
        struct_ok = bool(flags) and flags[0]
        collision = len(flags) > 1 and flags[1]
        per_run = [tuple(flags[3 + 3 * j: 6 + 3 * j]) for j in range((len(flags) - 3) // 3)]
        flat = repr(flags)
        hz = hazards(prog.funcs[0], cfg)
        replay = {'program_index': idx, 'program': prog.source(), 'config': repr(cfg), 'transformed': tf.format(),
                  'runs': metas, 'diag [struct_ok, name_collision, matches_as_coded_model, (preserved, model=orig, model=transformed)*]': flat[-1500:]}
        prop_fail = [m for m, pr in zip(metas, per_run) if pr and not pr[0]]
        if not flags:
            prop_fail = [m for m in metas if m['precondition'] and m['original'].startswith('(ROk') and m['original'] != m['transformed']]
        if prop_fail:
            key = KEY_GENSYM if collision else None
            for k in (() if collision else (KEY_ITER, KEY_FUSE_WHILE, KEY_FUSE_SC, KEY_FUSE_TARGET)):
                if k in hz:
                    key = k
                    break
            replay['failing_run'] = prop_fail[0]
            ck.violation('a loop / iterator restructuring changed the result of a function on an input on which the original returns',
                         replay, key=key)
        elif not struct_ok:
            struct_bad += 1
            ck.violation('the function returned by the real strategy differs structurally from the output of the Gallina model of the transform'
                         + (' (a generated temporary has the name of a user variable)' if collision else ''),
                         replay, key=(KEY_GENSYM if collision else None))
        else:
            ck.violation('fpy2 and the Gallina evaluator disagree on a program of the loop-restructuring correspondence',
                         replay)
