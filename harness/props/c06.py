"""C06 — a numeric literal denotes exactly the number written.

Proof: coq/Lang/LiteralProofs.v — the model of utils/fractions.py
(_sci_to_fraction behind the two regular expressions, digits_to_fraction,
Fraction(p, q)) equals the Horner denotation of the spelling for every string
(any digit count), the negative-zero fold; statements in coq/Props/C06.v.

Tie: spellings are generated, written as one-line `@fp.fpy` functions
`return <literal>` into real files under build/C06/, evaluated by fpy2 under
fp.REAL (and, through fp.round, under narrow contexts), and compared inside
Coq both with the model of the code and with the denotation of the SAME string.
"""
import importlib.util
import re
import sys
from fractions import Fraction

from ..common import COQ, Rng, sh

MANIFEST = {
    'text': 'Coq proof that the model of the literal pipeline (regex groups -> _sci_to_fraction, hexnum/decnum_to_fraction, '
            'digits_to_fraction, rational, the negative-zero fold of the parser) returns exactly the number the spelling denotes '
            '(Horner denotation over the character list, unbounded digit counts); the parser path through Python\'s float '
            'is refuted by witness and recorded.  Tied to /repo by evaluating generated one-line functions `return <literal>` '
            'under fp.REAL and narrow contexts and comparing with the Coq denotation of the same spelling.',
    'technique': 'machine-checked proof in Coq + model/implementation/denotation correspondence by vm_compute on generated spellings',
}

HEADER = ('From Coq Require Import ZArith List Bool Ascii String QArith.\n'
          'From FpyV Require Import Lang.Literal Cases.C06Cases.\n'
          'Import ListNotations.\nOpen Scope Z_scope.\nOpen Scope string_scope.\n')

KEY_FLOAT = 'parser-float-literal-through-double'
KEY_HEX = 'hexnum-empty-integer-part'
KEY_NEGNEG = 'neg-of-negative-zero-literal'


def z(n):
    n = int(n)
    return f'({n})' if n < 0 else str(n)


def cstr(s):
    assert all(32 <= ord(c) < 127 or c in '\t\n' for c in s), s
    return '"' + s.replace('"', '""') + '"'


# ---------------------------------------------------------------- literal terms
class Lit:
    """A literal: its Python source text, its Coq term, and what kind it is."""
    def __init__(self, src, term, kind, exact=None):
        self.src, self.term, self.kind, self.exact = src, term, kind, exact


def lit_int(sp):
    return Lit(sp, f'(LInt {cstr(sp)} {z(int(sp.replace("_", ""), 0))})', 'int')


def lit_float(sp):
    v = float(sp.replace('_', ''))
    if v != v or v in (float('inf'), float('-inf')):
        py = 'pyinf'
    else:
        n, d = v.as_integer_ratio()
        py = f'(pyf {z(n)} {z(d)} {cstr(repr(v))})'
    return Lit(sp, f'(LFloat {cstr(sp)} {py})', 'float')


def lit_hex(s):
    return Lit(f'fp.hexfloat({s!r})', f'(LHex {cstr(s)})', 'hex')


def lit_rat(p, q):
    return Lit(f'fp.rational({p}, {q})', f'(LRational {z(p)} {z(q)})', 'rational')


def lit_digits(m, e, b):
    return Lit(f'fp.digits({m}, {e}, {b})', f'(LDigits {z(m)} {z(e)} {z(b)})', 'digits')


def lit_neg(a, paren=False):
    return Lit(f'-({a.src})' if paren else f'- {a.src}', f'(LNeg {a.term})', 'neg:' + a.kind)


def lit_pos(a):
    return Lit(f'+{a.src}', f'(LPos {a.term})', 'pos:' + a.kind)


def digits(rng, n, first_nonzero=False):
    s = ''.join(rng.choice('0123456789') for _ in range(n))
    if first_nonzero and s[0] == '0':
        s = rng.choice('123456789') + s[1:]
    return s


def underscored(rng, s):
    pos = [i for i in range(1, len(s)) if s[i - 1].isdigit() and s[i].isdigit()]
    if not pos or rng.random() < 0.7:
        return s
    i = rng.choice(pos)
    return s[:i] + '_' + s[i:]


def gen_literals(rng, thorough):
    out = []
    nrep = 3 if thorough else 1
    # integers
    for sp in ['0', '00', '1', '7', '10', '9007199254740993', '18446744073709551616', '0x1F', '0Xff', '0o17', '0b1011', '1_000_000',
               '0x_ff', '123456789012345678901234567890123456789012345678901234567890']:
        out.append(lit_int(sp))
    for n in list(range(1, 61, 3 if not thorough else 1)) * nrep:
        out.append(lit_int(underscored(rng, digits(rng, n, True))))
    for _ in range(6 * nrep):
        out.append(lit_int('0x' + ''.join(rng.choice('0123456789abcdefABCDEF') for _ in range(rng.randint(1, 30)))))
    # floats: fixed corner list
    for sp in ['0.0', '0.1', '0.5', '1.0', '1.5', '3.14', '1e-6', '1e23', '1E23', '1e22', '9007199254740993.0', '9007199254740992.0',
               '0.1000000000000000055511151231257827021181583404541015625', '0.1000000000000000055511151231257827021181583404541015625001',
               '1e400', '1e-400', '1.7976931348623157e308', '1.7976931348623159e308', '4.9e-324', '2.4703282292062328e-324',
               '5.', '.5', '5.e3', '.5e-3', '00.5', '000.000', '0e0', '0.0e10', '1_0.5_0e1_0', '100000000000000000000000.0',
               '123456789.123456789123456789', '0.30000000000000004', '0.3', '2.5e-5', '1e5', '1.0e+5', '12345678901234567890.0',
               '0.000000000000000000000000000001', '999999999999999999999.9']:
        out.append(lit_float(sp))
    # floats: generated (digit counts 1..60, exponents to +-400, leading / trailing zeros)
    for n in list(range(1, 61, 4 if not thorough else 1)) * nrep:
        ni = rng.randint(0, n)
        ip, fp_ = digits(rng, ni) if ni else '', digits(rng, n - ni) if n - ni else ''
        if rng.random() < 0.3:
            fp_ = fp_ + '0' * rng.randint(1, 5)
        if rng.random() < 0.3 and ip:
            ip = '0' * rng.randint(1, 3) + ip
        mant = (ip or '') + '.' + fp_ if (fp_ or rng.random() < 0.5) else ip
        if mant == '.':
            mant = '0.'
        if '.' not in mant:
            mant += '.0' if rng.random() < 0.5 else 'e0'
        ex = ''
        r = rng.random()
        if mant.endswith('e0'):
            r = 1.0            # already carries an exponent: do not append a second one
        if r < 0.5:
            ex = rng.choice('eE') + rng.choice(['', '+', '-']) + str(rng.choice([0, 1, 5, 17, 22, 23, 60, 308, 309, 324, 400]))
        elif r < 0.6:
            ex = 'e' + rng.choice(['', '-']) + '0' + str(rng.randint(0, 40))
        out.append(lit_float(underscored(rng, mant) + ex))
    for k in (16, 17, 18, 22, 23, 24, 30) + ((40, 100, 308, 309) if thorough else (100, 309)):
        out.append(lit_float(f'1e{k}'))
        out.append(lit_float(f'{rng.randint(1, 9)}.{digits(rng, 3)}e{k}'))
    # integers above 2^53 written as floats
    for _ in range(8 * nrep):
        v = (1 << 53) + rng.randint(1, 1 << 20) * 2 + 1
        out.append(lit_float(f'{v}.0'))
    # hex strings
    for s in ['0x1.8p3', '0x.8p1', '-0x.8p1', '0x.fp0', '0xffp-4', '-0x0p0', '0x0.0p5', '0x1p+10', '0x1.fffffffffffffp1023', '0x1p-1074', '0x1', '0xabc.def',
              ' 0x1p3 ', '0x1.e', '0x1.ep1', '+0x1.8p-3', '0x0123456789abcdef0123456789abcdef.fedcba9876543210p-200',
              '-0x1p-1080', '0x1p-1100', '-0x1.8p-1075', '0x1p+1030', '-0x1.8p2000', '0x0.0000001p-1070', '-0x0.00p-2000', '0x1p1024',
              '-0x1.fffffffffffff8p1023', '0x3p-1076',
              '0X1p3', '0x1P3', '1.8p3', '0x', '0x1p', '0x1.p3', '0x-1p3', 'abc', '', '0x1p3.5', '0x 1', '0xg', '-+0x1', '0x1p--3', '0x1e5', '0x.p1']:
        out.append(lit_hex(s))
    for _ in range(10 * nrep):
        ip = ''.join(rng.choice('0123456789abcdef') for _ in range(rng.randint(0, 20)))
        fp_ = ''.join(rng.choice('0123456789abcdef') for _ in range(rng.randint(0 if ip else 1, 20)))
        s = rng.choice(['', '', '-', '+']) + '0x' + ip + ('.' + fp_ if fp_ else '') + (rng.choice(['', 'p' + rng.choice(['', '+', '-']) + str(rng.randint(0, 400))]))
        out.append(lit_hex(s))
    for _ in range(4 * nrep):     # far outside the binary64 range
        s = rng.choice(['', '-']) + '0x' + rng.choice(['1', '1.8', '0.01', 'f.ff']) + 'p' + rng.choice(['+', '-']) + str(rng.randint(1000, 3000))
        out.append(lit_hex(s))
    # rational / digits
    for p, q in [(1, 3), (-1, 3), (1, -3), (0, 5), (0, -5), (6, 4), (1, 0), (0, 0), (10 ** 30 + 1, 10 ** 29), (-7, 7)]:
        out.append(lit_rat(p, q))
    for _ in range(8 * nrep):
        out.append(lit_rat(rng.randint(-10 ** rng.randint(1, 25), 10 ** rng.randint(1, 25)), rng.choice([1, -1]) * rng.randint(1, 10 ** rng.randint(1, 25))))
    for m, e, b in [(3, -2, 10), (1, 3, 2), (0, 5, 2), (0, -5, 3), (-3, -3, -2), (5, 0, 0), (5, 2, 0), (5, -1, 0), (7, -400, 10), (7, 400, 10),
                    (1, 1023, 2), (1, -1074, 2), (255, -2, 16), (-1, 0, 7), (12, 3, 1), (12, -3, -1)]:
        out.append(lit_digits(m, e, b))
    for _ in range(8 * nrep):
        out.append(lit_digits(rng.randint(-10 ** 12, 10 ** 12), rng.randint(-60, 60), rng.choice([2, 3, 10, 16, 7, -10])))
    # negation and unary plus
    zero_i, zero_f = lit_int('0'), lit_float('0.0')
    negs = [lit_neg(zero_i), lit_neg(zero_f), lit_neg(zero_f, True), lit_neg(lit_neg(zero_f)), lit_neg(lit_neg(zero_i)),
            lit_neg(lit_neg(lit_neg(zero_f))), lit_neg(lit_float('0e5')), lit_neg(lit_float('0.000')), lit_neg(lit_int('0x0')),
            lit_neg(lit_int('5')), lit_neg(lit_float('0.5')), lit_neg(lit_neg(lit_float('0.5'))), lit_neg(lit_neg(lit_int('5'))),
            lit_pos(lit_float('0.5')), lit_pos(zero_f), lit_neg(lit_pos(zero_f)), lit_pos(lit_neg(zero_f)),
            lit_neg(lit_hex('0x0p0')), lit_neg(lit_hex('-0x0p0')), lit_neg(lit_rat(0, 5)), lit_neg(lit_digits(0, 3, 2)),
            lit_neg(lit_rat(1, 3)), lit_neg(lit_hex('0x1.8p3')), lit_neg(lit_float('1e23')), lit_neg(lit_float('1e-400')),
            lit_neg(lit_float('4.9e-324')), lit_neg(lit_int('9007199254740993'))]
    out += negs
    return out


DEC_STRINGS = ['0.1', '-12.50e-3', '1e23', '.5', '5.', '-0.0', '-0', '+0.0', ' 1.5 ', '1e', 'e5', 'abc', '1.2.3', '+7', '--1', '1e+5', '1e-05',
               '1E5', '1_0', '', ' ', '.', '-.', '-.5e-3', '00012.3400', 'inf', 'nan', '1e5.0', '0x10', '12e', '1 2', '\t-0.000e7\n', '- 1',
               '1.5e+', '٣', '1e400', '123456789012345678901234567890.123456789012345678901234567890e-31']


def gen_strings(rng, thorough):
    ds = [s for s in DEC_STRINGS if all(ord(c) < 128 for c in s)]
    for _ in range(60 if thorough else 25):
        s = rng.choice(['', '', '-', '+']) + digits(rng, rng.randint(0, 25))
        if rng.random() < 0.6:
            s += '.' + digits(rng, rng.randint(0, 25))
        if rng.random() < 0.5:
            s += 'e' + rng.choice(['', '+', '-']) + (str(rng.randint(0, 400)) if rng.random() < 0.9 else '')
        if rng.random() < 0.15:
            i = rng.randint(0, len(s))
            s = s[:i] + rng.choice(['x', '.', ' ', 'e', '-', '_']) + s[i:]
        ds.append(s)
    return ds


# ---------------------------------------------------------------- running the implementation
def to_lval(v):
    from fpy2.number import Float, RealFloat
    if isinstance(v, Fraction):
        return f'(lq {z(v.numerator)} {z(v.denominator)})', v
    if isinstance(v, (Float, RealFloat)):
        if isinstance(v, Float) and v.is_nar():
            return 'er', None
        if v.c == 0:
            return ('nz' if v.s else '(lq 0 1)'), Fraction(0)
        q = v.as_rational()
        return f'(lq {z(q.numerator)} {z(q.denominator)})', q
    if isinstance(v, int) and not isinstance(v, bool):
        return f'(lq {z(v)} 1)', Fraction(v)
    return 'er', None


def write_module(ck, name, lits, wrap=None):
    """One real source file with a try-wrapped @fp.fpy function per literal."""
    lines = ['import fpy2 as fp', 'ERR = {}', '']
    for i, l in enumerate(lits):
        body = l.src if wrap is None else wrap.format(l.src)
        lines += ['try:', '    @fp.fpy', f'    def f{i}():', f'        return {body}', 'except Exception as e:', f'    ERR[{i}] = e', '']
    path = ck.dir / f'{name}.py'
    path.write_text('\n'.join(lines))
    spec = importlib.util.spec_from_file_location(name, path)
    mod = importlib.util.module_from_spec(spec)
    sys.modules[name] = mod          # the decorator needs the module registered and a real file (inspect)
    spec.loader.exec_module(mod)
    return mod


def coq_eval2(ck, header, cases, fxt, tag='lit', shards=16, timeout=900):
    """Evaluates check06 and prop06 on every case.  Returns (model mismatches, spec mismatches, error)."""
    if not cases:
        return [], [], None
    per = max(1, (len(cases) + shards - 1) // shards)
    names = []
    for gi in range(0, len(cases), per):
        name = f'{tag}_{gi // per:03d}'
        body = ';\n'.join(f'({gi + j}, {c})' for j, c in enumerate(cases[gi:gi + per]))
        text = (header + f'\nDefinition cases : list (Z * (case06 * option lval)) := [\n{body}\n].\n'
                f'Definition bad1 := map fst (filter (fun ic => negb (check06 {fxt} (snd ic))) cases).\n'
                f'Definition bad2 := map fst (filter (fun ic => negb (prop06 {fxt} (snd ic))) cases).\n'
                'Eval vm_compute in (bad1, bad2).\n')
        (ck.dir / f'{name}.v').write_text(text)
        names.append(name)
    cmd = (f"xargs -P16 -I{{}} sh -c 'timeout {timeout} coqc -noglob -Q {COQ} FpyV -Q . Dyn {{}}.v > {{}}.out 2>&1 || echo FAIL >> {{}}.out'")
    sh(cmd, cwd=ck.dir, input='\n'.join(names), timeout=timeout * 2)
    b1, b2, err = [], [], None
    for name in names:
        out = (ck.dir / f'{name}.out').read_text()
        m = re.search(r'=\s*\(\s*\[(.*?)\]\s*,\s*\[(.*?)\]\s*\)\s*:', out, re.S)
        if 'FAIL' in out or not m:
            err = (err or '') + f'{name}: {out[-400:]}\n'
            continue
        for grp, dst in ((m.group(1), b1), (m.group(2), b2)):
            if grp.strip():
                dst += [int(x.strip().strip('()')) for x in grp.split(';')]
    return sorted(b1), sorted(b2), err


def probe_fixes(ck):
    import fpy2 as fp
    from fpy2.ast.fpyast import Hexnum
    mod = write_module(ck, 'c06_probe', [lit_float('1e23'), lit_neg(lit_neg(lit_float('0.0')))])
    try:
        fx_float = to_lval(mod.f0(ctx=fp.REAL))[1] == Fraction(10) ** 23
    except Exception:  # noqa
        fx_float = False
    try:
        fx_negneg = to_lval(mod.f1(ctx=fp.REAL))[0] == '(lq 0 1)'
    except Exception:  # noqa
        fx_negneg = False
    try:
        fx_hex = Hexnum(None, '0x.8p1', None).as_rational() == 1
    except Exception:  # noqa
        fx_hex = False
    return fx_float, fx_hex, fx_negneg


def run(ck):
    import fpy2 as fp
    from fpy2.ast.fpyast import Decnum, Hexnum
    thorough = ck.tier == 'thorough'
    ck.trusted += [
        'Coq 8.16.1 kernel (coqc); vm_compute for evaluating denotation and model on the generated spellings; QArith rationals',
        'coq/Lang/Literal.v part A (sci_denote etc.): the Horner denotation of a spelling, the specification',
        'coq/Lang/Literal.v part B: hand-written model of utils/fractions.py (the two regular expressions as a greedy group matcher), '
        'fpyast as_rational/as_real and Parser._parse_constant/_parse_unaryop, tied by differential execution on every generated spelling',
        'CPython: the lexer/ast of source files, int(), float(), repr(float) (given to the model as data for the as-coded parser path), Fraction',
        'for the narrow contexts: fpy2\'s own ctx.round of the exact value is the reference (rounding itself is property C01); for binary64 RNE also float(Fraction)',
    ]
    ck.assumptions += [
        'the model of the literal pipeline is hand-written; its tie to /repo is the correspondence run below',
        'literals are exact under every context (documented: "nothing rounds until arithmetic uses the value"); "rounded once" is observed through fp.round(<literal>)',
    ]
    ok, _ = ck.build_static(['Props/C06.v', 'Cases/C06Cases.v'])
    if ok:
        ck.props('Props/C06.v')

    rng = Rng(ck.seed, 'c06')
    fx = probe_fixes(ck)
    fxt = '(LFX ' + ' '.join('true' if v else 'false' for v in fx) + ')'
    ck.extra['defects_present'] = {'parser_float_through_double': not fx[0], 'hexnum_empty_integer_part': not fx[1], 'neg_of_negative_zero': not fx[2]}
    lits = gen_literals(rng, thorough)
    strs = gen_strings(rng, thorough)
    ck.log(f'{len(lits)} literals, {len(strs)} decimal strings; fixes present in implementation: {fx}')

    # ---- every literal under the real context
    mod = write_module(ck, 'c06_lits', lits)
    cases, meta, exact = [], [], {}
    for i, l in enumerate(lits):
        ck.evaluations += 1
        ck.count('REAL:' + l.kind.split(':')[0])
        ck.nontriv(('lit', l.src))
        if i in mod.ERR:
            obs, val = 'er', None
        else:
            try:
                obs, val = to_lval(getattr(mod, f'f{i}')(ctx=fp.REAL))
            except Exception:  # noqa
                obs, val = 'er', None
        exact[i] = val
        cases.append(f'(CLit {l.term}, {obs})')
        meta.append(('literal', l))
    hexs = [l for l in lits if l.kind == 'hex']
    for s in strs:
        ck.evaluations += 1
        ck.count('Decnum.as_real(string)')
        ck.nontriv(('dec', s))
        try:
            obs = to_lval(Decnum(s, None).as_real())[0]
        except Exception:  # noqa
            obs = 'er'
        cases.append(f'(CDecStr {cstr(s)}, {obs})')
        meta.append(('decnum string', s))
    for l in hexs:
        s = eval(l.src[len('fp.hexfloat('):-1])
        ck.evaluations += 1
        ck.count('Hexnum.as_real(string)')
        try:
            obs = to_lval(Hexnum(None, s, None).as_real())[0]
        except Exception:  # noqa
            obs = 'er'
        cases.append(f'(CHexStr {cstr(s)}, {obs})')
        meta.append(('hexnum string', s))
    for c in cases[:3] + cases[len(cases) // 2:len(cases) // 2 + 3]:
        ck.sample(c[:300])

    b1, b2, err = coq_eval2(ck, HEADER, cases, fxt)
    if err:
        ck.broken.append('correspondence evaluation failed: ' + err[:500])
    for i in b1:
        kind, l = meta[i]
        ck.violation(f'implementation and model of the code disagree on a {kind}',
                     {'case': cases[i][:1200], 'source': getattr(l, 'src', l),
                      'note': 'second component: what fpy2 returned under fp.REAL (er = exception); the model coq/Lang/Literal.v returns something else'})
    spec_bad = set(b2)
    for i in b2:
        kind, l = meta[i]
        src = getattr(l, 'src', l)
        key = None
        if kind == 'literal':
            k = l.kind
            if 'float' in k and not fx[0]:
                key = KEY_FLOAT
            elif 'hex' in k and not fx[1] and re.search(r'0x\.', src):
                key = KEY_HEX
            if k.startswith('neg:') and re.search(r'-\s*\(?-', src.replace('fp.hexfloat(\'-', 'fp.hexfloat(\'')) and 'float' not in k.replace('neg:', '', 1).split(':')[0]:
                key = KEY_NEGNEG
            if k.startswith('neg:neg') or (k.startswith('neg:hex') and "'-0x0" in src):
                key = KEY_NEGNEG
        elif kind == 'hexnum string' and not fx[1] and re.search(r'0x\.', src):
            key = KEY_HEX
        ck.violation(f'a {kind} does not evaluate to the number its spelling denotes',
                     {'source': src, 'case': cases[i][:1200],
                      'note': 'second component: what fpy2 returned under fp.REAL; the Coq denotation (lit_denote / dec_denote / hex_denote) of the same string differs'},
                     key=key)

    # ---- under other contexts: literals are exact, and fp.round(<literal>) rounds the exact value once
    ctxs = [('FP64', fp.FP64), ('FP32', fp.FP32), ('FP64-RTP', fp.IEEEContext(11, 64, fp.RoundingMode.RTP)),
            ('E4M3', fp.IEEEContext(4, 8)), ('fixed-s-8.8', fp.FixedContext(True, -8, 16, fp.RoundingMode.RTZ, fp.OverflowMode.SATURATE)),
            ('MP-113', fp.MPFloatContext(113))]
    sub = [i for i, l in enumerate(lits) if exact[i] is not None and (thorough or i % 2 == 0 or 'neg' in l.kind)]
    sublits = [lits[i] for i in sub]
    modr = write_module(ck, 'c06_round', sublits, wrap='fp.round({})')
    nctx = 0
    for cname, ctx in ctxs:
        for j, i in enumerate(sub):
            l = lits[i]
            if l.kind.startswith('neg') and exact[i] != 0 and not l.kind.endswith('int'):
                continue      # `-x` of a non-integer is the operation Neg, which rounds: not a literal
            nctx += 2
            # (a) the bare literal does not depend on the context
            try:
                _, val = to_lval(getattr(mod, f'f{i}')(ctx=ctx))
            except Exception as e:  # noqa
                val = e
            if val != exact[i]:
                ck.violation('a literal evaluates differently under a non-real context', {'source': l.src, 'context': cname, 'REAL': str(exact[i]), 'got': repr(val)})
            # (b) rounded once
            if i in spec_bad:
                continue          # already reported: the exact value itself is off
            try:
                got = getattr(modr, f'f{j}')(ctx=ctx)
                ref = ctx.round(exact[i])
                same = (got.is_nar() and ref.is_nar()) or (not got.is_nar() and not ref.is_nar() and got.as_rational() == ref.as_rational())
                if not same:
                    ck.violation('fp.round(<literal>) is not the single rounding of the denoted number', {'source': l.src, 'context': cname, 'got': repr(got), 'expected': repr(ref)})
                elif cname == 'FP64' and not got.is_nar():
                    try:
                        pf = float(exact[i])
                    except OverflowError:
                        pf = None
                    if pf is not None and Fraction(pf) != got.as_rational():
                        ck.violation('fp.round(<literal>) under binary64 differs from the correctly rounded double', {'source': l.src, 'got': repr(got), 'python': repr(pf)})
            except Exception as e:  # noqa
                ck.violation('fp.round(<literal>) raises under a narrow context', {'source': l.src, 'context': cname, 'error': repr(e)})
    ck.evaluations += nctx
    ck.count('narrow-context checks', nctx)
    ck.rule = ('generated spellings: 1..60 digits, exponents to +-400, leading/trailing zeros, underscores, integers above 2^53 written as floats, '
               'hex mantissas (valid and malformed), rational(p,q), digits(m,e,b), negations of zeros; non-trivial = distinct source texts')
    ck.log(f'{len(cases)} REAL cases, {nctx} narrow-context checks; model mismatches {len(b1)}, denotation mismatches {len(b2)}')
