"""C17 — stochastic rounding picks a neighbour with the exact probability.

Proof: coq/Num/StochProofs.v (decision rule, neighbour, exact count over all
2^k draws for every k, L = Flocq rounding with k extra digits), statements in
coq/Props/C17.v.  Tie: every draw of every small context/operand is executed on
fpy2 with a scripted generator and on the extracted model; the count, the
neighbour set and the number of draws consumed are also checked directly
against an independent rational definition.
"""
import random
from fractions import Fraction

from ..common import Rng
from ..numenc import RM, e_ctx, e_fl, e_float_result, e_opt, e_real_result, e_rf3, mk_ctx
from ..oracle import Oracle, enc

MANIFEST = {
    'text': 'Coq proof, for every k >= 1, mode, operand and position: the stochastic result is a function of (operand, draw), '
            'is one of the two neighbours, a representable operand is unchanged, and exactly L of the 2^k draws round away, '
            'L being the Flocq rounding (per the base mode) of the operand to k extra digits, in units of 2^-k of the gap; '
            'tied to /repo by enumerating all draws of all small contexts with a scripted generator.',
    'technique': 'machine-checked proof in Coq (counting over all 2^k draws, Flocq) + exhaustive draw enumeration against the extracted model + model of the integer core regenerated from the Python source on every run (py2v translator) with bridge lemmas re-proved',
}


class Scripted(random.Random):
    """random.Random whose getrandbits is scripted (accepted by the isinstance test in reals.py)."""
    def __init__(self):
        super().__init__(0)
        self.value = 0
        self.calls = []

    def getrandbits(self, k):
        self.calls.append(k)
        return self.value & ((1 << k) - 1) if k > 0 else 0


def int_round(q: Fraction, rm: str, s: bool) -> int:
    """Independent definition of the 8 modes on a non-negative rational magnitude q of sign s -> integer."""
    fl = q.numerator // q.denominator
    if q == fl:
        return fl
    frac = q - fl
    if rm == 'RNE':
        return fl + 1 if frac > Fraction(1, 2) or (frac == Fraction(1, 2) and fl % 2 == 1) else fl
    if rm == 'RNA':
        return fl + 1 if frac >= Fraction(1, 2) else fl
    if rm == 'RTP':
        return fl if s else fl + 1
    if rm == 'RTN':
        return fl + 1 if s else fl
    if rm == 'RTZ':
        return fl
    if rm == 'RAZ':
        return fl + 1
    if rm == 'RTO':
        return fl if fl % 2 == 1 else fl + 1
    if rm == 'RTE':
        return fl if fl % 2 == 0 else fl + 1
    raise ValueError(rm)


def run(ck):
    # tie A: the model of the integer core is regenerated from the source and the bridge lemmas re-proved
    # (coqc runs in the background while the correspondence streams run)
    from .. import py2v_tie
    tie_join = py2v_tie.start(ck)
    try:
        _run(ck)
    finally:
        tie_join()


def _run(ck):
    from fpy2.number import Float, RealFloat
    from fpy2.number import RM as FRM
    thorough = ck.tier == 'thorough'
    rng = Rng(ck.seed, 'c17')
    ck.trusted += [
        'Coq 8.16.1 kernel; Flocq (FIX format, generic rounding) as the definition of "rounded as the mode says"',
        'extraction (ExtrOcamlBasic only) + OCaml + ocaml/driver.ml; hand-written model coq/Num/RealFloat.v (round_at_stoch) and Ctx.v',
        'scripted random.Random subclass standing in for the generator (the code only calls getrandbits(k))',
        'numpy Generator path (rng.integers) is not exercised',
    ]
    ok, _ = ck.build_static(['Props/C17.v', 'Cases/C17Cases.v'])
    if ok:
        ck.props('Props/C17.v')
    orc = Oracle(ck, 'c17', 'Cases.C17Cases', 'check_line17')
    lines, meta = [], []

    def add(line, kind, m, nontriv=None):
        lines.append(enc(line))
        meta.append((kind, m))
        ck.evaluations += 1
        ck.count(kind)
        if nontriv is not None:
            ck.nontriv(nontriv)

    def attempt(f):
        try:
            return f()
        except Exception as e:  # noqa
            return e

    ks = [1, 2, 3] if not thorough else [1, 2, 3, 4, 5, 6]
    # ---------------------------------------------------------------- RealFloat.round with k random bits: all draws
    shapes = [(None, -1), (None, 1), (2, None), (3, None), (2, -3), (3, -2)]
    for (p, n) in shapes:
        for k in ks + [None]:
            for rm in RM:
                for s in (False, True):
                    for e in (-5, -3):
                        for c in range(1, 48 if not thorough else 130):
                            x = RealFloat(s, e, c)
                            kk = k
                            # number of bits the code will draw
                            if p is None:
                                nn = n
                            else:
                                nn = max(n if n is not None else -10 ** 9, x.e - p)
                            nbits = k if k is not None else max(0, nn + 1 - e)
                            if nbits > 6:
                                continue
                            # independent expectation
                            gap_lsb = nn + 1
                            mag = Fraction(c) * Fraction(2) ** e
                            lower = (mag / Fraction(2) ** gap_lsb).__floor__()
                            pos = mag / Fraction(2) ** gap_lsb - lower          # in [0,1)
                            L = int_round(pos * 2 ** nbits, rm, s) if nbits > 0 else 0
                            away = 0
                            for rb in range(2 ** nbits):
                                g = Scripted()
                                g.value = rb
                                r = attempt(lambda: x.round(p, n, getattr(FRM, rm), kk, rng=g))
                                add([0] + e_rf3(s, e, c) + e_opt(p) + e_opt(n) + [RM.index(rm)] + e_opt(kk) + [rb] + e_real_result(r),
                                    'RealFloat.round(stochastic)', f'x=({s},{e},{c}) p={p} n={n} rm={rm} k={kk} rb={rb}',
                                    ('rs', s, e, c, p, n, rm, kk, rb) if pos != 0 else None)
                                if isinstance(r, BaseException):
                                    ck.violation('stochastic rounding raised', {'x': repr(x), 'p': p, 'n': n, 'rm': rm, 'k': kk, 'rb': rb, 'exc': repr(r)})
                                    continue
                                if len(g.calls) != 1 or g.calls[0] != nbits:
                                    ck.violation('a rounding of a finite non-zero operand did not consume exactly one draw of k bits',
                                                 {'x': repr(x), 'calls': g.calls, 'k': nbits})
                                got = abs(r.as_rational()) / Fraction(2) ** gap_lsb
                                if got == lower + 1 and pos != 0:
                                    away += 1
                                elif got != lower and not (pos == 0 and got == lower):
                                    ck.violation('stochastic rounding returned a value that is not a neighbour',
                                                 {'x': repr(x), 'p': p, 'n': n, 'rm': rm, 'k': kk, 'rb': rb, 'got': str(r.as_rational())})
                            if pos != 0 and away != L:
                                ck.violation('number of draws rounding away from zero differs from the operand position in the gap',
                                             {'x': repr(x), 'p': p, 'n': n, 'rm': rm, 'k': kk, 'bits': nbits, 'away': away, 'expected': L})
    # ---------------------------------------------------------------- contexts with random bits: all draws
    ctxs = []
    for k in ks:
        ctxs += [{'kind': 'mpfloat', 'p': 2, 'k': k}, {'kind': 'mpsfloat', 'p': 2, 'emin': -2, 'k': k},
                 {'kind': 'mpbfloat', 'p': 2, 'emin': -1, 'maxval': (False, 0, 3), 'k': k},
                 {'kind': 'efloat', 'es': 2, 'nbits': 4, 'enable_inf': True, 'nk': 'IEEE_754', 'eoffset': 0, 'k': k},
                 {'kind': 'mpfixed', 'nmin': -2, 'k': k}, {'kind': 'mpbfixed', 'nmin': -1, 'maxval': (False, 0, 5), 'ov': 'SATURATE', 'k': k},
                 {'kind': 'fixed', 'signed': True, 'scale': -1, 'nbits': 3, 'ov': 'WRAP', 'k': k},
                 {'kind': 'smfixed', 'scale': 0, 'nbits': 3, 'ov': 'SATURATE', 'k': k}]
    for d in ctxs:
        for rm in (RM if thorough else ('RNE', 'RTZ', 'RAZ', 'RTP', 'RTO')):
            dd = dict(d, rm=rm)
            g = Scripted()
            try:
                ctx = mk_ctx(dd, rng=g)
            except Exception:  # noqa
                ck.count('ctx-constructor-refused')
                continue
            lsb = -6
            ops = [('fin', s, lsb, c) for s in (False, True) for c in range(0, 400 if not thorough else 700, 1)]
            ops += [('inf', False), ('nan', False), ('fin', True, 0, 0)]
            for op in ops:
                x = Float(s=op[1], exp=op[2], c=op[3]) if op[0] == 'fin' else (Float(isinf=True) if op[0] == 'inf' else Float(isnan=True))
                for rb in range(2 ** d['k']):
                    g.value = rb
                    g.calls = []
                    r = attempt(lambda: ctx.round(x))
                    add([1] + e_ctx(dd) + e_fl(x) + [0] + [rb] + e_float_result(r), 'ctx(stochastic):' + d['kind'],
                        f'{dd} x={op} rb={rb}', ('cs', str(sorted(dd.items())), op, rb) if op[0] == 'fin' and op[3] % 64 else None)
                    finite_nonzero = op[0] == 'fin' and op[3] != 0
                    want = 1 if finite_nonzero else 0
                    if len(g.calls) != want:
                        ck.violation('number of draws consumed by one rounding is wrong',
                                     {'ctx': dd, 'operand': op, 'calls': g.calls, 'expected': want})
    # ---------------------------------------------------------------- arithmetic through the engines under stochastic contexts
    # (round_params must widen the engine precision by the k random bits, else the sticky digit is mistaken for a tie)
    from fpy2 import ops as fops
    from fractions import Fraction as Fr
    OPC = {'add': 0, 'mul': 2, 'div': 3}

    def e_obs(r):
        if isinstance(r, BaseException):
            from ..numenc import e_err
            return e_err(r)
        from ..numenc import e_flags
        return [0] + e_fl(r) + e_flags(r._real._flags)
    opvals = [('fin', s, e, c) for s in (False, True) for e in (-6, -3) for c in (1, 3, 5, 7, 11, 13, 21, 37)]
    for d in ctxs:
        if d['kind'] in ('mpbfixed', 'smfixed') and not thorough:
            continue
        for rm in (RM if thorough else ('RNE', 'RNA', 'RTZ', 'RTO')):
            dd = dict(d, rm=rm)
            g = Scripted()
            try:
                ctx = mk_ctx(dd, rng=g)
            except Exception:  # noqa
                continue
            for name, code in OPC.items():
                for a in opvals[::2]:
                    for b in opvals[1::3]:
                        fa = Float(s=a[1], exp=a[2], c=a[3])
                        fb = Float(s=b[1], exp=b[2], c=b[3])
                        for rb in range(2 ** d['k']):
                            g.value = rb
                            g.calls = []
                            r = attempt(lambda: getattr(fops, name)(fa, fb, ctx=ctx))
                            add([2, code] + e_ctx(dd) + [2] + e_fl(a) + e_fl(b) + [rb] + e_obs(r), 'ops(stochastic):' + name,
                                f'{name}({a},{b}) under {dd} rb={rb}', ('os', name, str(sorted(dd.items())), a, b, rb))
    # ---------------------------------------------------------------- derived contexts keep their generator
    for d in ctxs[:8]:
        g = Scripted()
        try:
            base = mk_ctx(dict(d, rm='RNE'), rng=g)
            derived = [('with_params(rm)', base.with_params(rm=mk_ctx(dict(d, rm='RTZ')).rm), dict(d, rm='RTZ'))]
        except Exception as e:  # noqa
            ck.count('with_params-unsupported')
            continue
        if d['kind'] == 'efloat':
            # the IEEE subclass has its own with_params
            import fpy2 as _fp
            from fpy2.number import RM as _FRM
            try:
                ib = _fp.IEEEContext(d['es'], d['nbits'], _FRM.RNE, num_randbits=d['k'], rng=g)
                derived.append(('IEEEContext.with_params(rm)', ib.with_params(rm=_FRM.RTZ), dict(d, rm='RTZ')))
                derived.append(('IEEEContext.with_params(es,nbits)', ib.with_params(es=d['es'], nbits=d['nbits'] + 1),
                                dict(d, nbits=d['nbits'] + 1, rm='RNE')))
            except Exception:  # noqa
                ck.count('with_params-unsupported')
        for label, ctx, dd in derived:
            for op in [('fin', False, -6, c) for c in (1, 5, 21, 43, 85, 171)]:
                x = Float(s=op[1], exp=op[2], c=op[3])
                for rb in range(2 ** d['k']):
                    g.value = rb
                    g.calls = []
                    r = attempt(lambda: ctx.round(x))
                    add([1] + e_ctx(dd) + e_fl(x) + [0] + [rb] + e_float_result(r), 'ctx(derived by with_params):' + d['kind'],
                        f'{dd} via {label} x={op} rb={rb}', ('cd', str(sorted(dd.items())), op, rb))
                    if len(g.calls) != 1:
                        ck.violation('a context derived with with_params does not draw from the generator it was given',
                                     {'ctx': dd, 'derivation': label, 'operand': op, 'calls': g.calls})
    ck.rule = ('every draw rb < 2^k for every operand c*2^e (c < 48/130) and every context shape/mode, k in %s and k=None (all bits); '
               'non-trivial = distinct (context, operand, draw) with an unrepresentable operand' % ks)
    ck.exhaustive = True
    for i in (7, len(lines) // 2, len(lines) - 3):
        ck.sample({'kind': meta[i][0], 'case': meta[i][1]})
    ck.log(f'{len(lines)} oracle cases')
    bad = orc.run(lines)
    if bad is None:
        return
    for i in bad:
        kind, m = meta[i]
        ck.violation(f'implementation and proved model disagree on {kind}', {'case': m, 'wire': lines[i]})
