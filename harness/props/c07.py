"""C07 -- simplify (ConstFold / CopyPropagate / DeadCodeEliminate) never changes what a program returns.

Proof: coq/Lang/Transforms/Simp*.v (models: SimpDefs, SimpRw, SimpDce; proofs: Simp*Proofs), statements in
coq/Props/C07.v.  The three passes are Gallina functions over the shared FPy language model (coq/Lang):
  * CopyPropagate/SubstVar as coded (`copyprop_as_coded`, refuted) and repaired (`copyprop_fixed`),
  * DeadCodeEliminate over a model of the def-use / purity analyses as coded (`dce_as_coded`, refuted) and
    repaired (`dce_fixed`),
  * ConstFold = facts of PartialEval + `literal_of_value`; its results are validated, not re-computed,
and two VERIFIED VALIDATORS (`vrw_func` for copy propagation / constant folding, `validate_dce`) proved to
imply preservation of `run`.

Tie (every run): generated programs are written as real source files, decorated by fpy2, simplified by the
real `fpy2.strategies.simplify` under several combinations of the enable_* switches; the pipeline is replayed
pass by pass with the real pass classes (the replay must end in the very AST `simplify` returned); every step
(input AST, output AST) is exported to Coq where (a) it is compared structurally with the model's output and
(b) run through the verified validator; and original and simplified functions are executed by fpy2 on >= 6
argument tuples and compared exactly.
"""
import signal
import time
from fractions import Fraction as F

from ..common import Rng
from .. import lang
from ..lang import COQ_HEADER, CtxSpec, Func, N, Node, Program, clist, cval_of_py, py_of_arg, res_of_call

MANIFEST = {
    'text': 'Coq models of CopyPropagate/SubstVar, of DeadCodeEliminate over the def-use and purity analyses, and of '
            'value_to_literal, over the shared FPy language model; preservation of `run` (for every program of the '
            'modelled core, input, caller context and number instance) proved for two verified validators (expression '
            'rewriting under available equalities / checked constant claims; liveness-based dead-code removal), for the '
            'repaired passes re-checked by them, and for any composition / iteration of preserving passes; the passes AS '
            'CODED are refuted by vm_compute on the witnesses of the known defects. Tied to /repo by replaying the real '
            'simplify pipeline pass by pass on generated programs, comparing every step structurally with the models and '
            'validating it in Coq, and by differential execution of original and simplified functions.',
    'technique': 'machine-checked proof in Coq (models + verified translation validators) + structural model/implementation '
                 'correspondence and validation by vm_compute + differential execution',
}

HEADER = (COQ_HEADER + 'From FpyV Require Import Lang.Transforms.SimpDefs Lang.Transforms.SimpRw '
          'Lang.Transforms.SimpDce Cases.C07Cases.\n')

V = lambda x: Node('var', x)        # noqa: E731
PV = lambda x: Node('pvar', x)      # noqa: E731


def lit(q, negzero=False):
    return Node('num', N.fin(q, negzero=negzero))


LITS = [0, 1, 2, 3, 5, -1, -2, F(1, 2), F(3, 8), F(5, 4), F(1, 10), F(3, 10), F(7, 5), F(1, 3), F(-2, 3)]
RMODES = ['RNE', 'RNA', 'RTP', 'RTN', 'RTZ', 'RAZ', 'RTO', 'RTE']
CMPS = ['<', '<=', '>', '>=', '==', '!=']


class _Timeout(BaseException):
    pass


def _alarm(signum, frame):
    raise _Timeout()


def with_timeout(thunk, seconds=10):
    old = signal.signal(signal.SIGALRM, _alarm)
    signal.alarm(seconds)
    try:
        return thunk()
    finally:
        signal.alarm(0)
        signal.signal(signal.SIGALRM, old)


def call_result(thunk, seconds=10):
    try:
        return with_timeout(lambda: res_of_call(thunk), seconds)
    except _Timeout:
        return 'RFuel'


# ---------------------------------------------------------------- generator
class SimpGen:
    """Programs aimed at simplify: copies whose source or target is reassigned afterwards (straight-line, in
    branches, in loops), constants computed under different active contexts and rounding modes, dead and
    partially dead (tuple) assignments with pure / impure right-hand sides, list aliases mutated in place and
    through helpers, literal conditions, early returns."""

    def __init__(self, rng, risky=True):
        self.r = rng
        self.n = 0
        self.ctxconsts = {}
        self.features = set()
        self.helpers = {}
        self.copied = []       # sources of copies made so far (to be reassigned later)
        self.keep = []         # top-level lists the result reads
        self.must_use = []     # variables the result must read (so that the definitions under test are live)
        self.risky = risky

    def fresh(self, base):
        self.n += 1
        return f'{base}{self.n}'

    def small_ctx(self):
        r = self.r
        rm = r.choice(RMODES) if r.random() < 0.7 else 'RNE'
        k = r.random()
        if k < 0.55:
            return CtxSpec('MPFloat', p=r.randint(2, 6), rm=rm)
        if k < 0.8:
            return CtxSpec('MPSFloat', p=r.randint(2, 5), emin=r.randint(-4, 1), rm=rm)
        es = r.randint(2, 4)
        return CtxSpec('IEEE', es=es, nbits=es + r.randint(2, 5), rm=rm, ov='OVERFLOW')

    def ctx_const(self):
        spec = self.small_ctx()
        for name, s in self.ctxconsts.items():
            if s.key() == spec.key():
                return Node('ctxval', name, s)
        name = f'CTX{len(self.ctxconsts)}'
        self.ctxconsts[name] = spec
        return Node('ctxval', name, spec)

    def vars_of(self, scope, pred):
        return [x for x, t in scope.items() if pred(t)]

    # ---- helpers (callees)
    def helper(self, kind):
        if kind in self.helpers:
            return self.helpers[kind]
        if kind == 'pure':
            ctx = self.small_ctx() if self.r.random() < 0.4 else None
            f = Func('h_pure', ['u', 'v'], ctx,
                     [Node('assign', PV('w'), Node('op2', 'mul', V('u'), V('v'))),
                      Node('return', Node('op2', 'add', V('w'), lit(1)))])
        elif kind == 'local':
            f = Func('h_local', ['u'], None,
                     [Node('assign', PV('ws'), Node('list', [V('u'), V('u')])),
                      Node('iassign', 'ws', [lit(0)], lit(1)),
                      Node('return', Node('op2', 'add', Node('ref', V('ws'), lit(0)), Node('ref', V('ws'), lit(1))))])
        elif kind == 'mut':
            f = Func('h_mut', ['zs', 'v'], None,
                     [Node('iassign', 'zs', [lit(0)], V('v')), Node('return', V('v'))])
        elif kind == 'alias':
            f = Func('h_alias', ['zs', 'v'], None,
                     [Node('assign', PV('ws'), V('zs')), Node('iassign', 'ws', [lit(1)], V('v')),
                      Node('return', V('v'))])
        else:
            raise KeyError(kind)
        self.helpers[kind] = f
        return f

    # ---- expressions
    def leaf_R(self, scope):
        vs = self.vars_of(scope, lambda t: t == 'R')
        if vs and self.r.random() < 0.7:
            return V(self.r.choice(vs))
        return lit(self.r.choice(LITS))

    def const_R(self, d=2):
        """A closed constant expression (folded by ConstFold when the context is known)."""
        r = self.r
        if d <= 0 or r.random() < 0.3:
            if r.random() < 0.08:
                return lit(0, negzero=True)
            return lit(r.choice(LITS))
        c = r.random()
        if c < 0.7:
            return Node('op2', r.choice(['add', 'sub', 'mul', 'div']), self.const_R(d - 1), self.const_R(d - 1))
        if c < 0.8:
            a = self.const_R(d - 1)
            return Node('op1', 'fabs' if a.k == 'num' else r.choice(['neg', 'fabs']), a)
        if c < 0.9:
            return Node('op3', 'fma', self.const_R(d - 1), self.const_R(d - 1), self.const_R(d - 1))
        return Node(r.choice(['min', 'max']), [self.const_R(d - 1), self.const_R(d - 1)])

    def expr_R(self, scope, d):
        r = self.r
        if d <= 0 or r.random() < 0.25:
            return self.leaf_R(scope)
        c = r.random()
        if c < 0.45:
            return Node('op2', r.choice(['add', 'sub', 'mul', 'div']), self.expr_R(scope, d - 1), self.expr_R(scope, d - 1))
        if c < 0.53:
            a = self.expr_R(scope, d - 1)
            return Node('op1', 'fabs' if a.k == 'num' else r.choice(['neg', 'fabs']), a)
        if c < 0.57:
            return Node('op3', 'fma', self.expr_R(scope, d - 1), self.expr_R(scope, d - 1), self.expr_R(scope, d - 1))
        if c < 0.62:
            return Node(r.choice(['min', 'max']), [self.expr_R(scope, d - 1), self.expr_R(scope, d - 1)])
        if c < 0.74:
            ls = self.vars_of(scope, lambda t: isinstance(t, tuple))
            if ls:
                x = r.choice(ls)
                self.features.add('listref')
                return Node('ref', V(x), lit(r.randint(0, scope[x][1] - 1)))
        if c < 0.79:
            ls = self.vars_of(scope, lambda t: isinstance(t, tuple))
            if ls and r.random() < 0.3 and d > 0:
                return Node('sum', self.comp_R(scope, d - 1))
            if ls:
                return Node(r.choice(['sum', 'len']), V(r.choice(ls)))
        if c < 0.86:
            return Node('ife', self.expr_B(scope, d - 1), self.expr_R(scope, d - 1), self.expr_R(scope, d - 1))
        if c < 0.93:
            self.features.add('const-expr')
            return self.const_R(2)
        return self.call_R(scope, d)

    def call_R(self, scope, d):
        r = self.r
        ls = self.vars_of(scope, lambda t: isinstance(t, tuple))
        c = r.random()
        if c < 0.45 or not ls:
            k = 'pure' if r.random() < 0.7 else 'local'
            f = self.helper(k)
            self.features.add('call-' + k)
            return Node('call', f.name, [self.expr_R(scope, d - 1) for _ in f.params])
        k = 'alias' if (self.risky and r.random() < 0.3) else 'mut'
        f = self.helper(k)
        self.features.add('call-' + k)
        return Node('call', f.name, [V(r.choice(ls)), self.expr_R(scope, d - 1)])

    def expr_B(self, scope, d):
        r = self.r
        c = r.random()
        bs = self.vars_of(scope, lambda t: t == 'B')
        if bs and c < 0.15:
            return V(r.choice(bs))
        if c < 0.6 or d <= 0:
            return Node('cmp', [r.choice(CMPS)], [self.expr_R(scope, d - 1), self.expr_R(scope, d - 1)])
        if c < 0.7:
            return Node('cmp', [r.choice(CMPS), r.choice(CMPS)], [self.expr_R(scope, d - 1) for _ in range(3)])
        if c < 0.8:
            return Node(r.choice(['and', 'or']), [self.expr_B(scope, d - 1), self.expr_B(scope, d - 1)])
        if c < 0.86:
            return Node('not', self.expr_B(scope, d - 1))
        if c < 0.92:
            return Node('pred', r.choice(['isnan', 'isinf', 'signbit']), self.expr_R(scope, d - 1))
        self.features.add('literal-cond')
        return Node('bool', r.random() < 0.5)

    def runtime_ctx(self, scope):
        """A context constructor whose precision is an ARGUMENT of the function (not statically known)."""
        r = self.r
        iv = self.vars_of(scope, lambda t: t == 'I')
        if not iv:
            return None
        pv = V(r.choice(iv))
        rm = r.choice(RMODES) if r.random() < 0.6 else 'RNE'
        k = r.random()
        self.features.add('with-runtime-ctx')
        if k < 0.5:
            return Node('ctor', 'MPFloat', rm, None, [pv])
        if k < 0.75:
            return Node('ctor', 'MPSFloat', rm, None, [pv, lit(r.randint(-4, 1))])
        es = r.randint(2, 5)
        return Node('ctor', 'IEEE', rm, 'OVERFLOW', [lit(es), Node('op2', 'add', pv, lit(es + 1))])

    def ctx_expr(self, scope):
        r = self.r
        cv = self.vars_of(scope, lambda t: t == 'C')
        c = r.random()
        if cv and c < 0.2:
            return V(r.choice(cv))
        if c < 0.55:
            return self.ctx_const()
        rm = r.choice(RMODES) if r.random() < 0.6 else 'RNE'
        k = r.random()
        if k < 0.6:
            return Node('ctor', 'MPFloat', rm, None, [lit(r.randint(2, 7))])
        if k < 0.8:
            return Node('ctor', 'MPSFloat', rm, None, [lit(r.randint(2, 6)), lit(r.randint(-4, 1))])
        es = r.randint(2, 4)
        return Node('ctor', 'IEEE', rm, 'OVERFLOW', [lit(es), lit(es + r.randint(2, 6))])

    def inexact_const(self):
        """Closed arithmetic that is inexact under small precisions (and differently so under different ones)."""
        r = self.r
        a, b = r.choice([(1, 3), (1, 10), (2, 3), (1, 7), (5, 3), (F(1, 10), F(3, 10)), (F(7, 5), 3)])
        e = Node('op2', 'div', lit(a), lit(b))
        if r.random() < 0.4:
            e = Node('op2', r.choice(['add', 'mul']), e, lit(r.choice([F(1, 10), F(1, 5), 3, F(7, 5)])))
        return e

    def pattern(self, scope, frozen, depth=2):
        """A (possibly nested) tuple pattern with a matching tuple expression; leaves are fresh names or existing
        real variables.  -> (pattern node, expression node, leaf names)"""
        r = self.r
        used = set()

        def leaf():
            cands = [v for v, ty in scope.items() if ty == 'R' and v not in frozen and v not in used]
            if cands and r.random() < 0.45:
                x = r.choice(cands)
            else:
                x = self.fresh('n')
            used.add(x)
            return x

        def go(d):
            k = r.randint(2, 3)
            ps, es, ls = [], [], []
            nested = False
            for j in range(k):
                if d > 0 and (r.random() < 0.45 or (j == k - 1 and not nested and d == depth)):
                    p1, e1, l1 = go(d - 1)
                    nested = True
                    ps.append(p1)
                    es.append(e1)
                    ls += l1
                else:
                    x = leaf()
                    ps.append(PV(x))
                    es.append(self.expr_R(scope, 1))
                    ls.append(x)
            return Node('ptuple', ps), Node('tuple', es), ls
        return go(depth)

    def comp_R(self, scope, d, target=None):
        """A comprehension over a list variable / range with real elements; the target may shadow an outer
        variable.  -> node (list of reals, length unknown to the caller)"""
        r = self.r
        Ls = self.vars_of(scope, lambda t: isinstance(t, tuple))
        it = V(r.choice(Ls)) if (Ls and r.random() < 0.7) else Node('range', [lit(r.randint(1, 3))])
        Rs = self.vars_of(scope, lambda t: t == 'R')
        if target is None:
            target = r.choice(Rs) if (Rs and r.random() < 0.5) else self.fresh('g')
        inner = dict(scope)
        inner[target] = 'R'
        elt = self.expr_R(inner, d)
        if r.random() < 0.7:
            elt = Node('op2', r.choice(['add', 'mul', 'sub']), elt, V(target))
        self.features.add('comp')
        return Node('comp', [(PV(target), it)], elt)

    def shadow_comp_stmts(self, scope, frozen):
        """x = e; s = reduce([.. x .. for x in xs]) op x  -- the comprehension target shadows the variable that is
        read again later in the same statement (the target is scoped to the comprehension)."""
        r = self.r
        out = []
        Rs = [v for v in self.vars_of(scope, lambda t: t == 'R')]
        if Rs and r.random() < 0.4:
            x = r.choice(Rs)                       # an argument / earlier definition is shadowed
            if x not in frozen and r.random() < 0.6:
                out.append(Node('assign', PV(x), self.expr_R(scope, 1)))
        else:
            x = self.fresh('x')
            out.append(Node('assign', PV(x), self.expr_R(scope, 1)))
            scope[x] = 'R'
        c = self.comp_R(scope, 1, target=x)
        red = Node(r.choice(['sum', 'sum', 'len']), c)
        k = r.random()
        if k < 0.6:
            e = Node('op2', r.choice(['add', 'mul', 'sub']), red, V(x))
        elif k < 0.8:
            e = Node('op2', r.choice(['add', 'sub']), V(x), red)
        else:
            e = Node('tuple', [red, V(x)])
        if e.k == 'tuple':
            p, q = self.fresh('p'), self.fresh('q')
            out.append(Node('assign', Node('ptuple', [PV(p), PV(q)]), e))
            scope[p] = scope[q] = 'R'
            self.must_use += [p, q]
        else:
            s = self.fresh('s')
            out.append(Node('assign', PV(s), e))
            scope[s] = 'R'
            self.must_use.append(s)
        self.features.add('comp-shadow')
        return out

    def nested_phi_stmts(self, scope, frozen, depth):
        """x = e0; y = e1; if c1: (if c2: x = e2 [else: ...]); y = f(x)  -- x is merged (and read) inside the outer
        branch and never read after it: its first definition feeds a live inner phi and a dead outer one."""
        r = self.r
        x, y = self.fresh('x'), self.fresh('y')
        pre = [Node('assign', PV(x), self.expr_R(scope, 1)), Node('assign', PV(y), self.expr_R(scope, 1))]
        inner = dict(scope)
        inner[x] = inner[y] = 'R'
        k = r.random()
        if k < 0.45:
            mid = [Node('if1', self.expr_B(inner, 1), [Node('assign', PV(x), self.expr_R(inner, 1))])]
        elif k < 0.7:
            mid = [Node('if', self.expr_B(inner, 1), [Node('assign', PV(x), self.expr_R(inner, 1))],
                        [Node('assign', PV(self.fresh('t')), self.expr_R(inner, 1))])]
        elif k < 0.85:
            i = self.fresh('i')
            mid = [Node('assign', PV(i), lit(0)),
                   Node('while', Node('cmp', ['<'], [V(i), lit(r.randint(0, 2))]),
                        [Node('assign', PV(x), Node('op2', 'add', V(x), self.leaf_R(inner))),
                         Node('assign', PV(i), Node('op2', 'add', V(i), lit(1)))])]
        else:
            e = self.fresh('e')
            mid = [Node('for', PV(e), Node('range', [lit(r.randint(0, 2))]),
                        [Node('assign', PV(x), Node('op2', 'add', V(x), V(e)))])]
        use = Node('assign', PV(y), Node('op2', r.choice(['add', 'mul', 'sub']), V(x), self.leaf_R(inner)))
        branch = mid + [use]
        if depth > 1 and r.random() < 0.3:
            branch = self.stmts(dict(inner), 0, 1) + branch
        cond = self.expr_B(scope, 1)
        kk = r.random()
        if kk < 0.5:
            outer = Node('if1', cond, branch)
        elif kk < 0.75:
            outer = Node('if', cond, branch, [Node('assign', PV(y), self.expr_R(scope, 1))])
        else:
            outer = Node('if', cond, [Node('assign', PV(y), self.expr_R(scope, 1))], branch)
        scope[y] = 'R'
        scope['#dead:' + x] = 'X'          # x stays defined but is deliberately not offered to later code
        self.must_use.append(y)
        self.features.add('nested-phi')
        return pre + [outer]

    # ---- statements
    def stmts(self, scope, depth, n, in_loop=False):
        out = []
        for _ in range(n):
            out += self.stmt(scope, depth, in_loop)
        return out

    def stmt(self, scope, depth, in_loop):
        r = self.r
        c = r.random()
        Rs = self.vars_of(scope, lambda t: t == 'R')
        Ls = self.vars_of(scope, lambda t: isinstance(t, tuple))
        frozen = scope.get('#frozen', frozenset())
        if r.random() < 0.07:
            return self.shadow_comp_stmts(scope, frozen)
        if depth > 0 and r.random() < 0.06:
            return self.nested_phi_stmts(scope, frozen, depth)
        if c < 0.16 and Rs:                                    # copy
            y = r.choice(Rs)
            x = self.fresh('x')
            scope[x] = 'R'
            self.copied.append((x, y))
            self.features.add('copy')
            return [Node('assign', PV(x), V(y))]
        if c < 0.30:                                           # reassign (preferably a copy source / target)
            cands = [v for pair in self.copied for v in pair if scope.get(v) == 'R' and v not in frozen]
            pool = cands if (cands and r.random() < 0.75) else [v for v in Rs if v not in frozen]
            if pool:
                y = r.choice(pool)
                self.features.add('reassign-after-copy' if y in [v for p in self.copied for v in p] else 'reassign')
                if r.random() < 0.25:
                    z = r.choice(Rs)
                    if z != y:
                        self.copied.append((y, z))
                        return [Node('assign', PV(y), V(z))]
                return [Node('assign', PV(y), self.expr_R(scope, 2))]
        if c < 0.42:                                           # new definition (often dead)
            x = self.fresh('t')
            e = self.expr_R(scope, 2)
            scope[x] = 'R'
            return [Node('assign', PV(x), e)]
        if c < 0.47:                                           # constant under the active context
            x = self.fresh('k')
            scope[x] = 'R'
            self.features.add('const-assign')
            return [Node('assign', PV(x), self.const_R(2))]
        if c < 0.52 and r.random() < 0.5:                      # nested tuple pattern, partially used leaves
            pat, e, leaves = self.pattern(scope, frozen, depth=r.choice([1, 1, 2]))
            for x in leaves:
                scope[x] = 'R'
            # some leaves are read by the result, the others stay dead
            for x in r.sample(leaves, r.randint(1, max(1, len(leaves) - 1))):
                self.must_use.append(x)
            self.features.add('nested-tuple-assign')
            return [Node('assign', pat, e)]
        if c < 0.52:                                           # tuple assignment, some leaves dead
            x, y = self.fresh('p'), self.fresh('q')
            e = Node('tuple', [self.expr_R(scope, 1), self.expr_R(scope, 1)])
            scope[x] = 'R'
            scope[y] = 'R'
            self.features.add('tuple-assign')
            return [Node('assign', Node('ptuple', [PV(x), PV(y)]), e)]
        if c < 0.58:                                           # list, alias, mutation
            k = r.random()
            if k < 0.35 or not Ls:
                x = self.fresh('l')
                n = r.randint(2, 3)
                e = Node('list', [self.expr_R(scope, 1) for _ in range(n)])
                out = [Node('assign', PV(x), e)]
                # keep most lists alive (a dead allocation is outside dce_sound): read it into another list,
                # or remember it for the result
                if Ls and r.random() < 0.8:
                    y = r.choice(Ls)
                    out.append(Node('iassign', y, [lit(r.randint(0, scope[y][1] - 1))], Node('ref', V(x), lit(r.randint(0, n - 1)))))
                elif depth == 2:
                    self.keep.append(x)
                scope[x] = ('L', n)
                self.features.add('list-new')
                return out
            if k < 0.6:
                y = r.choice(Ls)
                x = self.fresh('m')
                scope[x] = scope[y]
                self.features.add('list-alias')
                return [Node('assign', PV(x), V(y))]
            y = r.choice(Ls)
            self.features.add('list-mutation')
            return [Node('iassign', y, [lit(r.randint(0, scope[y][1] - 1))], self.expr_R(scope, 1))]
        if c < 0.62:                                           # bool
            x = self.fresh('b')
            e = self.expr_B(scope, 1)
            scope[x] = 'B'
            return [Node('assign', PV(x), e)]
        if c < 0.66:                                           # effect / assert / pass
            k = r.random()
            if k < 0.4:
                return [Node('effect', self.expr_R(scope, 2))]
            if k < 0.7:
                return [Node('assert', Node('bool', True))]
            return [Node('pass')]
        if depth > 0:
            if c < 0.76:                                       # if / if-else
                cond = self.expr_B(scope, 1)
                t = self.stmts(dict(scope), depth - 1, r.randint(1, 3), in_loop)
                if r.random() < 0.12:
                    t.append(Node('return', self.expr_R(scope, 1)))
                    self.features.add('early-return')
                    return [Node('if1', cond, t)]
                if r.random() < 0.5:
                    return [Node('if1', cond, t)]
                f = self.stmts(dict(scope), depth - 1, r.randint(1, 3), in_loop)
                return [Node('if', cond, t, f)]
            if c < 0.84:                                       # counter loop
                k = self.fresh('i')
                bound = r.randint(0, 3)
                inner = dict(scope)
                inner[k] = 'R'
                inner['#frozen'] = frozenset(frozen) | {k}
                body = self.stmts(inner, depth - 1, r.randint(1, 3), True)
                body.append(Node('assign', PV(k), Node('op2', 'add', V(k), lit(1))))
                self.features.add('while')
                return [Node('assign', PV(k), lit(0)),
                        Node('while', Node('cmp', ['<'], [V(k), lit(bound)]), body)]
            if c < 0.91:                                       # for loop
                t = self.fresh('e')
                inner = dict(scope)
                inner[t] = 'R'
                inner['#frozen'] = frozenset(frozen) | {t}
                if Ls and r.random() < 0.6:
                    it = V(r.choice(Ls))
                else:
                    it = Node('range', [lit(r.randint(0, 3))])
                body = self.stmts(inner, depth - 1, r.randint(1, 3), True)
                self.features.add('for')
                return [Node('for', PV(t), it, body)]
            # with
            rc = self.runtime_ctx(scope) if r.random() < 0.45 else None
            if rc is not None:
                # a context only known at run time, inside a statically known one; constants computed under it
                outs = [v for v in Rs if v not in frozen]
                inner = dict(scope)
                body = []
                for _ in range(r.randint(1, 2)):
                    if outs and r.random() < 0.8:
                        y = r.choice(outs)
                    else:
                        y = self.fresh('w')
                        inner[y] = 'R'
                    body.append(Node('assign', PV(y), self.inexact_const()))
                    self.must_use.append(y)
                    if y not in scope and depth == 2:
                        scope[y] = 'R'      # a `with` block does not scope its definitions
                body += self.stmts(inner, depth - 1, r.randint(0, 2), in_loop)
                w = Node('with', None, rc, body)
                self.features.add('with')
                if r.random() < 0.6:
                    return [Node('with', None, self.ctx_const() if r.random() < 0.7 else Node('ctxval', 'fp.FP64', CtxSpec('FP64')), [w])]
                return [w]
            ce = self.ctx_expr(scope)
            inner = dict(scope)
            name = None
            if r.random() < 0.3:
                name = self.fresh('c')
                inner[name] = 'C'
            body = self.stmts(inner, depth - 1, r.randint(1, 3), in_loop)
            self.features.add('with')
            return [Node('with', name, ce, body)]
        x = self.fresh('t')
        e = self.expr_R(scope, 2)
        scope[x] = 'R'
        return [Node('assign', PV(x), e)]

    def program(self):
        r = self.r
        params = ['a', 'b']
        scope = {'a': 'R', 'b': 'R'}
        if r.random() < 0.5:
            params.append('c')
            scope['c'] = 'R'
        if r.random() < 0.5:
            params.append('xs')
            scope['xs'] = ('L', 3)
        if r.random() < 0.6:
            params.append('pr')            # a small precision, only known at run time
            scope['pr'] = 'I'
        fctx = self.small_ctx() if r.random() < 0.35 else None
        body = self.stmts(scope, 2, r.randint(4, 9))
        scope.pop('#frozen', None)
        # the result mentions several variables so that most definitions are live
        k = r.random()
        Rs = self.vars_of(scope, lambda t: t == 'R')
        Ls = self.vars_of(scope, lambda t: isinstance(t, tuple))
        must = [v for v in dict.fromkeys(self.must_use) if scope.get(v) == 'R'][:4]
        if k < 0.55 or must:
            e = self.expr_R(scope, 2)
            for v in r.sample(Rs, min(len(Rs), 2)):
                e = Node('op2', 'add', e, V(v))
            for v in must:
                e = Node('op2', 'add', e, V(v))
            for l in self.keep[:3]:
                if isinstance(scope.get(l), tuple):
                    e = Node('op2', 'add', e, Node('ref', V(l), lit(0)))
            ret = e
        elif k < 0.75:
            ret = Node('tuple', [V(r.choice(Rs)), self.expr_R(scope, 2)])
        elif k < 0.9 and Ls:
            ret = V(r.choice(Ls))
        else:
            ret = self.expr_B(scope, 2)
        body.append(Node('return', ret))
        main = Func('main', params, fctx, body)
        prog = Program(list(self.helpers.values()) + [main])
        return prog, params

    def args(self, params, special=0.2):
        r = self.r

        def real():
            k = r.random()
            if k < special:
                return r.choice([N.fin(0), N.fin(0, negzero=True), N.inf(False), N.inf(True), N.nan(False)])
            return N.fin(r.choice([1, 2, 3, -1, -3, F(1, 2), F(5, 2), F(-7, 4), F(1, 10), 10 ** 10, F(1, 3), 7, 100]))
        return [[real() for _ in range(3)] if p == 'xs' else (N.fin(r.randint(2, 8)) if p == 'pr' else real()) for p in params]


# ---------------------------------------------------------------- corpus: the witnesses of the known defects
def corpus():
    """(name, Program, args list, flags, key) -- each runs through the same pipeline; `key` is the known finding
    the failure (if any) belongs to."""
    A = lambda x, e: Node('assign', PV(x), e)           # noqa: E731
    add = lambda a, b: Node('op2', 'add', a, b)          # noqa: E731
    out = []
    # C07-A: copy propagation ignores a redefinition of the source
    out.append(('copy_source_redefined',
                Program([Func('main', ['a', 'b'], None,
                              [A('y', V('a')), A('x', V('y')), A('y', V('b')), Node('return', add(V('x'), V('y')))])]),
                [[N.fin(1), N.fin(2)]], {}, 'copyprop_source_redefined'))
    out.append(('copy_source_redefined_in_loop',
                Program([Func('main', ['a', 'n'], None,
                              [A('y', V('a')), A('x', V('y')), A('s', lit(0)),
                               Node('while', Node('cmp', ['<'], [V('y'), V('n')]),
                                    [A('y', add(V('y'), lit(1))), A('s', add(V('s'), V('x')))]),
                               Node('return', V('s'))])]),
                [[N.fin(1), N.fin(4)]], {}, 'copyprop_source_redefined'))
    out.append(('copy_captured_by_comprehension',
                Program([Func('main', ['a', 'ys'], None,
                              [A('y', V('a')), A('x', V('y')),
                               A('zs', Node('comp', [(PV('y'), V('ys'))], add(V('x'), V('y')))),
                               Node('return', V('zs'))])]),
                [[N.fin(1), [N.fin(10), N.fin(20)]]], {}, 'copyprop_source_redefined'))
    # C07-B: operands of an unused phi are deleted without looking at their own uses / purity
    g2 = Func('g2', ['zs'], None, [Node('iassign', 'zs', [lit(0)], lit(7)), Node('return', lit(0))])
    out.append(('dce_phi_operand_impure',
                Program([g2, Func('main', ['xs', 'c'], None,
                                  [A('x', Node('call', 'g2', [V('xs')])),
                                   Node('if1', Node('cmp', ['>'], [V('c'), lit(0)]), [A('x', lit(1))]),
                                   Node('return', Node('ref', V('xs'), lit(0)))])]),
                [[[N.fin(5), N.fin(6)], N.fin(1)]], {'enable_const_fold': False, 'enable_copy_prop': False},
                None))
    out.append(('dce_phi_operand_used',
                Program([Func('main', ['a', 'b', 'c'], None,
                              [A('x', V('a')), A('t', add(V('x'), lit(1))),
                               Node('if1', Node('cmp', ['>'], [V('c'), lit(0)]), [A('x', V('b'))]),
                               Node('return', V('t'))])]),
                [[N.fin(1), N.fin(2), N.fin(1)]], {'enable_const_fold': False, 'enable_copy_prop': False},
                None))
    # C07-C: a callee that mutates its argument through a local alias counts as pure
    g = Func('g', ['zs'], None, [A('ws', V('zs')), Node('iassign', 'ws', [lit(0)], lit(7)), Node('return', lit(0))])
    out.append(('purity_alias',
                Program([g, Func('main', ['xs'], None,
                                 [A('t', Node('call', 'g', [V('xs')])), Node('return', Node('ref', V('xs'), lit(0)))])]),
                [[[N.fin(5), N.fin(6)]]], {}, None))
    # C07-D: a list constant is folded although the list is mutated through an alias
    out.append(('constfold_list_alias',
                Program([Func('main', ['a'], None,
                              [A('xs', Node('list', [lit(1), lit(2)])), A('ys', V('xs')),
                               Node('iassign', 'ys', [lit(0)], lit(5)),
                               Node('return', Node('ref', V('xs'), lit(0)))])]),
                [[N.fin(1)]], {}, 'constfold_list_alias'))
    # C07-E: PartialEval keeps a stale fact for the condition of an inner loop
    out.append(('partial_eval_stale_inner_cond',
                Program([Func('main', ['n'], CtxSpec('FP64'),
                              [A('i', lit(0)), A('s', lit(0)),
                               Node('while', Node('cmp', ['<'], [V('i'), V('n')]),
                                    [A('j', V('i')),
                                     Node('while', Node('cmp', ['>'], [V('j'), lit(0)]),
                                          [A('s', add(V('s'), lit(1))), A('j', Node('op2', 'sub', V('i'), V('i')))]),
                                     A('i', add(V('i'), lit(1)))]),
                               Node('return', V('s'))])]),
                [[N.fin(3)]], {}, None))
    # C07-H: an `if True:` ending in a return is spliced into its block; the statements after it are left behind
    out.append(('dce_unreachable_after_return',
                Program([Func('main', ['a', 'xs'], None,
                              [A('x', V('a')),
                               Node('if1', Node('bool', True), [A('t', V('a')), Node('return', Node('ref', V('xs'), lit(1)))]),
                               A('i', lit(0)),
                               Node('while', Node('cmp', ['<'], [V('i'), lit(0)]), [A('i', add(V('i'), lit(1)))]),
                               Node('return', V('x'))])]),
                [[N.fin(1), [N.fin(5), N.fin(6)]]], {}, None))
    # regression: constants under a context known only at run time, nested in a static one, must not be folded
    FP64v = Node('ctxval', 'fp.FP64', CtxSpec('FP64'))
    div = lambda a, b: Node('op2', 'div', a, b)          # noqa: E731
    out.append(('runtime_ctx_in_static_ctx',
                Program([Func('main', ['p'], None,
                              [A('t', lit(0)),
                               Node('with', None, FP64v,
                                    [Node('with', None, Node('ctor', 'IEEE', 'RNE', 'OVERFLOW', [lit(5), V('p')]),
                                          [A('t', div(lit(1), lit(3)))]),
                                     Node('return', V('t'))])])]),
                [[N.fin(8)], [N.fin(10)], [N.fin(16)]], {}, None))
    out.append(('runtime_ctx_in_declared_ctx',
                Program([Func('main', ['p'], CtxSpec('MPFloat', p=4, rm='RTZ'),
                              [A('s', lit(1)),
                               Node('with', None, Node('ctor', 'MPFloat', 'RNE', None, [V('p')]),
                                    [A('u', div(lit(1), lit(10))), A('v', div(lit(1), lit(5))), A('t', add(V('u'), V('v')))]),
                               Node('return', Node('op2', 'mul', V('t'), V('s')))])]),
                [[N.fin(2)], [N.fin(5)], [N.fin(9)]], {}, None))
    # regression: a nested tuple pattern whose outer leaf is dead and inner leaves are read later
    nest = lambda: Node('ptuple', [PV('u'), Node('ptuple', [PV('a'), PV('b')])])      # noqa: E731
    out.append(('nested_tuple_branch',
                Program([Func('main', ['x', 'c'], None,
                              [A('a', lit(0)), A('b', lit(0)),
                               Node('if1', Node('cmp', ['>'], [V('c'), lit(0)]),
                                    [Node('assign', nest(), Node('tuple', [V('x'), Node('tuple', [add(V('x'), lit(1)), add(V('x'), lit(2))])]))]),
                               Node('return', Node('op2', 'mul', V('a'), V('b')))])]),
                [[N.fin(3), N.fin(1)], [N.fin(3), N.fin(0)]], {}, None))
    out.append(('nested_tuple_straight',
                Program([Func('main', ['x'], None,
                              [A('a', V('x')),
                               Node('assign', nest(), Node('tuple', [Node('op2', 'mul', V('x'), lit(3)),
                                                                     Node('tuple', [add(V('a'), lit(1)), Node('op2', 'mul', V('a'), lit(2))])])),
                               Node('return', add(Node('op2', 'mul', V('a'), lit(100)), V('b')))])]),
                [[N.fin(3)], [N.fin(-2)]], {}, None))
    out.append(('nested_tuple_loop',
                Program([Func('main', ['x', 'xs'], None,
                              [A('a', lit(0)), A('b', V('x')),
                               Node('for', PV('e'), V('xs'),
                                    [Node('assign', Node('ptuple', [Node('ptuple', [PV('a'), PV('u')]), PV('b')]),
                                          Node('tuple', [Node('tuple', [add(V('a'), V('e')), V('b')]), add(V('b'), lit(1))]))]),
                               Node('return', add(V('a'), V('b')))])]),
                [[N.fin(1), [N.fin(10), N.fin(20)]]], {}, None))
    # regression: a comprehension target is scoped to the comprehension (it may shadow a variable read again later)
    out.append(('comp_target_shadows_local',
                Program([Func('main', ['a', 'xs'], None,
                              [A('x', Node('op2', 'mul', V('a'), lit(2))),
                               A('s', add(Node('sum', Node('comp', [(PV('x'), V('xs'))], Node('op2', 'mul', V('x'), V('x')))), V('x'))),
                               Node('return', V('s'))])]),
                [[N.fin(3), [N.fin(1), N.fin(2)]], [N.fin(F(-1, 2)), [N.fin(4), N.fin(F(1, 4)), N.fin(3)]]], {}, None))
    out.append(('comp_target_shadows_arg',
                Program([Func('main', ['x', 'xs'], None,
                              [A('x', Node('op2', 'mul', V('x'), lit(2))),
                               A('s', add(Node('sum', Node('comp', [(PV('x'), V('xs'))], V('x'))), V('x'))),
                               Node('return', V('s'))])]),
                [[N.fin(3), [N.fin(1), N.fin(2)]], [N.fin(7), [N.fin(F(1, 2))]]], {}, None))
    # regression: a definition that feeds a live inner phi and a dead outer phi
    gt0 = lambda v: Node('cmp', ['>'], [V(v), lit(0)])      # noqa: E731
    out.append(('phi_live_inner_dead_outer',
                Program([Func('main', ['a', 'b'], None,
                              [A('x', lit(0)), A('y', lit(10)),
                               Node('if1', gt0('a'), [Node('if1', gt0('b'), [A('x', lit(1))]), A('y', add(V('x'), lit(5)))]),
                               Node('return', V('y'))])]),
                [[N.fin(1), N.fin(1)], [N.fin(1), N.fin(-1)], [N.fin(-1), N.fin(1)]], {}, None))
    out.append(('phi_live_inner_dead_outer_over_arg',
                Program([Func('main', ['x', 'a', 'b'], None,
                              [A('x', lit(3)), A('y', lit(10)),
                               Node('if', gt0('a'), [A('y', lit(20))],
                                    [Node('if1', gt0('b'), [A('x', lit(1))]), A('y', Node('op2', 'mul', V('x'), lit(2)))]),
                               Node('return', V('y'))])]),
                [[N.fin(100), N.fin(-1), N.fin(-1)], [N.fin(100), N.fin(-1), N.fin(1)], [N.fin(100), N.fin(1), N.fin(1)]], {}, None))
    # C07-F: the reaching-definitions analysis forgets the loop target after a `for`
    out.append(('for_target_escapes',
                Program([Func('main', ['y', 'xs'], None,
                              [A('i', V('y')), Node('for', PV('i'), V('xs'), [Node('pass')]), Node('return', V('i'))])]),
                [[N.fin(1), [N.fin(10), N.fin(20)]]], {}, None))
    # a destructuring assignment in a loop whose right-hand side is constant only on the first analysis pass
    # (the loop-carried variable has a constant value before the loop): stale facts for the tuple's targets
    PTn = lambda *xs: Node('ptuple', [PV(x) for x in xs])   # noqa: E731
    for ctxs in (CtxSpec('FP64'), None):
        out.append(('tuple_binding_in_loop' + ('' if ctxs else '_noctx'),
                    Program([Func('main', ['n'], ctxs,
                                  [A('x', lit(1)), A('s', lit(0)), A('i', lit(0)),
                                   Node('while', Node('cmp', ['<'], [V('i'), V('n')]),
                                        [Node('assign', PTn('a', 'b'), Node('tuple', [V('x'), add(V('x'), lit(1))])),
                                         A('s', add(V('s'), V('a'))), A('x', add(V('x'), V('b'))), A('i', add(V('i'), lit(1)))]),
                                   Node('return', Node('tuple', [V('s'), V('x')]))])]),
                    [[N.fin(0)], [N.fin(1)], [N.fin(3)]], {}, None))
    out.append(('tuple_binding_in_for',
                Program([Func('main', ['xs'], CtxSpec('FP64'),
                              [A('x', lit(2)), A('s', lit(0)),
                               Node('for', PV('v'), V('xs'),
                                    [Node('assign', PTn('a', 'b'), Node('tuple', [add(V('x'), V('x')), V('x')])),
                                     A('s', add(V('s'), add(V('a'), V('b')))), A('x', add(V('x'), V('v')))]),
                               Node('return', V('s'))])]),
                [[[N.fin(1), N.fin(2), N.fin(3)]], [[]]], {}, None))
    return out


# ---------------------------------------------------------------- the pipeline
FLAG_NAMES = ['enable_const_fold', 'enable_const_fold_context', 'enable_const_fold_op', 'enable_copy_prop',
              'enable_dead_code_elim']


def all_flag_sets():
    out = []
    for cp in (True, False):
        for dce in (True, False):
            out.append({'enable_const_fold': False, 'enable_copy_prop': cp, 'enable_dead_code_elim': dce})
            for cc in (True, False):
                for co in (True, False):
                    out.append({'enable_const_fold': True, 'enable_const_fold_context': cc,
                                'enable_const_fold_op': co, 'enable_copy_prop': cp, 'enable_dead_code_elim': dce})
    return out


def flag_key(fl):
    return ''.join('1' if fl.get(k, True) else '0' for k in FLAG_NAMES)


def replay(ast, fl, limit=60):
    """simplify's loop, pass by pass, with the real pass classes.  -> (final ast, steps, error)
    steps: (pass, ast_in, ast_out or None, changed, exception or None)"""
    from fpy2.transform import ConstFold, CopyPropagate, DeadCodeEliminate
    steps = []
    for _ in range(limit):
        changed = False
        seq = []
        if fl.get('enable_const_fold', True):
            seq.append(('PConstFold', lambda a: ConstFold.apply_with_status(
                a, enable_context=fl.get('enable_const_fold_context', True), enable_op=fl.get('enable_const_fold_op', True))))
        if fl.get('enable_copy_prop', True):
            seq.append(('PCopyProp', lambda a: CopyPropagate.apply_with_status(a)))
        if fl.get('enable_dead_code_elim', True):
            seq.append(('PDce', lambda a: DeadCodeEliminate.apply_with_status(a)))
        for name, fn in seq:
            try:
                new, c = fn(ast)
            except Exception as e:  # noqa: BLE001 -- a pass that raises is an observable outcome
                steps.append((name, ast, None, False, e))
                return ast, steps, e
            steps.append((name, ast, new, c, None))
            ast = new
            changed |= bool(c)
        if not changed:
            return ast, steps, None
    return ast, steps, RuntimeError('no fixed point within the iteration limit')


def func_term(fd):
    return lang.export_funcdef(fd).coq()


def callees_term(fn):
    """Coq `program` term of the callees of the fpy2 Function (the function itself is passed separately)."""
    prog = lang.export_program(fn)
    return Program(prog.funcs[:-1]).coq()


def list_fold_positions(a, b):
    """Does b have a list literal of literals where a has something else (walk of two exported Node trees)?"""
    found = []

    def is_lit(n):
        return isinstance(n, Node) and (n.k in ('num', 'bool', 'ctxval') or
                                        (n.k in ('tuple', 'list') and all(is_lit(x) for x in n.a[0])))

    def go(x, y):
        if isinstance(x, Node) and isinstance(y, Node):
            if y.k == 'list' and is_lit(y) and not (x.k == 'list' and is_lit(x)):
                found.append(1)
                return
            if x.k == y.k and len(x.a) == len(y.a):
                for p, q in zip(x.a, y.a):
                    go(p, q)
        elif isinstance(x, (list, tuple)) and isinstance(y, (list, tuple)) and len(x) == len(y):
            for p, q in zip(x, y):
                go(p, q)
    go(a, b)
    return bool(found)


def folded_loop_conditions(a, b):
    """Does b have a literal as the condition of a `while` nested in another loop where a has an expression?"""
    found = []

    def go(x, y, depth):
        if isinstance(x, Node) and isinstance(y, Node) and x.k == y.k and len(x.a) == len(y.a):
            if x.k == 'while':
                if depth > 0 and y.a[0].k == 'bool' and x.a[0].k != 'bool':
                    found.append(1)
                go(x.a[1], y.a[1], depth + 1)
                return
            if x.k == 'for':
                go(x.a[2], y.a[2], depth + 1)
                return
            for p, q in zip(x.a, y.a):
                go(p, q, depth)
        elif isinstance(x, (list, tuple)) and isinstance(y, (list, tuple)) and len(x) == len(y):
            for p, q in zip(x, y):
                go(p, q, depth)
    go(a, b, 0)
    return bool(found)


def code_after_return(body):
    """Is there a block in which a statement that always returns once literal conditions are spliced (not a plain
    `return`) is followed by another statement?"""
    def lit_true(c):
        return isinstance(c, Node) and c.k == 'bool' and c.a[0] is True

    def ar(s):
        if s.k == 'return':
            return True
        if s.k == 'with':
            return any(ar(x) for x in s.a[2])
        if s.k == 'if1':
            return lit_true(s.a[0]) and any(ar(x) for x in s.a[1])
        if s.k == 'if':
            if lit_true(s.a[0]):
                return any(ar(x) for x in s.a[1])
            if isinstance(s.a[0], Node) and s.a[0].k == 'bool':
                return any(ar(x) for x in s.a[2])
            return any(ar(x) for x in s.a[1]) and any(ar(x) for x in s.a[2])
        return False

    def blocks(b):
        yield b
        for s in b:
            if s.k in ('if1', 'while'):
                yield from blocks(s.a[1])
            elif s.k == 'if':
                yield from blocks(s.a[1])
                yield from blocks(s.a[2])
            elif s.k in ('for', 'with'):
                yield from blocks(s.a[2])
    for b in blocks(body):
        for i, s in enumerate(b[:-1]):
            if s.k != 'return' and ar(s):
                return True
    return False


def shared_node_effect(st):
    """Is the behaviour of the real CopyPropagate on this step explained by AST node sharing?  (SubstVar inserts the
    very same Var object at every site it rewrites; the next round's use->def map is keyed by node identity.)
    True iff the input AST has a Var object at several positions AND the real pass, run on a copy of the same AST
    with fresh nodes, neither raises nor produces the output observed."""
    from fpy2.ast.visitor import DefaultTransformVisitor, DefaultVisitor
    from fpy2.transform import CopyPropagate

    class _Ids(DefaultVisitor):
        def __init__(self):
            self.seen, self.dup = set(), False

        def _visit_var(self, e, ctx):
            if id(e) in self.seen:
                self.dup = True
            self.seen.add(id(e))

    class _Fresh(DefaultTransformVisitor):
        pass
    try:
        ids = _Ids()
        ids._visit_function(st['ast_in'], None)
        if not ids.dup:
            return False
        fresh = _Fresh()._visit_function(st['ast_in'], None)
        if lang.export_funcdef(fresh).coq() != st['in'].coq():
            return False
        out2, _ = CopyPropagate.apply_with_status(fresh)
        return st['out'] is None or lang.export_funcdef(out2).coq() != st['out'].coq()
    except Exception:  # noqa: BLE001 -- the de-shared run fails too: not explained by sharing
        return False


def coq_codes(ck, cases, chunk, tag='steps'):
    """Evaluate C07Cases.step_code on every case in Coq.  -> (list of codes or None, error)"""
    import re
    from ..common import COQ, sh
    shards = []
    for si in range(0, len(cases), chunk):
        name = f'{tag}_{si // chunk:04d}'
        body = ';\n'.join(cases[si:si + chunk])
        text = (HEADER + f'\nDefinition cases : list case7 := [\n{body}\n].\n'
                'Eval vm_compute in (codes7 cases, map header_ok cases).\n')
        (ck.dir / f'{name}.v').write_text(text)
        shards.append((name, min(chunk, len(cases) - si)))
    if not shards:
        return [], None
    lst = '\n'.join(n for n, _ in shards)
    cmd = (f"xargs -P16 -I{{}} sh -c 'timeout 1500 coqc -Q {COQ} FpyV -Q . Dyn {{}}.v > {{}}.out 2>&1 || echo FAIL >> {{}}.out'")
    sh(cmd, cwd=ck.dir, input=lst, timeout=1500 * (len(shards) // 16 + 1) + 60)
    codes, hdr, err = [], [], None
    for name, k in shards:
        out = (ck.dir / f'{name}.out').read_text()
        m = re.search(r'=\s*\(\[(.*?)\],\s*\[(.*?)\]\)\s*:', out, re.S)
        if 'FAIL' in out or not m:
            err = (err or '') + f'{name}: {out[-400:]}\n'
            codes += [None] * k
            hdr += [None] * k
            continue
        cs = [int(x.replace('%nat', '').strip()) for x in m.group(1).split(';') if x.strip()]
        hs = [x.strip() == 'true' for x in m.group(2).split(';') if x.strip()]
        if len(cs) != k or len(hs) != k:
            err = (err or '') + f'{name}: {len(cs)} codes for {k} cases\n'
            cs, hs = [None] * k, [None] * k
        codes += cs
        hdr += hs
    return list(zip(codes, hdr)), err


KEY_OF_BIT = {
    'PCopyProp': {16: 'copyprop_source_redefined'},
    'PDce': {},        # every DCE defect found so far is repaired in /repo: a DCE failure is a violation
}


def classify_step(pass_name, code, node_in, node_out, exc=None):
    """The known-finding key a failing step belongs to, or None.  A step is attributed to a known defect only when
    the AS-CODED model reproduces the real output (or the pass raised), the repaired model's output is accepted by
    the verified validator, and repairing that single defect in the model is what changes the output."""
    if code is None:
        return None
    if pass_name == 'PConstFold':
        if code & 4:
            return None
        if node_out is not None and list_fold_positions(node_in.body, node_out.body):
            return 'constfold_list_alias'
        return None
    if node_out is None:
        # the pass raised: no known class
        return None
    as_coded = bool(code & 1) or node_out is None
    if not as_coded or (code & 8):
        return None
    for bit, key in KEY_OF_BIT[pass_name].items():
        if code & bit:
            return key
    return None


def run(ck):
    import fpy2 as fp
    from fpy2.strategies import simplify
    thorough = ck.tier == 'thorough'
    ck.trusted += [
        'Coq 8.16.1 kernel (coqc); vm_compute evaluates the models / validators on the correspondence cases; no native_compute',
        'hand-written Gallina models: shared FPy semantics (coq/Lang/Sem.v, C04), CopyPropagate/SubstVar, DeadCodeEliminate with '
        'its def-use and purity analyses, value_to_literal (coq/Lang/Transforms/Simp*.v); tied to /repo by structural comparison of '
        'every pass step and differential execution, not by translation',
        'PartialEval (the source of the constant facts) is NOT modelled: ConstFold steps are validated (claims re-evaluated with the '
        'provisional number instance coq/Lang/NumInst.v, equal up to the encoding of the number) and executed differentially; '
        'truth of the facts in general is C13',
        'encoding independence of the number operations (C05) is assumed when a folded literal carries another encoding of the same number '
        '(subst_sound_facts_partial requires the literal to evaluate to the very value)',
        'harness/lang.py printers and exporter (program -> FPy source and Coq term; fpy2 AST -> Coq term; values -> Coq terms), the generator in harness/props/c07.py',
    ]
    ck.assumptions += [
        'modelled core only: programs the exporter accepts (fail-closed) within what prov_numops evaluates',
        'simplify(func) is modelled as adding the rewritten function under a fresh name (the callees and the original keep their ASTs, as in fpy2)',
        'dead right-hand sides that allocate (list displays, comprehensions, ranges) or call FPy functions are outside dce_sound (validator refuses; differential only)',
    ]
    ok, _ = ck.build_static(['Props/C07.v', 'Cases/C07Cases.v'])
    if ok:
        ck.props('Props/C07.v')

    flagsets = all_flag_sets()
    import os
    nprog = int(os.environ.get('C07_NPROG', 1500 if thorough else 150))
    nargs = 8 if thorough else 6
    per_prog_flags = len(flagsets) if thorough else 6

    cases, case_index = [], {}      # dedup by term text
    step_refs = []                  # (prog idx, flag key, step no, pass, case no, node_in, node_out, exc)
    runs = []                       # per (prog, flags): dict
    t0 = time.time()

    def add_case(pass_name, prog_term, fin_term, fout_term):
        term = f'({pass_name}, {prog_term}, {fin_term}, {fout_term})'
        if term not in case_index:
            case_index[term] = len(cases)
            cases.append(term)
        return case_index[term]

    def process(idx, name, prog, arglists, fls, known_key):
        modname = f'c07_{name}'
        try:
            mod = prog.load(ck.dir / 'progs', modname)
        except Exception as e:  # noqa: BLE001
            ck.count('generator:rejected')
            return ('rejected', f'{type(e).__name__}: {str(e)[:300]}')
        fn = mod.main
        try:
            prog_term = callees_term(fn)
        except lang.Unsupported as e:
            ck.count('generator:export-failed')
            return ('export-failed', str(e))
        # the original's results
        base = []
        for args in arglists:
            got = call_result(lambda args=args: fn(*[py_of_arg(a) for a in args]))
            base.append(got)
            ck.count('original:' + got.split(' ')[0].strip('()'))
        for fl in fls:
            fk = flag_key(fl)
            rec = {'idx': idx, 'name': name, 'prog': prog, 'flags': fl, 'known_key': known_key, 'steps': [], 'fn': fn,
                   'simplify_error': None, 'mismatch': [], 'replay_differs': False}
            runs.append(rec)
            ck.count('flags:' + fk)
            try:
                final, steps, err = with_timeout(lambda fl=fl: replay(fn.ast, fl, limit=15), 30)
            except _Timeout:
                final, steps, err = fn.ast, [], RuntimeError('replay timeout')
            rec['replay_error'] = None if err is None else f'{type(err).__name__}: {str(err)[:200]}'
            simp = None
            if err is not None and 'no fixed point' in str(err):
                # simplify itself would not return: do not wait for it
                rec['simplify_error'] = 'no fixed point: ' + ', '.join(
                    f'{s[0]}:{"changed" if s[3] else "same"}' for s in steps[-3:])
                tail = [s for s in steps[-6:] if s[3]]
                rec['selfcopy_loop'] = bool(tail) and all(
                    s[0] == 'PCopyProp' and func_term(s[1]) == func_term(s[2]) for s in tail)
            else:
                try:
                    simp = with_timeout(lambda fl=fl: simplify(fn, **fl), 20)
                except _Timeout:
                    rec['simplify_error'] = 'timeout'
                except Exception as e:  # noqa: BLE001
                    rec['simplify_error'] = f'{type(e).__name__}: {str(e)[:200]}'
            # the replay must reproduce simplify
            if simp is not None and err is None:
                try:
                    if func_term(simp.ast) != func_term(final):
                        rec['replay_differs'] = True
                except lang.Unsupported as e:
                    rec['export_error'] = str(e)
            for sn, (pname, a_in, a_out, changed, exc) in enumerate(steps):
                if a_out is not None and not changed and a_out is a_in:
                    continue
                try:
                    n_in = lang.export_funcdef(a_in)
                    n_out = None if a_out is None else lang.export_funcdef(a_out)
                except lang.Unsupported as e:
                    rec['export_error'] = str(e)
                    ck.count('step:export-failed')
                    continue
                t_in = n_in.coq()
                t_out = t_in if n_out is None else n_out.coq()
                if n_out is not None and t_in == t_out:
                    ck.count(f'step:{pname}:identity')
                    if changed:
                        rec.setdefault('notes', []).append(f'{pname} reported a change on an unchanged AST')
                    continue
                cno = add_case(pname, prog_term, t_in, t_out)
                rec['steps'].append({'sn': sn, 'pass': pname, 'case': cno, 'in': n_in, 'out': n_out,
                                     'ast_in': a_in, 'ast_out': a_out,
                                     'exc': None if exc is None else f'{type(exc).__name__}: {str(exc)[:200]}'})
            # differential execution
            if simp is not None:
                for args, want in zip(arglists, base):
                    if not want.startswith('(ROk'):
                        continue
                    got = call_result(lambda args=args: simp(*[py_of_arg(a) for a in args]))
                    ck.evaluations += 1
                    if got != want:
                        rec['mismatch'].append((args, want, got))
        return ('ok', None)

    # corpus first
    for name, prog, arglists, fl, key in corpus():
        process(-1, 'corpus_' + name, prog, arglists, [fl], key)
    # generated programs
    rejected = 0
    for idx in range(nprog):
        rng = Rng(ck.seed, f'c07-{idx}')
        g = SimpGen(rng)
        prog, params = g.program()
        arglists = [g.args(params, special=(0.0 if j < 2 else 0.25)) for j in range(nargs)]
        frng = Rng(ck.seed, f'c07-flags-{idx}')
        if per_prog_flags >= len(flagsets):
            fls = flagsets
        else:
            singles = [{'enable_const_fold': True, 'enable_copy_prop': False, 'enable_dead_code_elim': False},
                       {'enable_const_fold': False, 'enable_copy_prop': True, 'enable_dead_code_elim': False},
                       {'enable_const_fold': False, 'enable_copy_prop': False, 'enable_dead_code_elim': True}]
            fls = [{}] + [singles[idx % 3]] + frng.sample(flagsets, per_prog_flags - 2)
        r = process(idx, f'prog_{idx:05d}', prog, arglists, fls, None)
        if r[0] != 'ok':
            rejected += 1
            if rejected <= 3:
                ck.log(f'program {idx} {r[0]}: {r[1]}')
                ck.log(prog.source())
            continue
        for f in g.features:
            ck.count('feature:' + f)
        ck.nontriv(('prog', idx))
    ck.log(f'{nprog} programs x flag sets simplified, replayed and run in {time.time() - t0:.1f}s '
           f'({rejected} rejected, {len(cases)} distinct pass steps)')
    if rejected > max(3, nprog // 20):
        ck.broken.append(f'generator: {rejected} of {nprog} generated programs were rejected by the fpy2 front end')

    # the steps, in Coq
    res, err = coq_codes(ck, cases, chunk=max(8, len(cases) // 16 + 1))
    if err:
        ck.broken.append('correspondence evaluation failed: ' + err[:600])
    for c in cases[:2]:
        ck.sample(c[:1500])
    ck.rule = ('generated programs (copies whose source/target is reassigned afterwards in straight-line code, branches and loops; '
               'constants under declared / with-contexts of several families and rounding modes; dead and partially dead tuple '
               'assignments; list aliases mutated in place and through helpers; literal conditions; early returns) x combinations of '
               'the enable_* switches; every pass step of the replayed pipeline is one case; non-trivial = distinct programs')

    tally = {}

    def bump(k):
        tally[k] = tally.get(k, 0) + 1

    seen_steps = set()
    for rec in runs:
        prog_src = rec['prog'].source()
        base_replay = {'program': prog_src, 'flags': rec['flags'], 'name': rec['name']}
        # step verdicts
        bad_steps = []
        for st in rec['steps']:
            code, hdr = res[st['case']] if st['case'] < len(res) else (None, None)
            st['code'] = code
            if code is None:
                continue
            first = st['case'] not in seen_steps
            seen_steps.add(st['case'])
            if st['out'] is None:
                verdict = 'raised'
            elif code & 1 and code & 4:
                verdict = 'matched+validated'
            elif code & 1:
                verdict = 'matched-only'
            elif code & 4:
                verdict = 'validated-only'
            else:
                verdict = 'neither'
            st['verdict'] = verdict
            if first:
                bump(f'{st["pass"]}:{verdict}')
                if st['pass'] != 'PConstFold' and (code & 2):
                    bump(f'{st["pass"]}:equals-repaired-model')
            if hdr is False:
                ck.violation('a pass changed the parameter list or the declared context of the function',
                             dict(base_replay, step=st['sn'], pass_=st['pass']))
            if verdict in ('matched-only', 'neither', 'raised'):
                bad_steps.append(st)
                if first and os.environ.get('C07_DUMP'):
                    with open(ck.dir / 'unvalidated.txt', 'a') as fh:
                        fh.write(f'==== {rec["name"]} {st["pass"]} code={code} {verdict}\n--- in\n{st["in"].source()}--- out\n{st["out"].source() if st["out"] else None}\n')
        # failures of the property
        failures = []
        if rec['simplify_error']:
            failures.append(('simplify raised / did not terminate: ' + rec['simplify_error'], None))
        for args, want, got in rec['mismatch']:
            failures.append((f'simplified function returns {got}, the original {want}',
                             {'args': [repr(a) for a in args], 'original': want, 'simplified': got}))
        if rec['replay_differs']:
            ck.violation('replaying simplify\'s documented loop with the real passes does not give the AST simplify returned',
                         base_replay)
        if not failures:
            continue
        # attribute: the step that raised, else the first step whose output returns something else on the
        # failing input (bisection over the replayed pipeline), else the first step that is not validated
        key = None
        blame = None
        raised = [st for st in rec['steps'] if st['exc'] is not None]
        if rec['simplify_error'] and raised:
            blame = raised[0]
        elif rec['mismatch'] and rec.get('fn') is not None:
            args, want, _ = rec['mismatch'][0]
            for st in rec['steps']:
                if st['ast_out'] is None:
                    continue
                try:
                    g = rec['fn'].with_ast(st['ast_out'])
                    got = call_result(lambda: g(*[py_of_arg(a) for a in args]))
                except Exception:  # noqa: BLE001
                    got = None
                if got != want:
                    blame = st
                    break
        if blame is None:
            for st in rec['steps']:
                if st.get('verdict') in ('matched-only', 'neither', 'raised'):
                    blame = st
                    break
        if blame is not None:
            key = classify_step(blame['pass'], blame.get('code'), blame['in'], blame['out'], blame['exc'])
            if key is None and blame['pass'] == 'PCopyProp' and shared_node_effect(blame):
                key = 'copyprop_shared_node'
        if rec.get('selfcopy_loop') and not rec['mismatch']:
            key = 'copyprop_noop_reported_as_change'
        if rec['known_key'] is not None and key != rec['known_key']:
            # a corpus witness must fail in its own class
            key_for = None
        else:
            key_for = key
        if os.environ.get('C07_DUMP'):
            with open(ck.dir / 'failures.txt', 'a') as fh:
                fh.write(f'==== {rec["name"]} flags={rec["flags"]} key={key_for} blame={None if blame is None else (blame["pass"], blame["sn"], blame.get("code"), blame["exc"])}\n{prog_src}\n' + '\n'.join(w for w, _ in failures[:3]) + '\n')
        for what, detail in failures[:3]:
            ck.violation('simplify changes what a program returns: ' + what.split(':')[0] +
                         (f' [{key_for}]' if key_for else ''),
                         dict(base_replay, failure=what, detail=detail,
                              blamed_step=None if blame is None else {'pass': blame['pass'], 'step': blame['sn'],
                                                                      'code': blame.get('code'), 'exception': blame['exc']}),
                         key=key_for)
            ck.count('failure:' + (key_for or 'unclassified'))
    # the corpus witnesses must still fail (else the known finding is stale: report, do not fail)
    for rec in runs:
        if rec['known_key'] and not (rec['mismatch'] or rec['simplify_error']):
            ck.log(f'note: corpus witness {rec["name"]} no longer fails (finding {rec["known_key"]} fixed?)')
            ck.count('corpus:no-longer-failing')
    ck.extra['step_verdicts'] = dict(sorted(tally.items()))
    ck.extra['distinct_steps'] = len(cases)
    ck.log('step verdicts: ' + ', '.join(f'{k}={v}' for k, v in sorted(tally.items())))

    # value_to_literal
    lit_cases(ck, fp)


def lit_cases(ck, fp):
    from fpy2.transform.const_fold import value_to_literal
    from fpy2.ast.fpyast import FuncDef, StmtBlock, ReturnStmt, FuncMeta
    vals = []
    R = Rng(ck.seed, 'c07-lit')
    nums = [0, 1, -1, 2, 3, -7, 10 ** 20, F(1, 2), F(-3, 8), F(5, 4), F(1, 3), F(-2, 7), F(22, 7), 0.1, -0.0, 0.0, 2.5e-10,
            float('inf'), float('-inf'), float('nan')]
    nums += [fp.Float.from_float(x) for x in (0.0, -0.0, 1.5, -2.25, 1e300)]
    nums += [fp.Float(isnan=True), fp.Float(isinf=True, s=True), fp.Float(s=True, exp=-3, c=40), fp.Float(s=False, exp=5, c=3)]
    for _ in range(40):
        nums.append(F(R.randint(-500, 500), R.randint(1, 64)))
    ctxs = [fp.FP64, fp.REAL, fp.MPFloatContext(5, fp.RM.RTZ), fp.IEEEContext(4, 9)]
    vals += nums + [True, False] + ctxs
    vals += [(1, 2.5), (True, F(1, 3)), (1, (2, -0.0)), (float('nan'), 1), [1, 2], [F(1, 3), [1, 2]], (), [], ((), 1)]
    terms = []
    from fpy2.interpret.value import to_value
    for v in vals:
        try:
            v = to_value(v)        # the domain of PartialEval's facts: interpreter values
            cv = cval_of_py(v)
        except Exception:  # noqa: BLE001 -- not an interpreter value
            continue
        try:
            litx = value_to_literal(v, None)
        except Exception as e:  # noqa: BLE001
            ck.violation('value_to_literal raises', {'value': repr(v), 'exception': repr(e)})
            continue
        if litx is None:
            t = 'None'
        else:
            try:
                ex = lang._Exporter(None, {})
                t = f'(Some {lang.coq(ex.expr(litx))})'
            except lang.Unsupported as e:
                ck.count('lit:export-failed')
                continue
        terms.append((v, f'({cv}, {t})'))
        ck.evaluations += 1
    bad, err = ck.coq_eval_mismatches(HEADER, 'case_lit', [t for _, t in terms], 'check_lit', tag='lit')
    if err:
        ck.broken.append('value_to_literal correspondence failed: ' + err[:400])
    for i in bad:
        ck.violation('value_to_literal differs from the model literal_of_value', {'value': repr(terms[i][0]), 'case': terms[i][1]})
    ck.count('lit:cases', len(terms))
