"""C04 — programs evaluate by the documented context-scoped semantics.

Proof: coq/Lang/{Sem,SemProps,SemMono,PyIR,Compile,CompileProofs,Helpers}.v, statements in
coq/Props/C04.v.  Ties: (A) the parser's and the bytecode compiler's operator tables are
regenerated from /repo on every run (by parsing and compiling one one-line function per
documented name) and proved (vm_compute) to compose to the like-named operation; (B) correspondence — generated programs are written as real source files,
decorated by fpy2 (parser inside the loop), executed by fpy2 and by the Gallina evaluator
`run` (vm_compute inside Coq) on the same arguments / caller contexts; the generator's
Coq term is also compared with the term exported from the AST the real parser produced.
"""
import signal
import time

from ..common import Rng
from .. import lang
from ..lang import COQ_HEADER, CtxSpec, N, clist, cval_of_py, py_of_arg, res_of_call
from ..langgen import ProgGen, small_ctx

MANIFEST = {
    'text': 'Coq model of the documented FPy semantics (fuel-indexed big-step evaluator with the rounding context as a '
            'lexically scoped parameter, store-based list sharing, strict helpers) with theorems on context scoping / '
            'restoration for the save-try-finally compile scheme, callee context rule, exact constructor arguments, no '
            'entry rounding and the runtime helpers; operator tables regenerated from /repo and proved to compose; tied to '
            '/repo by running generated programs (source text through the real parser) on fpy2 and on the model.',
    'technique': 'machine-checked proof in Coq + regenerated operator tables (vm_compute) + model/implementation correspondence by vm_compute',
}

HEADER = COQ_HEADER + 'From FpyV Require Import Num.Out Lang.NumInst2 Cases.C04Cases.\n'


class _Timeout(Exception):
    pass


def _alarm(signum, frame):
    raise _Timeout()


def call_with_timeout(thunk, seconds=120):
    old = signal.signal(signal.SIGALRM, _alarm)
    signal.alarm(seconds)
    try:
        return res_of_call(thunk)
    except _Timeout:
        return 'RFuel'
    finally:
        signal.alarm(0)
        signal.signal(signal.SIGALRM, old)


# ---------------------------------------------------------------- operator tables (tie A)
TABLE_HELPERS = {
    'isnan': 'fp.isnan(x)', 'isinf': 'fp.isinf(x)', 'isfinite': 'fp.isfinite(x)', 'isnormal': 'fp.isnormal(x)',
    'signbit': 'fp.signbit(x)', 'len': 'len(x)', 'sum': 'sum(x)', 'enumerate': 'enumerate(x)',
    'min/1': 'min(x)', 'max/1': 'max(x)', 'min/2': 'min(x, y)', 'max/2': 'max(x, y)',
    'fmin/2': 'fp.fmin(x, y)', 'fmax/2': 'fp.fmax(x, y)', 'any': 'any(x)', 'all': 'all(x)', 'zip': 'zip(x, y)',
    'range/1': 'range(x)', 'range/2': 'range(x, y)', 'range/3': 'range(x, y, z)',
    'empty': 'fp.empty(x)', 'dim': 'fp.dim(x)', 'size': 'fp.size(x, y)', 'fst': 'fp.fst(x)', 'snd': 'fp.snd(x)',
    '<': '(x < y)', '<=': '(x <= y)', '>': '(x > y)', '>=': '(x >= y)', '==': '(x == y)', '!=': '(x != y)',
    'and': '(x and y)', 'or': '(x or y)', 'not': '(not x)', 'ref': 'x[y]', 'slice': 'x[y:z]',
    'call': 'tab_h(x)', 'ctor': 'fp.MPFloatContext(x)',
    'abs': 'abs(x)', 'round_exact': 'fp.round_exact(x)', '**': '(x ** y)',
}
OP_SURFACE = {'add': '+', 'sub': '-', 'mul': '*', 'div': '/', 'mod': '%'}


def gen_tables(ck):
    """Regenerate (surface name, node class, emitted implementation) by parsing and compiling one
    one-line function per documented name with the real front end and BytecodeCompiler."""
    import ast as pyast
    from fpy2.interpret.byte import BytecodeCompiler, make_namespace
    snips = dict(TABLE_HELPERS)
    for key, (_, ar, tmpl) in lang.OPS.items():
        snips[OP_SURFACE.get(key, key)] = tmpl.format('x', 'y', 'z')
    src = 'import fpy2 as fp\n\n@fp.fpy\ndef tab_h(x):\n    return x\n\n'
    keys = sorted(snips)
    for i, k in enumerate(keys):
        src += f'@fp.fpy\ndef tab_{i}(x, y, z):\n    return {snips[k]}\n\n'
    mod = lang.load_module(ck.dir, 'c04_tables_mod', src)
    ns = make_namespace()

    def qual(o):
        return getattr(o, '__module__', '?') + '.' + getattr(o, '__qualname__', repr(o))

    def descr(e):
        if isinstance(e, pyast.Call):
            f = e.func
            nm = f.id if isinstance(f, pyast.Name) else pyast.unparse(f)
            tgt = ns.get(nm)
            kws = ','.join(f'{k.arg}={pyast.unparse(k.value)}' for k in e.keywords)
            inner = ''
            if nm in ('list', '__fpy_fraction'):
                inner = '(' + descr(e.args[0]) + ')'
            return (qual(tgt) if tgt is not None else 'py.' + nm) + (f'[{kws}]' if kws else '') + inner
        if isinstance(e, pyast.Compare):
            return type(e.ops[0]).__name__ + '(' + descr(e.left) + ',' + descr(e.comparators[0]) + ')'
        if isinstance(e, pyast.BoolOp):
            return 'BoolOp.' + type(e.op).__name__
        if isinstance(e, pyast.UnaryOp):
            return 'UnaryOp.' + type(e.op).__name__ + '(' + descr(e.operand) + ')'
        if isinstance(e, pyast.Subscript):
            return 'Subscript(' + descr(e.slice) + ')'
        if isinstance(e, pyast.Name):
            return 'name'
        return type(e).__name__
    entries = []
    for i, k in enumerate(keys):
        fn = getattr(mod, f'tab_{i}')
        node = fn.ast.body.stmts[0].expr
        py = BytecodeCompiler(fn.ast, fn.env)._visit_function(fn.ast, None)
        entries.append((k, type(node).__name__, descr(py.body[0].value)))
    exporter = []
    for d in (lang._NULLARY, lang._UNARY, lang._BINARY):
        for node, key in d.items():
            exporter.append((node, lang.OPS[key][0]))
    exporter.append(('Fma', 'OFma'))
    q = lambda t: '"' + t.replace('"', "'") + '"'  # noqa: E731
    text = ('From Coq Require Import List Bool String.\nFrom FpyV Require Import Lang.Syntax Lang.Tables.\n'
            'Import ListNotations.\nOpen Scope string_scope.\n'
            '(* regenerated from ' + str(ck.dir) + ' on this run: surface name, node class built by the parser, '
            'implementation the bytecode compiler emits *)\n'
            'Definition gen_table : list entry := [\n  ' +
            ';\n  '.join(f'({q(a)}, {q(b)}, {q(c)})' for a, b, c in entries) + '\n].\n'
            'Definition exporter_table : list (string * op) := [\n  ' +
            ';\n  '.join(f'({q(a)}, {b})' for a, b in exporter) + '\n].\n'
            'Lemma tables_compose : tables_ok gen_table = true.\nProof. vm_compute. reflexivity. Qed.\n'
            'Lemma exporter_agrees : exporter_ok exporter_table = true.\nProof. vm_compute. reflexivity. Qed.\n')
    ok, out = ck.dyn_theory('C04Tables', text=text)
    ck.evaluations += len(entries)
    ck.count('table-entries', len(entries))
    if not ok:
        # find the concrete entries that break the obligation
        diag = ('From Coq Require Import List Bool String.\nFrom FpyV Require Import Lang.Syntax Lang.Tables.\n'
                'Import ListNotations.\nOpen Scope string_scope.\n' + text.split('Open Scope string_scope.\n', 1)[1].split('Lemma tables_compose')[0])
        res = ck.coq_eval_raw(diag, '(filter (fun e => negb (entry_ok e)) gen_table, '
                              'filter (fun s => negb (existsb (fun e : entry => String.eqb (fst (fst e)) s) gen_table)) required)',
                              name='C04TablesDiag')
        ck.violation('an operator table of the parser / bytecode compiler maps a documented name to a different operation '
                     '(entries: surface name, node class, emitted implementation; then missing names)',
                     {'failing_entries': res[-3000:]})
    return ok


KEY_MINMAX = 'minmax-zero-tie-fraction'
KEY_SIZE = 'size-dim-rounded'
KEY_COPYSIGN = 'copysign-nan-sign'


def emitted_skeleton(fn):
    """Statement skeleton of the Python AST the real BytecodeCompiler emits for `fn` (same text as
    `skeleton` of coq/Lang/Compile.v prints for the model's compile scheme)."""
    import ast as pyast
    import re
    from fpy2.interpret.byte import BytecodeCompiler, CTX_NAME, REAL_NAME
    py = BytecodeCompiler(fn.ast, fn.env)._visit_function(fn.ast, None)
    tmps = {}
    for n in pyast.walk(py):
        if isinstance(n, pyast.Name) and n.id.startswith('__fpy_ctx_tmp'):
            m = re.search(r'(\d+)$', n.id)
            tmps[n.id] = int(m.group(1)) if m else -1
    rank = {nm: i for i, nm in enumerate(sorted(tmps, key=lambda k: tmps[k]))}

    def name(i):
        if i == CTX_NAME:
            return 'ctx'
        if i == REAL_NAME:
            return 'real'
        if i in rank:
            return f't{rank[i]}'
        return 'u:' + i

    def target(t):
        if isinstance(t, pyast.Name):
            return name(t.id)
        if isinstance(t, pyast.Tuple):
            return '(' + ','.join(target(e) for e in t.elts) + ')'
        return '?' + type(t).__name__

    def value(e):
        if isinstance(e, pyast.Name) and (e.id in (CTX_NAME, REAL_NAME) or e.id in rank):
            return name(e.id)
        return 'E'

    def block(b):
        return ''.join(stmt(s) + ';' for s in b)

    def stmt(s):
        if isinstance(s, pyast.Assign):
            if len(s.targets) == 1 and isinstance(s.targets[0], pyast.Subscript):
                t, k = s.targets[0], 0
                while isinstance(t, pyast.Subscript):
                    t, k = t.value, k + 1
                return f'I[{t.id}/{k}]'
            ts = [target(t) for t in s.targets]
            if len(ts) > 1:
                # `with e:` without `as` assigns the dead Python local `_` first; the model has no such target
                ts = [t for t in ts if t != 'u:_']
            return 'A[' + '='.join(ts) + '=' + value(s.value) + ']'
        if isinstance(s, pyast.Expr):
            return 'X'
        if isinstance(s, pyast.If):
            return 'If{' + block(s.body) + '}{' + block(s.orelse) + '}'
        if isinstance(s, pyast.While):
            return 'Wh{' + block(s.body) + '}' + ('?else' if s.orelse else '')
        if isinstance(s, pyast.For):
            return 'For[' + target(s.target) + ']{' + block(s.body) + '}' + ('?else' if s.orelse else '')
        if isinstance(s, pyast.Try):
            extra = ('?handlers' if s.handlers else '') + ('?else' if s.orelse else '')
            return 'Try{' + block(s.body) + '}{' + block(s.finalbody) + '}' + extra
        if isinstance(s, pyast.Return):
            return 'R'
        if isinstance(s, pyast.Assert):
            return 'As'
        if isinstance(s, pyast.Pass):
            return 'P'
        return '?' + type(s).__name__
    return block(py.body)


def skeletons(mod, prog):
    return clist(f'("{f.name}", "{emitted_skeleton(getattr(mod, f.name))}")' for f in prog.funcs)


class patched_minmax:
    """Run fpy2 with ONLY the +-0 tie-break of byte._unchecked_min/_unchecked_max corrected (fixes/C04-minmax-zero-tie.diff);
    used to classify a disagreement as the recorded finding (it must disappear under this patch and nothing else)."""

    def __enter__(self):
        import fpy2.interpret.byte as B
        from fpy2.number import Float
        self.B, self.old = B, (B._unchecked_min, B._unchecked_max)

        def zs(x):
            return x.s if isinstance(x, Float) else x < 0

        def umin(vals):
            for x in vals:
                if isinstance(x, Float) and x.isnan:
                    return x
            result = vals[0]
            for x in vals[1:]:
                if x < result:
                    result = x
                elif x == result and zs(x) and not zs(result):
                    result = x
            return result

        def umax(vals):
            for x in vals:
                if isinstance(x, Float) and x.isnan:
                    return x
            result = vals[0]
            for x in vals[1:]:
                if x > result:
                    result = x
                elif x == result and not zs(x) and zs(result):
                    result = x
            return result
        B._unchecked_min, B._unchecked_max = umin, umax
        return self

    def __exit__(self, *a):
        self.B._unchecked_min, self.B._unchecked_max = self.old


class patched_copysign:
    """Run fpy2 with ONLY the MPFR engine's copysign declining a NaN sign operand (so that RealEngine's exact
    sign transfer serves it, as it does under REAL): classifies a disagreement as finding `copysign-nan-sign`."""

    def __enter__(self):
        from fpy2.number.engine.gmp import MPFREngine
        from fpy2.number import Float
        self.cls, self.old = MPFREngine, MPFREngine.copysign
        old = self.old

        def copysign(eng, x, y, ctx):
            if isinstance(y, Float) and y.isnan:
                return None
            return old(eng, x, y, ctx)
        MPFREngine.copysign = copysign
        return self

    def __exit__(self, *a):
        self.cls.copysign = self.old


PATCHES = [(KEY_MINMAX, patched_minmax), (KEY_COPYSIGN, patched_copysign)]


def run_program(ck, fn, runs_in, count=True):
    """runs_in: list of (args, caller CtxSpec|None).  -> (list of Coq run terms, metas)"""
    runs, metas = [], []
    for args, caller in runs_in:
        def thunk(args=args, caller=caller):
            pa = [py_of_arg(a) for a in args]
            if caller is None:
                return fn(*pa)
            return fn(*pa, ctx=caller.obj())
        got = call_with_timeout(thunk)
        cargs = clist(cval_of_py(a) for a in args)
        cc = 'None' if caller is None else f'(Some {caller.coq()})'
        runs.append(f'({cargs}, {cc}, {got})')
        metas.append({'args': [repr(a) for a in args], 'caller': None if caller is None else caller.py(), 'observed': got})
        if count:
            ck.evaluations += 1
            ck.count('outcome:' + got.split(' ')[0].strip('()'))
            ck.count('caller:' + ('none' if caller is None else caller.kind))
    return runs, metas


def load_case(ck, idx, prog, modname):
    """Load a program through the real front end and check that the AST it built exports to the generator's term."""
    try:
        mod = prog.load(ck.dir / 'progs', modname)
    except Exception as e:  # noqa: BLE001
        return ('rejected', f'{type(e).__name__}: {str(e)[:300]}', prog)
    fn = mod.main
    try:
        exported = {f.name: f.coq() for f in lang.export_program(fn).funcs}
    except lang.Unsupported as e:
        return ('export-failed', str(e), prog)
    mine = {f.name: f.coq() for f in prog.funcs}
    same = all(mine.get(k) == v for k, v in exported.items()) and 'main' in exported
    return ('ok', fn, same, (exported, mine), skeletons(mod, prog))


def make_case(ck, idx, rng, malformed, nargs):
    """Generate program #idx, load it, run it."""
    g = ProgGen(rng, malformed=malformed, families='all', rare_ops2=('fdim', 'fmod', 'remainder', 'mod'),
                rare_ops1=('sqrt', 'nearbyint'))
    prog, sig = g.program()
    r = load_case(ck, idx, prog, f'c04_prog_{idx:05d}')
    if r[0] != 'ok':
        return r
    _, fn, same, terms, skel = r
    callers = [small_ctx(rng, safe=g.safe) for _ in range(3)]
    runs_in = []
    for j in range(nargs):
        args = g.args(sig, p_special=(0.0 if j == 0 else 0.25))
        for caller in (None, callers[j % 3]):
            runs_in.append((args, caller))
    runs, metas = run_program(ck, fn, runs_in)
    case = f'({prog.coq()}, "main", {clist(runs)}, {skel})'
    return ('ok', case, metas, prog, same, g.features, terms, fn, runs_in, skel)


def check_exact_counts(ck, fn, runs_in, prog):
    """derived-semantics.rst: `Len / Size / Dim: exact integer counts, no rounding`."""
    for args, caller in runs_in:
        pa = [py_of_arg(a) for a in args]
        try:
            a, d, ln = fn(*pa) if caller is None else fn(*pa, ctx=caller.obj())
        except Exception as e:  # noqa: BLE001
            ck.violation('fp.size / fp.dim raised on a plain list', {'program': prog.source(), 'error': repr(e)})
            continue
        n = len(pa[3])
        if not (a == n and d == 5 and ln == n):
            ck.violation('fp.size / fp.dim return the count ROUNDED under the active context (documented: exact integer counts, no rounding)',
                         {'program': prog.source(), 'args': [repr(x) for x in args], 'len(xs)': n,
                          'observed (size(xs,0), dim(5-deep list), len(xs))': [str(a), str(d), str(ln)]}, key=KEY_SIZE)


def directed_programs():
    """Hand-written programs aimed at the clauses of the property (and at the recorded finding)."""
    from ..lang import Func, Node, Program
    V = lambda x: Node('var', x)            # noqa: E731
    L = lambda q: Node('num', N.fin(q))     # noqa: E731
    PVn = lambda x: Node('pvar', x)         # noqa: E731
    params = ['x', 'y', 'n', 'xs', 'ys']
    out = []
    # the recorded finding: a literal / len() zero in a +-0 tie
    body = [Node('return', Node('tuple', [
        Node('min', [L(0), V('x')]), Node('min', [V('x'), L(0)]), Node('max', [L(0), V('x')]), Node('max', [V('x'), L(0)]),
        Node('min', [Node('len', Node('slice', V('xs'), L(1), L(1))), V('x'), V('y')]),
        Node('amax', Node('list', [V('x'), L(0)]))]))]
    out.append(('minmax-literal-zero', Program([Func('main', params, None, body)]), KEY_MINMAX,
                [([N.of(-0.0), N.of(0.0), N.of(1), [N.of(1), N.of(2)], [N.of(1)]], None),
                 ([N.of(0.0), N.of(-0.0), N.of(1), [N.of(1), N.of(2)], [N.of(1)]], CtxSpec('MPFloat', p=3)),
                 ([N.of(1.5), N.of(-2), N.of(1), [N.of(1), N.of(2)], [N.of(1)]], None)]))
    # copysign with a NaN sign operand: -1 under REAL (exact sign transfer), +1 under every rounding context (MPFR path drops the sign)
    body = [Node('assign', PVn('a'), Node('op2', 'copysign', L(1), V('x'))),
            Node('with', None, Node('ctxval', 'fp.REAL', CtxSpec('REAL')), [Node('assign', PVn('b'), Node('op2', 'copysign', L(1), V('x')))]),
            Node('return', Node('tuple', [V('a'), V('b'), Node('op2', 'copysign', V('y'), V('x'))]))]
    out.append(('copysign-nan-sign', Program([Func('main', params, None, body)]), KEY_COPYSIGN,
                [([N.nan(True), N.of(2.5), N.of(1), [N.of(1)], [N.of(1)]], None),
                 ([N.nan(True), N.of(-3), N.of(1), [N.of(1)], [N.of(1)]], CtxSpec('MPFloat', p=3)),
                 ([N.nan(False), N.of(-3), N.of(1), [N.of(1)], [N.of(1)]], None)]))
    # the same ties with Float zeros only: documented behaviour, no finding
    body = [Node('assign', PVn('z'), Node('op1', 'round', L(0))),
            Node('return', Node('tuple', [Node('min', [V('z'), V('x')]), Node('min', [V('x'), V('z')]),
                                          Node('max', [V('z'), V('x')]), Node('max', [V('x'), V('z')]),
                                          Node('amin', V('xs')), Node('amax', V('xs'))]))]
    out.append(('minmax-float-zero', Program([Func('main', params, None, body)]), None,
                [([N.of(-0.0), N.of(0.0), N.of(1), [N.of(0.0), N.of(-0.0)], [N.of(1)]], None),
                 ([N.of(0.0), N.of(-0.0), N.of(1), [N.of(-0.0), N.of(0.0), N.of(float('nan'))], [N.of(1)]], None)]))
    # size / dim: documented as exact integer counts; the implementation rounds them under the active context.
    # The model follows the implementation here (theorem C04_size_exact_refuted); `check_exact_counts` states the property.
    deep = Node('list', [Node('list', [Node('list', [Node('list', [Node('list', [V('x')])])])])])
    body = [Node('with', None, Node('ctor', 'MPFloat', 'RNE', None, [L(2)]), [
                Node('assign', PVn('a'), Node('size', V('xs'), L(0))),
                Node('assign', PVn('d'), Node('dim', deep)),
                Node('assign', PVn('l'), Node('len', V('xs')))]),
            Node('return', Node('tuple', [V('a'), V('d'), V('l')]))]
    out.append(('size-dim-exact', Program([Func('main', params, None, body)]), None,
                [([N.of(1), N.of(1), N.of(1), [N.of(k) for k in range(5)], [N.of(1)]], None),
                 ([N.of(1), N.of(1), N.of(1), [N.of(k) for k in range(7)], [N.of(1)]], CtxSpec('MPFloat', p=3))]))
    # enumerate / range indices are exact integers whatever the active context can represent
    body = [Node('with', None, Node('ctor', 'MPFloat', 'RNE', None, [L(2)]), [
                Node('assign', PVn('ps'), Node('enumerate', V('xs'))),
                Node('assign', PVn('rs'), Node('range', [Node('len', V('xs'))]))]),
            Node('with', None, Node('ctor', 'MPFixed', 'RTZ', None, [L(1)]), [
                Node('assign', PVn('qs'), Node('enumerate', V('ys'))),
                Node('assign', PVn('acc'), L(0)),
                Node('for', Node('ptuple', [PVn('i'), PVn('v')]), Node('enumerate', V('xs')),
                     [Node('with', None, Node('ctxval', 'fp.REAL', CtxSpec('REAL')),
                           [Node('assign', PVn('acc'), Node('op2', 'add', V('acc'), V('i')))])])]),
            Node('return', Node('tuple', [V('ps'), V('rs'), V('qs'), V('acc')]))]
    out.append(('enumerate-exact-indices', Program([Func('main', params, None, body)]), None,
                [([N.of(1), N.of(1), N.of(1), [N.of(k + 0.5) for k in range(7)], [N.of(3), N.of(4), N.of(5), N.of(6)]], None),
                 ([N.of(1), N.of(1), N.of(1), [N.of(k) for k in range(10)], [N.of(1), N.of(2)]], CtxSpec('MPFloat', p=2)),
                 ([N.of(1), N.of(1), N.of(1), [N.of(2)], []], CtxSpec('MPFixed', nmin=2))]))
    # strict helpers: one offending access per program, so the exception class is the observed outcome
    base_args = [([N.of(1), N.of(2), N.of(k), [N.of(1.5), N.of(-2), N.of(0.1), N.of(7)], [N.of(3), N.of(4)]], None) for k in (1, 2, 3)]
    strict = {
        'neg-index-literal': Node('ref', V('xs'), L(-1)),
        'neg-index-computed': Node('ref', V('xs'), Node('op2', 'sub', V('n'), L(2))),
        'index-past-end': Node('ref', V('xs'), Node('op2', 'add', V('n'), L(2))),
        'index-fractional': Node('ref', V('xs'), Node('op2', 'div', V('n'), L(2))),
        'slice-stop-past-end': Node('slice', V('xs'), L(1), Node('op2', 'add', V('n'), L(2))),
        'slice-start-gt-stop': Node('slice', V('xs'), L(2), V('n')),
        'slice-negative-start': Node('slice', V('xs'), Node('op2', 'sub', V('n'), L(2)), None),
        'zip-ragged': Node('zip', [V('xs'), V('ys'), Node('range', [Node('op2', 'add', V('n'), L(1))])]),
        'range-fractional': Node('range', [Node('op2', 'div', V('n'), L(2))]),
        'min-empty': Node('amin', Node('slice', V('xs'), V('n'), L(2))),
        'mutate-neg-index': None,
    }
    for nm, e in strict.items():
        if e is None:
            body = [Node('iassign', 'xs', [Node('op2', 'sub', V('n'), L(2))], V('x')), Node('return', V('xs'))]
        else:
            body = [Node('assign', PVn('r'), e), Node('return', Node('tuple', [V('r'), V('xs')]))]
        out.append(('strict:' + nm, Program([Func('main', params, None, body)]), None, base_args))
    # a context leaking past its block on an early return from nested loops, then used again by the caller
    c2 = Node('ctor', 'MPFloat', 'RNE', None, [L(2)])
    helper = Func('scan', ['zs', 't'], None, [
        Node('for', PVn('a'), V('zs'), [Node('for', PVn('b'), V('zs'), [Node('with', None, c2, [
            Node('if1', Node('cmp', ['>'], [Node('op2', 'add', V('a'), V('b')), V('t')]), [Node('return', Node('op2', 'mul', V('a'), V('b')))])])])]),
        Node('return', Node('op2', 'add', V('t'), L(F(1, 10))))])
    body = [Node('assign', PVn('r'), Node('call', 'scan', [V('xs'), V('x')])),
            Node('assign', PVn('u'), Node('op2', 'add', V('y'), L(F(1, 10)))),
            Node('with', 'c', Node('ctor', 'MPFloat', 'RTZ', None, [Node('op2', 'add', V('n'), L(4))]), [
                Node('assign', PVn('w'), Node('op2', 'div', V('y'), L(3))),
                Node('with', None, Node('ctxval', 'fp.REAL', CtxSpec('REAL')), [Node('assign', PVn('e'), Node('op2', 'div', V('y'), L(3)))]),
                Node('assign', PVn('w2'), Node('op2', 'div', V('y'), L(3)))]),
            Node('assign', PVn('v'), Node('op2', 'div', V('y'), L(3))),
            Node('return', Node('tuple', [V('r'), V('u'), V('w'), V('e'), V('w2'), V('v'), V('c')]))]
    out.append(('early-return-nested', Program([helper, Func('main', params, None, body)]), None,
                [([N.of(1.7), N.of(0.1), N.of(k), [N.of(1), N.of(3.14159), N.of(5)], [N.of(1)]], c)
                 for k in (1, 2, 3) for c in (None, CtxSpec('MPFloat', p=2), CtxSpec('IEEE', es=3, nbits=7))]))
    return out


def run(ck):
    import fpy2  # noqa: F401 -- from $FPY_REPO
    thorough = ck.tier == 'thorough'
    ck.trusted += [
        'Coq 8.16.1 kernel (coqc); vm_compute evaluates the model on the correspondence cases; no native_compute',
        'hand-written Gallina model of the documented semantics (coq/Lang/Sem.v) and of the compile scheme (coq/Lang/Compile.v); tied to /repo by differential execution, not by translation',
        'number instance coq/Lang/NumInst2.v = Num/Arith.v `arith` + Num/Ctx.v `ctx_round` (the proved model of C01/C02, all context families) for dyadic operands; exact rational arithmetic of NumInst.v + round-to-odd `rto_of_q` + `ctx_round` for non-dyadic (Fraction) operands',
        'harness/lang.py printers (program -> FPy source and Coq term; fpy2 AST -> Coq term; values -> Coq terms) and harness/langgen.py generator',
        'statement-skeleton printer of the emitted Python AST (c04.emitted_skeleton) vs `skeleton` of coq/Lang/Compile.v: ties the compile scheme the theorems speak about to the code BytecodeCompiler emits (expressions abstracted)',
        'CPython executing the Python AST emitted by BytecodeCompiler',
    ]
    ck.assumptions += ['well-typed programs only (where Python would fall back on truthiness / duck typing the model says TypeError)',
                       'elementary functions excluded from generated programs (C03)']
    ok, _ = ck.build_static(['Props/C04.v', 'Cases/C04Cases.v'])
    if ok:
        import re
        from ..common import COQ, strip_comments
        names = re.findall(r'Print Assumptions\s+([A-Za-z0-9_\'.]+)\s*\.', strip_comments((COQ / 'Props/C04.v').read_text()))
        # every C04 theorem is about Z / lists / strings only: expected axiom-free
        ck.props('Props/C04.v', closed=tuple(names))

    gen_tables(ck)

    from fractions import Fraction
    globals()['F'] = Fraction
    rng = Rng(ck.seed, 'c04')
    nprog = 2500 if thorough else 300
    nargs = 6 if thorough else 4
    cases, info = [], []
    rejected = 0
    t0 = time.time()
    only = None
    if ck.replay:
        import json
        rp = json.loads(open(ck.replay).read())
        only = (rp.get('replay') or {}).get('program_tag')
        ck.seed = rp.get('seed', ck.seed)
        ck.log(f'replaying {only} (seed {ck.seed})')

    def add_case(tag, case, metas, prog, fn, runs_in, key, malformed, skel):
        cases.append(case)
        info.append({'tag': tag, 'prog': prog, 'metas': metas, 'fn': fn, 'runs_in': runs_in, 'key': key, 'malformed': malformed, 'skel': skel})

    for di, (name, prog, key, runs_in) in enumerate(directed_programs()):
        if only and only != 'directed:' + name:
            continue
        r = load_case(ck, di, prog, f'c04_directed_{di:02d}')
        if r[0] != 'ok':
            ck.broken.append(f'directed program {name}: {r[0]}: {r[1]}')
            continue
        _, fn, same, terms, skel = r
        if not same:
            ck.violation('the AST built by the real parser/decorator differs from the program text (directed program)',
                         {'program': prog.source(), 'generated': terms[1], 'parsed': terms[0]})
        runs, metas = run_program(ck, fn, runs_in)
        if name == 'size-dim-exact':
            check_exact_counts(ck, fn, runs_in, prog)
        ck.count('directed:' + name)
        ck.nontriv(('directed', name))
        add_case('directed:' + name, f'({prog.coq()}, "main", {clist(runs)}, {skel})', metas, prog, fn, runs_in, key, False, skel)

    for idx in range(nprog):
        if only and only != f'random:{idx}':
            continue
        malformed = (idx % 8 == 7)
        r = make_case(ck, idx, Rng(ck.seed, f'c04-{idx}'), malformed, nargs)
        if r[0] != 'ok':
            rejected += 1
            ck.count('generator:' + r[0])
            if rejected <= 3:
                ck.log(f'program {idx} {r[0]}: {r[1]}')
                ck.log(r[2].source())
            continue
        _, case, metas, prog, same, feats, terms, fn, runs_in, skel = r
        if not same:
            ck.violation('the AST built by the real parser/decorator differs from the program text that was generated '
                         '(operator or node mapped to a different construct)',
                         {'program': prog.source(), 'generated_term': terms[1], 'parsed_term': terms[0]})
        for f in feats:
            ck.count('feature:' + f)
        ck.nontriv(('prog', idx))
        add_case(f'random:{idx}', case, metas, prog, fn, runs_in, None, malformed, skel)
    ck.log(f'{len(cases)} programs generated and run on fpy2 in {time.time() - t0:.1f}s ({rejected} rejected)')
    if rejected > nprog // 20:
        ck.broken.append(f'generator: {rejected} of {nprog} generated programs were rejected by the fpy2 front end')
    for c in cases[3:5]:
        ck.sample(c[:1500])
    ck.rule = ('generated typed programs (nested/sequential with incl. computed constructor arguments, early returns in with in loops, '
               'helpers with/without declared context, list aliasing/mutation incl. through callees, slices, multi-generator comprehensions, '
               'zip/enumerate/range, reductions, chained comparisons; 1 in 8 malformed) x argument tuples incl. specials and unrepresentable '
               'values x {no caller ctx, one of 3 small contexts}, plus directed programs; non-trivial = distinct programs')
    bad, err = ck.coq_eval_mismatches(HEADER, 'case4', cases, 'check4', chunk=max(4, (len(cases) + 15) // 16), timeout=1500)
    if err:
        ck.broken.append('correspondence evaluation failed: ' + err[:600])
    if bad:
        ck.log(f'{len(bad)} programs disagree with the model')
        # classify (at most 40 programs; directed ones first): does the disagreement disappear when ONLY the
        # recorded min/max tie-break defect is corrected?
        cls = sorted(bad, key=lambda i: (info[i]['key'] is None, i))[:40]
        found, remaining, err2 = {}, list(cls), None
        for pkey, patch in PATCHES:
            # a directed program aimed at one finding is only tried against that finding's patch
            cand = [i for i in remaining if info[i]['key'] in (None, pkey)]
            if not cand:
                continue
            retry = []
            with patch():
                for i in cand:
                    runs, _ = run_program(ck, info[i]['fn'], info[i]['runs_in'], count=False)
                    retry.append(f'({info[i]["prog"].coq()}, "main", {clist(runs)}, {info[i]["skel"]})')
            still, e2 = ck.coq_eval_mismatches(HEADER, 'case4', retry, 'check4', chunk=max(1, (len(retry) + 15) // 16),
                                               timeout=1500, tag='retry_' + pkey.replace('-', '_'))
            if e2:
                err2 = e2
                ck.broken.append('classification run failed: ' + e2[:400])
                break
            stillset = {cand[j] for j in still} | {i for i in remaining if i not in cand}
            for i in cand:
                if i not in stillset:
                    found[i] = pkey
            remaining = [i for i in remaining if i in stillset]
        ndiag = 0
        for i in bad:
            it = info[i]
            key = found.get(i) if not err2 else None
            if it['key'] is not None and key != it['key']:
                key = None
            out = ''
            if key is None and ndiag < 4:
                ndiag += 1
                out = ck.coq_eval_raw(HEADER, f'let c := {cases[i]} in (bad_runs4 c, models4 c, bad_skels4 c)',
                                      name='diag_' + it['tag'].replace(':', '_'), timeout=600)
            ck.violation('fpy2 and the model of the documented semantics disagree on a program'
                         + (f' (the disagreement disappears when only the recorded defect `{key}` is corrected)' if key else ''),
                         {'program_tag': it['tag'], 'program': it['prog'].source(), 'runs': it['metas'], 'emitted_skeletons': it['skel'],
                          'model_says(bad run indices, model results, functions whose emitted statement scheme differs + expected scheme)': out[-3000:],
                          'malformed_stream': it['malformed']}, key=key)
    # the recorded finding must still be observable through the directed program (otherwise the record is stale)
    for i, it in enumerate(info):
        if it['key'] is not None and i not in bad:
            ck.log(f'note: directed program {it["tag"]} agrees with the model — finding {it["key"]} does not reproduce on this tree')
