"""C04 — programs evaluate by the documented context-scoped semantics.

Proof: coq/Lang/{Sem,SemProps,SemMono,PyIR,Compile,CompileProofs,Helpers}.v, statements in
coq/Props/C04.v.  Ties: (A) the parser's and the bytecode compiler's operator tables are
regenerated from /repo on every run and proved (vm_compute) to compose to the like-named
operation; (B) correspondence — generated programs are written as real source files,
decorated by fpy2 (parser inside the loop), executed by fpy2 and by the Gallina evaluator
`run` (vm_compute inside Coq) on the same arguments / caller contexts; the generator's
Coq term is also compared with the term exported from the AST the real parser produced.
"""
import signal
import time

from ..common import Rng
from .. import lang
from ..lang import COQ_HEADER, CtxSpec, N, clist, cval_of_py, py_of_arg, res_of_call
from ..langgen import ProgGen, small_ctx

MANIFEST = {
    'text': 'Coq model of the documented FPy semantics (fuel-indexed big-step evaluator with the rounding context as a '
            'lexically scoped parameter, store-based list sharing, strict helpers) with theorems on context scoping / '
            'restoration for the save-try-finally compile scheme, callee context rule, exact constructor arguments, no '
            'entry rounding and the runtime helpers; operator tables regenerated from /repo and proved to compose; tied to '
            '/repo by running generated programs (source text through the real parser) on fpy2 and on the model.',
    'technique': 'machine-checked proof in Coq + regenerated operator tables (vm_compute) + model/implementation correspondence by vm_compute',
}

HEADER = COQ_HEADER + 'From FpyV Require Import Num.Out Cases.C04Cases.\n'


class _Timeout(Exception):
    pass


def _alarm(signum, frame):
    raise _Timeout()


def call_with_timeout(thunk, seconds=10):
    old = signal.signal(signal.SIGALRM, _alarm)
    signal.alarm(seconds)
    try:
        return res_of_call(thunk)
    except _Timeout:
        return 'RFuel'
    finally:
        signal.alarm(0)
        signal.signal(signal.SIGALRM, old)


def make_case(ck, idx, rng, malformed, nargs, built):
    """Generate program #idx, load it, run it; returns (case_term, runs_meta, prog, info) or None if rejected."""
    g = ProgGen(rng, malformed=malformed)
    prog, sig = g.program()
    modname = f'c04_prog_{idx:05d}'
    try:
        mod = prog.load(ck.dir / 'progs', modname)
    except Exception as e:  # noqa: BLE001
        return ('rejected', f'{type(e).__name__}: {str(e)[:300]}', prog)
    fn = mod.main
    # the parser is inside the loop: the AST it built must export to the generator's own term
    try:
        exported = {f.name: f.coq() for f in lang.export_program(fn).funcs}
    except lang.Unsupported as e:
        return ('export-failed', str(e), prog)
    term = prog.coq()
    mine = {f.name: f.coq() for f in prog.funcs}
    same = all(mine.get(k) == v for k, v in exported.items()) and 'main' in exported
    callers = [small_ctx(rng) for _ in range(3)]
    runs, metas = [], []
    for j in range(nargs):
        args = g.args(sig, p_special=(0.0 if j == 0 else 0.25))
        for caller in (None, callers[j % 3]):
            def thunk(args=args, caller=caller):
                pa = [py_of_arg(a) for a in args]
                if caller is None:
                    return fn(*pa)
                return fn(*pa, ctx=caller.obj())
            got = call_with_timeout(thunk)
            cargs = clist(cval_of_py(a) for a in args)
            cc = 'None' if caller is None else f'(Some {caller.coq()})'
            runs.append(f'({cargs}, {cc}, {got})')
            metas.append({'args': [repr(a) for a in args], 'caller': None if caller is None else caller.py(), 'observed': got})
            ck.evaluations += 1
            ck.count('outcome:' + got.split(' ')[0].strip('()'))
            ck.count('caller:' + ('none' if caller is None else caller.kind))
    case = f'({term}, "main", {clist(runs)})'
    return ('ok', case, metas, prog, same, g.features, (exported, mine))


def run(ck):
    import fpy2  # noqa: F401 -- from $FPY_REPO
    thorough = ck.tier == 'thorough'
    ck.trusted += [
        'Coq 8.16.1 kernel (coqc); vm_compute evaluates the model on the correspondence cases; no native_compute',
        'hand-written Gallina model of the documented semantics (coq/Lang/Sem.v) and of the compile scheme (coq/Lang/Compile.v); tied to /repo by differential execution, not by translation',
        'provisional number instance coq/Lang/NumInst.v (exact rational arithmetic + rf_round of Num/RealFloat.v) for REAL / MPFloat / MPSFloat / IEEE contexts; correct rounding itself is C01/C02',
        'harness/lang.py printers (program -> FPy source and Coq term; fpy2 AST -> Coq term; values -> Coq terms) and harness/langgen.py generator',
        'CPython executing the Python AST emitted by BytecodeCompiler',
    ]
    ck.assumptions += ['well-typed programs only (where Python would fall back on truthiness / duck typing the model says TypeError)',
                       'elementary functions excluded from generated programs (C03)']
    ok, _ = ck.build_static(['Props/C04.v', 'Cases/C04Cases.v'])
    if ok:
        ck.props('Props/C04.v')

    rng = Rng(ck.seed, 'c04')
    nprog = 2500 if thorough else 340
    nargs = 6 if thorough else 4
    cases, info = [], []
    rejected = 0
    t0 = time.time()
    for idx in range(nprog):
        malformed = (idx % 8 == 7)
        r = make_case(ck, idx, Rng(ck.seed, f'c04-{idx}'), malformed, nargs, None)
        if r[0] != 'ok':
            rejected += 1
            ck.count('generator:' + r[0])
            if rejected <= 3:
                ck.log(f'program {idx} {r[0]}: {r[1]}')
                ck.log(r[2].source())
            continue
        _, case, metas, prog, same, feats, terms = r
        if not same:
            ck.violation('the AST built by the real parser/decorator differs from the program text that was generated '
                         '(operator or node mapped to a different construct)',
                         {'program': prog.source(), 'generated_term': terms[1], 'parsed_term': terms[0]})
        for f in feats:
            ck.count('feature:' + f)
        ck.nontriv(('prog', idx))
        cases.append(case)
        info.append((idx, prog, metas, malformed))
    ck.log(f'{len(cases)} programs generated and run on fpy2 in {time.time() - t0:.1f}s ({rejected} rejected)')
    if rejected > nprog // 20:
        ck.broken.append(f'generator: {rejected} of {nprog} generated programs were rejected by the fpy2 front end')
    for c in cases[:2]:
        ck.sample(c[:1500])
    ck.rule = ('generated typed programs (nested/sequential with incl. computed constructor arguments, early returns in with in loops, '
               'helpers with/without declared context, list aliasing/mutation incl. through callees, slices, multi-generator comprehensions, '
               'zip/enumerate/range, reductions, chained comparisons; 1 in 8 malformed) x argument tuples incl. specials and unrepresentable '
               'values x {no caller ctx, one of 3 small contexts}; non-trivial = distinct programs')
    bad, err = ck.coq_eval_mismatches(HEADER, 'case4', cases, 'check4', chunk=max(4, len(cases) // 48 + 1), timeout=1500)
    if err:
        ck.broken.append('correspondence evaluation failed: ' + err[:600])
    for i in bad:
        idx, prog, metas, malformed = info[i]
        # which runs disagree, and what the model says
        out = ck.coq_eval_raw(HEADER, f'let c := {cases[i]} in (bad_runs4 c, map (model4 (fst (fst c)) (snd (fst c))) (snd c))',
                              name=f'diag_{idx:05d}', timeout=600)
        ck.violation('fpy2 and the model of the documented semantics disagree on a generated program',
                     {'program_index': idx, 'program': prog.source(), 'runs': metas, 'model_says': out[-3000:],
                      'malformed_stream': malformed})
