"""C15 — an accepted program never reads an unbound name or falls off its end.

Proof: coq/Lang/DefinedProofs.v (statements in coq/Props/C15.v) about the
Gallina model (coq/Lang/Defined.v) of analysis/syntax_check.py (`_Env`,
`merge`, the `_visit_*` rules), analysis/reachability.py and the decorator's
verdict, and a big-step semantics whose branch outcomes and trip counts are
chosen by an arbitrary oracle.

Tie (every run, on fpy2 from $FPY_REPO): exhaustive.  Every program text up to
the size bound, built from assignments, tuple patterns, if/else, one-armed if,
for, while, with-as, comprehensions, returns and pass over the names u, v and
the parameters, is written to a real module file and handed to the real
`@fp.fpy`; the verdict (accepted / FPySyntaxError / ReachabilityError) must
equal the model's `accept` EXACTLY (decided inside Coq).  Every accepted
program is then called on inputs steering every combination of branch outcomes
(both truth values) and trip counts (0, 1, 2) and must not fail with an
unbound name or fall off its end.

Besides the generic enumeration two exhaustive families are run: programs over
comprehension atoms whose iterable mentions its own / a later / an earlier
target (several generators, tuple targets), and two-level if/else nests whose
arms return, define or fall through, followed by a use, at top level and
inside `for` / `while` bodies (what ReachingDefs/DefineUse must agree on).

Known finding (`for_target_defined_after_loop`): `_visit_for` leaves the loop
target defined after the loop; the model has both the coded and the repaired
rule (`accept` / `accept_fixed`), so the check passes on the unchanged tree
(with a KNOWN-FINDING line) and on a tree carrying fixes/C15-for-target-scope.diff.
"""
import importlib
import itertools
import multiprocessing
import os
import re
import sys
import traceback

from ..common import REPO, cb

MANIFEST = {
    'text': 'Coq proof (axiom-free) about a model of syntax_check (_Env/merge/_visit_* rules) + reachability + the decorator verdict: '
            'with the repaired for-rule, an accepted program never reads an unbound name or falls off its end for any branch outcomes '
            'and trip counts (zero-trip loops, untaken ifs), and names introduced only inside a loop/branch and loop targets are not '
            'defined afterwards; for fpy2 as coded the same statements are refuted by `for x in xs: pass; return x` (witness proved, '
            'known finding, fix proposed) and proved for every program outside that arm. Tied to /repo by exhaustive enumeration of all '
            'small program texts through the real @fp.fpy (verdict must equal the model exactly) and by executing every accepted program '
            'on inputs covering all branch/trip-count combinations.',
    'technique': 'machine-checked proof in Coq + exhaustive model/implementation verdict equality by vm_compute + exhaustive path execution',
}

HEADER = ('From Coq Require Import List Bool Arith NArith.\n'
          'From FpyV Require Import Lang.Defined Cases.C15Cases.\n'
          'Import ListNotations.\n'
          '(* abbreviations of the program printer (harness/props/c15.py, Render) *)\n'
          'Definition cnd (p : name) : expr := EOp (EVar p) EConst.            (* p > 0 *)\n'
          'Definition If1 p b := SIf1 (cnd p) b.\n'
          'Definition IfE p a b := SIf (cnd p) a b.\n'
          'Definition Wh p b := SWhile (cnd p) (SAssign [p] (EOp (EVar p) EConst) :: b).   (* while p > 0: p = p - 1; b *)\n'
          'Definition Fo t p b := SFor [t] (EVar p) b.\n'
          'Definition Wi t b := SWith t EConst b.\n'
          'ATOMDEFS')

KEY = 'for_target_defined_after_loop'
KEY_RD = 'reaching_defs_drops_names_after_half_returning_if'
KEY_COMP = 'comprehension_later_iterable_reads_own_target'
# atoms in which an iterable other than the first reads a name that is a target of its own or a later generator
COMP_CLASS = ('c_two',)

U, V, P, W = 1, 2, 3, 4    # names: locals u, v; the shared list parameter p; the list local w
FIRST_PARAM = 10           # b1.. / l1.. / n1.. get ids from here

FULL = ['u=0', 'v=0', 'u=v', 'v=u', 'u=u', 'uv=01', 'uv=vu', 'ret u', 'ret v', 'ret 0', 'pass',
        'c_uvv', 'c_vuu', 'c_uuv', 'c_vvu']
SMALL = ['u=0', 'v=u', 'ret u', 'ret v', 'ret 0']
NAME = {U: 'u', V: 'v', W: 'w'}

# atom -> (python text, Coq statement, uses the list parameter p)
ATOMS = {
    'u=0': ('u = 0', f'SAssign [{U}] EConst', False),
    'v=0': ('v = 0', f'SAssign [{V}] EConst', False),
    'u=v': ('u = v', f'SAssign [{U}] (EVar {V})', False),
    'v=u': ('v = u', f'SAssign [{V}] (EVar {U})', False),
    'u=u': ('u = u', f'SAssign [{U}] (EVar {U})', False),
    'uv=01': ('u, v = 0, 1', f'SAssign [{U}; {V}] (EOp EConst EConst)', False),
    'uv=vu': ('u, v = v, u', f'SAssign [{U}; {V}] (EOp (EVar {V}) (EVar {U}))', False),
    'ret u': ('return u', f'SReturn (EVar {U})', False),
    'ret v': ('return v', f'SReturn (EVar {V})', False),
    'ret 0': ('return 0', 'SReturn EConst', False),
    'pass': ('pass', 'SPass', False),
    'c_uvv': ('u = sum([v for v in p])', f'SAssign [{U}] (EComp [{V}] (EVar {P}) (EVar {V}))', True),
    'c_vuu': ('v = sum([u for u in p])', f'SAssign [{V}] (EComp [{U}] (EVar {P}) (EVar {U}))', True),
    'c_uuv': ('u = sum([v for u in p])', f'SAssign [{U}] (EComp [{U}] (EVar {P}) (EVar {V}))', True),
    'c_vvu': ('v = sum([u for v in p])', f'SAssign [{V}] (EComp [{V}] (EVar {P}) (EVar {U}))', True),
    # a generator's iterable is checked BEFORE its own target is bound (several generators = nested EComp)
    'c_own': ('u = sum([v for v in range(v)])', f'SAssign [{U}] (EComp [{V}] (EVar {V}) (EVar {V}))', False),
    'c_two': ('u = sum([v for v in p for u in range(u)])',
              f'SAssign [{U}] (EComp [{V}] (EVar {P}) (EComp [{U}] (EVar {U}) (EVar {V})))', True),
    'c_tup': ('u = sum([u + v for (u, v) in [(1, v), (2, 3)]])',
              f'SAssign [{U}] (EComp [{U}; {V}] (EOp EConst (EVar {V})) (EOp (EVar {U}) (EVar {V})))', False),
    'c_dep': ('u = sum([u + v for u in p for v in range(u)])',
              f'SAssign [{U}] (EComp [{U}] (EVar {P}) (EComp [{V}] (EVar {U}) (EOp (EVar {U}) (EVar {V}))))', True),
    'c_late': ('u = sum([u + v for u in range(v) for v in p])',
               f'SAssign [{U}] (EComp [{U}] (EVar {V}) (EComp [{V}] (EVar {P}) (EOp (EVar {U}) (EVar {V}))))', True),
}
# every statement form that reads names without binding any: an indexed assignment reads the list
# it stores into (syntax_check._visit_indexed_assign: _mark_use(stmt.var); the env is unchanged), an
# assert reads its test - both are `SEffect` of the model
ATOMS.update({
    'w=l': ('w = [[0, 0], [0, 0]]', f'SAssign [{W}] EConst', False),
    'w[0]=l': ('w[0] = [0, 0]', f'SEffect (EOp (EVar {W}) EConst)', False),
    'w[1][0]=u': ('w[1][0] = u', f'SEffect (EOp (EVar {W}) (EVar {U}))', False),
    'assert u': ('assert u >= 0', f'SEffect (EOp (EVar {U}) EConst)', False),
    'assert w': ('assert w[0][0] >= 0', f'SEffect (EOp (EVar {W}) EConst)', False),
    'u=w': ('u = w[0][0]', f'SAssign [{U}] (EOp (EVar {W}) EConst)', False),
    'ret w': ('return w[0][0]', f'SReturn (EOp (EVar {W}) EConst)', False),
})
STMTSET = ['u=0', 'ret 0', 'ret u', 'w=l', 'w[0]=l', 'w[1][0]=u', 'assert u', 'assert w', 'u=w', 'ret w']
COMPSET = ['u=0', 'v=0', 'ret u', 'ret v', 'c_own', 'c_two', 'c_tup', 'c_dep', 'c_late']
ATOM_ID = {a: f'a{n}' for n, a in enumerate(ATOMS)}   # (ATOMS is complete here)
HEADER = HEADER.replace('ATOMDEFS', ''.join(f'Definition {ATOM_ID[a]} := {ATOMS[a][1]}.\n' for a in ATOMS))
SWAP_ATOM = {'u=0': 'v=0', 'v=0': 'u=0', 'u=v': 'v=u', 'v=u': 'u=v', 'ret u': 'ret v', 'ret v': 'ret u',
             'c_uvv': 'c_vuu', 'c_vuu': 'c_uvv', 'c_uuv': 'c_vvu', 'c_vvu': 'c_uuv', 'ret 0': 'ret 0', 'pass': 'pass'}


# ---------------------------------------------------------------- enumeration
def compositions(n):
    if n == 0:
        yield ()
        return
    for k in range(1, n + 1):
        for rest in compositions(n - k):
            yield (k,) + rest


def stmts(k, depth, atoms, withs, memo):
    key = ('s', k, depth)
    if key in memo:
        return memo[key]
    out = []
    if k == 1:
        out = [('atom', a) for a in atoms]
    elif depth > 1:
        for body in blocks(k - 1, depth - 1, atoms, withs, memo):
            out.append(('if1', body))
            out.append(('while', body))
            for tg in memo.get('targets', (U, V)):
                out.append(('for', tg, body))
            for w in withs:
                out.append(('with', w, body))
        for a in range(1, k - 1):
            for x in blocks(a, depth - 1, atoms, withs, memo):
                for y in blocks(k - 1 - a, depth - 1, atoms, withs, memo):
                    out.append(('if', x, y))
    memo[key] = out
    return out


def blocks(n, depth, atoms, withs, memo):
    key = ('b', n, depth)
    if key in memo:
        return memo[key]
    out = []
    for comp in compositions(n):
        for combo in itertools.product(*[stmts(k, depth, atoms, withs, memo) for k in comp]):
            out.append(tuple(combo))
    memo[key] = out
    return out


def always_returns(b):
    """Every path through the block ends in a return (syntactically)."""
    if not b:
        return False
    s = b[-1]
    if s[0] == 'atom':
        return s[1].startswith('ret')
    if s[0] == 'if':
        return always_returns(s[1]) and always_returns(s[2])
    if s[0] == 'with':
        return always_returns(s[2])
    return False


def has_half_returning_if(b):
    """Some if/else has exactly one arm that always returns."""
    for s in b:
        if s[0] == 'if':
            if always_returns(s[1]) != always_returns(s[2]) or has_half_returning_if(s[1]) or has_half_returning_if(s[2]):
                return True
        elif s[0] in ('if1', 'while'):
            if has_half_returning_if(s[1]):
                return True
        elif s[0] in ('for', 'with'):
            if has_half_returning_if(s[2]):
                return True
    return False


def contains_atom(b, atoms):
    for s in b:
        if s[0] == 'atom':
            if s[1] in atoms:
                return True
        elif any(contains_atom(x, atoms) for x in s[1:] if isinstance(x, tuple)):
            return True
    return False


def nest_family():
    """If/else nests (two levels) whose arms return, define u, or fall through,
    followed by a use of u - at top level and inside a `for` / `while` body.
    What is defined after a join depends on which arms always return, at every
    level; every accepted member is executed on all branch combinations."""
    arm0 = [(('atom', 'ret 0'),), (('atom', 'u=0'),), (('atom', 'pass'),)]
    arms1 = arm0 + [(('if', a, b),) for a in arm0 for b in arm0]
    out = []
    for a in arms1:
        for b in arms1:
            nest = ('if', a, b)
            out.append((nest, ('atom', 'ret u')))
            out.append((nest, ('atom', 'ret 0')))
            out.append((('for', V, (nest, ('atom', 'v=u'))), ('atom', 'ret 0')))
            out.append((('atom', 'v=0'), ('while', (nest, ('atom', 'v=u'))), ('atom', 'ret v')))
    return out


def swap(b):
    """The program with u and v exchanged, or None if it leaves the language."""
    out = []
    for s in b:
        if s[0] == 'atom':
            if s[1] not in SWAP_ATOM:
                return None
            out.append(('atom', SWAP_ATOM[s[1]]))
        elif s[0] in ('if1', 'while'):
            x = swap(s[1])
            if x is None:
                return None
            out.append((s[0], x))
        elif s[0] in ('for', 'with'):
            x = swap(s[2])
            if x is None:
                return None
            t = {U: V, V: U, None: None}[s[1]]
            out.append((s[0], t, x))
        else:
            x, y = swap(s[1]), swap(s[2])
            if x is None or y is None:
                return None
            out.append(('if', x, y))
    return tuple(out)


class Render:
    """Python text and Coq term of one program; allocates the parameters that
    steer its branches and loops."""

    def __init__(self):
        self.params = []      # (python name, kind, id)
        self.uses_p = False

    def param(self, kind):
        n = len(self.params)
        name = {'if': 'b', 'for': 'l', 'while': 'n'}[kind] + str(n + 1)
        pid = FIRST_PARAM + n
        self.params.append((name, kind, pid))
        return name, pid

    def block(self, b, ind):
        lines, terms = [], []
        pad = '    ' * ind
        for s in b:
            if s[0] == 'atom':
                text, term, uses = ATOMS[s[1]]
                self.uses_p |= uses
                lines.append(pad + text)
                terms.append(ATOM_ID[s[1]])
            elif s[0] == 'if1':
                nm, pid = self.param('if')
                bl, bt = self.block(s[1], ind + 1)
                lines += [f'{pad}if {nm} > 0:'] + bl
                terms.append(f'If1 {pid} {bt}')
            elif s[0] == 'if':
                nm, pid = self.param('if')
                al, at = self.block(s[1], ind + 1)
                bl, bt = self.block(s[2], ind + 1)
                lines += [f'{pad}if {nm} > 0:'] + al + [f'{pad}else:'] + bl
                terms.append(f'IfE {pid} {at} {bt}')
            elif s[0] == 'while':
                nm, pid = self.param('while')
                bl, bt = self.block(s[1], ind + 1)
                # the counter is decremented first, so the body may end in a return
                lines += [f'{pad}while {nm} > 0:', f'{pad}    {nm} = {nm} - 1'] + bl
                terms.append(f'Wh {pid} {bt}')
            elif s[0] == 'for':
                nm, pid = self.param('for')
                bl, bt = self.block(s[2], ind + 1)
                lines += [f'{pad}for {NAME[s[1]]} in {nm}:'] + bl
                terms.append(f'Fo {s[1]} {pid} {bt}')
            else:
                bl, bt = self.block(s[2], ind + 1)
                if s[1] is None:
                    lines += [f'{pad}with fp.REAL:'] + bl
                    terms.append(f'Wi None {bt}')
                else:
                    lines += [f'{pad}with fp.REAL as {NAME[s[1]]}:'] + bl
                    terms.append(f'Wi (Some {s[1]}) {bt}')
        return lines, '[' + '; '.join(terms) + ']'


def render(b):
    r = Render()
    lines, term = r.block(b, 2)
    params = [('p', 'list', P)] + r.params
    sig = ', '.join(f'{n}: list[fp.Real]' if k in ('list', 'for') else f'{n}: fp.Real' for n, k, _ in params)
    ids = '[' + '; '.join(str(i) for _, _, i in params) + ']'
    return lines, sig, params, r.uses_p, ids, term


def program_text(i, lines, sig):
    return '\n'.join(['try:', '    @fp.fpy', f'    def f{i}({sig}):'] + lines +
                     [f'    R[{i}] = \'ok\'', 'except Exception as e:', f'    R[{i}] = type(e).__name__', ''])


# ---------------------------------------------------------------- worker (one process per slice)
NAME_ERRORS = ('KeyError', 'NameError', 'UnboundLocalError')


def input_choices(params, uses_p):
    ch = []
    for n, k, _ in params:
        if k == 'list':
            ch.append([[], [1.0]] if uses_p else [[1.0]])
        elif k == 'if':
            ch.append([0, 1])
        elif k == 'for':
            ch.append([[], [1.0], [1.0, 2.0]])
        else:
            ch.append([0, 1, 2])
    return ch


def work(args):
    """Decorate (and, when accepted, execute) a slice of programs with fpy2."""
    wid, gen_dir, items = args
    try:
        if gen_dir not in sys.path:
            sys.path.insert(0, gen_dir)
        import fpy2  # noqa: F401
        out = []
        per = 100
        for c0 in range(0, len(items), per):
            chunk = items[c0:c0 + per]
            name = f'c15w{wid}_{c0 // per}'
            text = 'import fpy2 as fp\nR = {}\n\n' + '\n'.join(program_text(i, lines, sig) for (i, lines, sig, _, _) in chunk)
            with open(os.path.join(gen_dir, name + '.py'), 'w') as fh:
                fh.write(text)
            importlib.invalidate_caches()
            mod = importlib.import_module(name)
            for (i, lines, sig, params, uses_p) in chunk:
                verdict = mod.R.get(i, 'missing')
                runs, fails, others = 0, [], {}
                if verdict == 'ok':
                    f = getattr(mod, f'f{i}')
                    for combo in itertools.product(*input_choices(params, uses_p)):
                        runs += 1
                        try:
                            res = f(*[list(a) if isinstance(a, list) else a for a in combo])
                            if res is None:
                                fails.append((repr(combo), 'returned None (fell off the end)'))
                        except Exception as e:  # noqa: BLE001
                            nm = type(e).__name__
                            if nm in NAME_ERRORS or 'unbound' in str(e).lower() or 'not defined' in str(e).lower():
                                fails.append((repr(combo), f'{nm}: {e}'))
                            else:
                                others[nm] = others.get(nm, 0) + 1
                out.append((i, verdict, runs, fails[:3], len(fails), others))
            del sys.modules[name]
        return out
    except Exception:  # noqa: BLE001
        return ('crash', traceback.format_exc())


def coq_eval(ck, cases, check_fn, tag, shard=1200, block=100, jobs=8, timeout=1500):
    """`check_fn case = true` decided in Coq for every case; returns the failing
    indices.  Like Check.coq_eval_mismatches, but the case list of a shard is
    split into many small definitions (elaborating one long list literal is
    superlinear in its length)."""
    from ..common import COQ, sh
    names = []
    for si in range(0, len(cases), shard):
        part = cases[si:si + shard]
        name = f'{tag}_{si // shard:04d}'
        text = [HEADER]
        defs = []
        for bi in range(0, len(part), block):
            d = f'blk{bi // block}'
            defs.append(d)
            # indices are binary numbers (a unary `nat` index costs its value to elaborate)
            body = ';\n'.join(f'({si + bi + j}%N, {c})' for j, c in enumerate(part[bi:bi + block]))
            text.append(f'Definition {d} : list (N * case15) := [\n{body}\n].')
        text.append('Definition bad := map fst (filter (fun ic => negb (' + check_fn + ' (snd ic))) (' + ' ++ '.join(defs) + ')).')
        text.append('Eval vm_compute in bad.')
        (ck.dir / f'{name}.v').write_text('\n'.join(text) + '\n')
        names.append(name)
    if not names:
        return [], None
    cmd = (f"xargs -P{jobs} -I{{}} sh -c 'timeout {timeout} coqc -Q {COQ} FpyV -Q . Dyn {{}}.v > {{}}.out 2>&1 || echo FAIL >> {{}}.out'")
    sh(cmd, cwd=ck.dir, input='\n'.join(names), timeout=timeout * (len(names) // jobs + 1) + 60)
    bad, err = [], None
    for name in names:
        out = (ck.dir / f'{name}.out').read_text()
        m = re.search(r'=\s*\[(.*?)\]\s*:\s*list N', out, re.S)
        if 'FAIL' in out or not m:
            err = (err or '') + f'{name}: {out[-500:]}\n'
            continue
        body = m.group(1).strip()
        if body:
            bad += [int(x.replace('%N', '').strip()) for x in body.split(';')]
    ck.checker_cmds.append(f'coqc -Q coq FpyV build/{ck.pid}/{tag}_*.v  # {check_fn} on {len(cases)} cases')
    return sorted(bad), err


# ---------------------------------------------------------------- the check
def guide_says(ck):
    """The sentences of docs/USAGE.md the `guide_rules` theorems formalise."""
    try:
        text = (REPO / 'docs' / 'USAGE.md').read_text()
    except OSError as e:
        ck.broken.append(f'docs/USAGE.md not readable: {e}')
        return
    need = [r'one branch `if` statements: any identifier introduced in the `if` block is not accessible outside the block',
            r'Any identifier introduced in the `for` block is not accessible outside the block',
            r'Any identifier introduced in the `while` block is not accessible outside the block',
            r'# x is not accessible here']
    for s in need:
        if s not in text:
            ck.broken.append('docs/USAGE.md no longer states: ' + s)


def run(ck):
    thorough = ck.tier == 'thorough'
    ck.trusted += [
        'Coq 8.16.1 kernel (coqc); vm_compute for evaluating the model on correspondence cases; no native_compute',
        'hand-written Gallina model of syntax_check.py / reachability.py / the decorator verdict (coq/Lang/Defined.v), '
        'tied to /repo by exhaustive verdict equality on all small programs (harness/props/c15.py + coq/Cases/C15Cases.v)',
        'the semantics in which "unbound" is defined is a model (names only; branch outcomes and trip counts by oracle); its tie to the '
        'interpreter is the execution of every accepted program on inputs covering every branch / trip-count combination',
        'the program printer of the harness (one dataclass tree printed both as Python text and as Coq term)',
    ]
    ck.assumptions += ['model of the checker is hand-written; tie to /repo is the exhaustive verdict comparison below',
                       'the model semantics lets every iterable of a comprehension see the enclosing bindings (what the checker assumes); '
                       'the runtime compiles to a Python comprehension, whose later iterables see the comprehension-local targets instead - '
                       'the divergence is a recorded finding (' + KEY_COMP + '), not covered by the theorems',
                       'expressions are abstracted to the names they read; tuple patterns to the names they bind']
    ok, _ = ck.build_static(['Props/C15.v', 'Cases/C15Cases.v'])
    if ok:
        names = re.findall(r'Print Assumptions\s+([A-Za-z0-9_]+)', (__import__('harness.common', fromlist=['COQ']).COQ / 'Props' / 'C15.v').read_text())
        ck.props('Props/C15.v', closed=tuple(names))
    guide_says(ck)

    # ---- enumerate
    progs = []
    seen = set()

    def add_all(n, atoms, withs, dedupe, targets=(U, V)):
        memo = {'targets': targets}
        for b in blocks(n, 3, atoms, withs, memo):
            if dedupe:
                sb = swap(b)
                if sb is not None:
                    k = min(repr(b), repr(sb))
                    if k in seen:
                        continue
                    seen.add(k)
            progs.append(b)
            ck.count(f'programs-with-{n}-statements')

    full_n = 4 if thorough else 3
    if os.environ.get('C15_FULL_N'):      # debugging aid: a smaller bound
        full_n = int(os.environ['C15_FULL_N'])
    if os.environ.get('C15_ONLY') != 'families':      # debugging aid: skip the generic enumeration
        for n in range(1, full_n + 1):
            add_all(n, FULL, [None, U, V], True)
        add_all(full_n + 1, SMALL, [], False)
    n_generic = len(progs)
    # comprehensions whose iterable mentions its own / a later / an earlier target, tuple targets
    for n in range(1, 4):
        add_all(n, COMPSET, [U], False)
    n_comp = len(progs) - n_generic
    # indexed assignments, asserts and reads of a list name that is unbound / bound on some paths / a loop target
    for n in range(1, 4):
        add_all(n, STMTSET, [W], False, targets=(U, W))
    n_stmt = len(progs) - n_generic - n_comp
    for b in nest_family():
        progs.append(b)
        ck.count('programs-of-the-if-nest-family')
    ck.log(f'{len(progs)} program texts: {n_generic} generic (statements <= {full_n} over {len(FULL)} atoms and all compounds, '
           f'{full_n + 1} statements over {len(SMALL)} atoms; depth <= 3), {n_comp} over the comprehension atoms (<= 3 statements), '
           f'{len(progs) - n_generic - n_comp} two-level if/else nests (also under for / while)')

    rendered = []
    for i, b in enumerate(progs):
        lines, sig, params, uses_p, ids, term = render(b)
        rendered.append((lines, sig, params, uses_p, ids, term))

    # ---- run fpy2
    gen_dir = str(ck.dir / 'gen')
    os.makedirs(gen_dir, exist_ok=True)
    nproc = 8
    items = [(i, r[0], r[1], r[2], r[3]) for i, r in enumerate(rendered)]
    slices = [(w, gen_dir, items[w::nproc]) for w in range(nproc)]
    with multiprocessing.get_context('fork').Pool(nproc) as pool:
        results = pool.map(work, slices)
    ck.log('fpy2 decorated and executed the programs')
    verdicts = {}
    for res in results:
        if isinstance(res, tuple) and res and res[0] == 'crash':
            ck.broken.append('implementation runner crashed: ' + res[1][-600:])
            continue
        for (i, verdict, runs, fails, nfails, others) in res:
            verdicts[i] = (verdict, runs, fails, nfails, others)
    if len(verdicts) != len(progs):
        ck.broken.append(f'{len(progs) - len(verdicts)} programs have no verdict')

    # ---- compare the verdicts with the model
    cases, idx = [], []
    for i, r in enumerate(rendered):
        if i not in verdicts:
            continue
        verdict, runs, fails, nfails, others = verdicts[i]
        ck.evaluations += 1 + runs
        ck.count('verdict:' + verdict)
        ck.count('executions-of-accepted-programs', runs)
        for nm, c in others.items():
            ck.count('execution-raised-other:' + nm, c)
        if verdict not in ('ok', 'FPySyntaxError', 'ReachabilityError'):
            ck.violation(f'`@fp.fpy` raised {verdict}, neither a syntax nor a reachability error',
                         {'program': '\n'.join(r[0]), 'params': r[1]})
            continue
        cases.append(f'({r[4]}, {r[5]}, {cb(verdict == "ok")})')
        idx.append(i)
        if verdict == 'ok':
            ck.nontriv(i)
    ck.exhaustive = True
    ck.rule = ('exhaustive over all program texts within the size bound (after u<->v symmetry); non-trivial = programs the decorator accepted '
               '(each executed on every combination of branch outcomes and trip counts 0/1/2)')
    for c in cases[:3] + cases[len(cases) // 2:len(cases) // 2 + 3]:
        ck.sample(c)
    bad, err = coq_eval(ck, cases, 'check15_strict', 'strict')
    if err:
        ck.broken.append('correspondence evaluation failed: ' + err[:500])
    ck.log(f'model evaluated {len(cases)} verdicts; {len(bad)} to classify')
    sub = [cases[j] for j in bad]
    coded_bad, err1 = coq_eval(ck, sub, 'check15_coded', 'coded')
    fixed_bad, err2 = coq_eval(ck, sub, 'check15_fixed', 'fixed')
    if err1 or err2:
        ck.broken.append('correspondence evaluation failed: ' + (err1 or err2)[:500])
    coded_bad, fixed_bad = set(coded_bad), set(fixed_bad)
    defect_class = set()      # program numbers on which the coded and the repaired rule differ
    for pos, j in enumerate(bad):
        i = idx[j]
        r = rendered[i]
        verdict = verdicts[i][0]
        rep = {'program': '\n'.join(r[0]), 'signature': r[1], 'decorator': verdict, 'model_case': cases[j]}
        if contains_atom(progs[i], COMP_CLASS) and verdict != 'ok' and pos in coded_bad and pos in fixed_bad:
            # the checker (both rules of the model) lets the iterable see the enclosing binding of the name;
            # the compiled comprehension does not (KEY_COMP): a front end that rejects these is the repaired one
            ck.count('comprehension-class:repaired')
        elif pos not in coded_bad and pos in fixed_bad:
            # fpy2 behaves as the coded rule says, and the repaired rule says otherwise
            defect_class.add(i)
            ck.count('defect-class:present')
            ck.violation('the decorator accepts a program that reads a loop target after its loop '
                         '(docs/USAGE.md: not accessible there; the accepted function cannot run)', rep, key=KEY)
        elif pos in coded_bad and pos not in fixed_bad:
            # fpy2 behaves as the repaired rule says
            defect_class.add(i)
            ck.count('defect-class:repaired')
        else:
            ck.violation('the verdict of `@fp.fpy` differs from the model\'s `accept` '
                         '(the program is outside what the theorems cover)', rep)

    # ---- accepted programs must run on every path
    for i, (verdict, runs, fails, nfails, others) in verdicts.items():
        if not nfails:
            continue
        r = rendered[i]
        rep = {'program': '\n'.join(r[0]), 'signature': r[1], 'failing_inputs': fails, 'failing_input_count': nfails}
        ck.count('accepted-programs-that-fail-to-run')
        key = None
        if i in defect_class:
            key = KEY
        elif contains_atom(progs[i], COMP_CLASS) and all('UnboundLocalError' in why for _, why in fails):
            # accepted because the enclosing scope binds the name; the comprehension compiles to a Python
            # comprehension, where the generator's own target shadows it and is not bound yet
            key = KEY_COMP
            ck.count('accepted-programs-that-fail-to-run:comprehension-scope')
        elif has_half_returning_if(progs[i]) and all('KeyError' in why for _, why in fails):
            # accepted rightly (the model agrees and proves it safe), but ReachingDefs / DefineUse,
            # which the interpreter runs first, loses the names only the non-returning arm introduces
            key = KEY_RD
            ck.count('accepted-programs-that-fail-to-run:half-returning-if')
        ck.violation('an accepted program reads an unbound name or falls off its end when called', rep, key=key)
