"""C16 — encodings and ordinals are order-preserving bijections.

Proof: coq/Num/Formats{,IEEE,Fixed,FloatOrd}Proofs.v (parametric: extended-float
decode vs the declarative layout, IEEE layout vs Flocq's binary_float_of_bits,
two's-complement / sign-magnitude / exponential round trips, fixed-point and
floating-point ordinals) and coq/Num/FormatsBounded{Lib,RT,Ord,Cand}Proofs.v
(every extended-float format with nbits <= 8: all patterns; nbits <= 6: all
candidate values; genuine bounded theorems by vm_compute).
Statements: coq/Props/C16.v.

Tie: the Gallina model coq/Num/Formats.v is executed (vm_compute) on every bit
pattern, every candidate value and every ordinal of every small format and
compared with fpy2; plus the property itself is evaluated directly on fpy2
over the same exhaustive domain, and binary16/32/64 decoding is compared with
the platform (`struct`).
"""
import itertools
import math
import struct
from fractions import Fraction

from ..common import Rng

MANIFEST = {
    'text': 'Coq proof that the model of the format classes (EFloat/IEEE, two\'s-complement, sign-magnitude, exponential, '
            'MPS/MPB float and MP/MPB fixed ordinals) decodes to the published layout (IEEE: Flocq binary_float_of_bits), '
            'round-trips encode/decode, maps ordinals by a strictly increasing bijection onto a contiguous range with '
            'next_up/next_down = ordinal +- 1 and agrees with its min/max/representability queries.  Unbounded (any width, '
            'scale, precision, exponent offset): decode = layout for every extended format, IEEE = Flocq, the two\'s-complement / '
            'sign-magnitude / exponential round trips, fixed-point and floating-point ordinals (value on a strictly increasing '
            'scale, inverse, contiguous range), stepping.  Bounded (every valid extended format with nbits <= 8, all patterns; '
            'nbits <= 6 for all candidate values): encode round trips, representable_in, normalize, min/max queries.  Four '
            'genuine defects are refuted by witness, proved absent from the patched variant, and recorded.  Tied to /repo by '
            'exhaustive differential execution of model vs fpy2 over all formats with nbits <= 6 (8 thorough).',
    'technique': 'machine-checked proof in Coq (parametric + bounded vm_compute) + exhaustive model/implementation correspondence',
}

HEADER = ('From Coq Require Import ZArith List Bool.\n'
          'From FpyV Require Import Num.RealFloat Num.Float Num.Out Num.Formats Cases.C16Cases.\n'
          'Import ListNotations.\nOpen Scope Z_scope.\n')

KEY_REPR = 'efloat-representable-nar-no-nonzero'
KEY_ENC_INF = 'efloat-encode-inf-p1-maxval'
KEY_ENC_NAN = 'efloat-encode-nan-negzero-sign'
KEY_NORM = 'mpfixed-normalize-shift-direction'


# ---------------------------------------------------------------- Coq evaluation of the tables
def coq_eval_tables(ck, header, cases, check_fn, tag='tab', shards=48, timeout=1500, jobs=16):
    """Like Check.coq_eval_mismatches, for few large cases: integer (Z) indices,
    shards balanced by size.  Returns (failing indices, error text or None)."""
    import re
    from ..common import COQ, sh
    if not cases:
        return [], None
    total = sum(len(c) for c in cases)
    target = max(total // shards, 20000)
    groups, cur, size = [], [], 0
    for i, c in enumerate(cases):
        cur.append((i, c))
        size += len(c)
        if size >= target:
            groups.append(cur)
            cur, size = [], 0
    if cur:
        groups.append(cur)
    names = []
    for gi, grp in enumerate(groups):
        name = f'{tag}_{gi:04d}'
        body = ';\n'.join(f'({i}, {c})' for i, c in grp)
        text = (header + '\n'
                f'Definition cases : list (Z * (op16 * out)) := [\n{body}\n].\n'
                f'Definition bad := map fst (filter (fun ic => negb ({check_fn} (snd ic))) cases).\n'
                'Eval vm_compute in bad.\n')
        (ck.dir / f'{name}.v').write_text(text)
        names.append(name)
    cmd = (f"xargs -P{jobs} -I{{}} sh -c 'timeout {timeout} coqc -noglob -Q {COQ} FpyV -Q . Dyn {{}}.v > {{}}.out 2>&1 || echo FAIL >> {{}}.out'")
    sh(cmd, cwd=ck.dir, input='\n'.join(names), timeout=timeout * (len(names) // jobs + 1) + 60)
    bad, err = [], None
    for name in names:
        out = (ck.dir / f'{name}.out').read_text()
        m = re.search(r'=\s*\[(.*?)\]\s*:\s*list Z', out, re.S)
        if 'FAIL' in out or not m:
            err = (err or '') + f'{name}: {out[-500:]}\n'
            continue
        body = m.group(1).strip()
        if body:
            bad += [int(x.strip().strip('()')) for x in body.split(';')]
    return sorted(bad), err


# ---------------------------------------------------------------- printers
def z(n):
    n = int(n)
    return f'({n})' if n < 0 else str(n)


def b(v):
    return 'true' if v else 'false'


def fl_out(x):
    if x.isnan:
        return f'(fN {1 if x.s else 0})'
    if x.isinf:
        return f'(fI {1 if x.s else 0})'
    return f'(fF {1 if x.s else 0} {z(x.exp)} {z(x.c)})'


def fl_val(x):
    if x.isnan:
        return f'(FNaN {b(x.s)})'
    if x.isinf:
        return f'(FInf {b(x.s)})'
    return f'(vF {1 if x.s else 0} {z(x.exp)} {z(x.c)})'


def rf_term(x):
    return f'(RF {b(x.s)} {z(x.exp)} {z(x.c)})'


def g(fn, pr):
    try:
        return pr(fn())
    except Exception:  # noqa: any exception class matches OErr
        return 'eR'


def oz(v):
    return f'(oz {z(v)})'


def ob(v):
    return 'oT' if v else 'oF'


def ol(items):
    return '(oL [' + ';'.join(items) + '])'


# ---------------------------------------------------------------- formats
class Fmt:
    """A format under test: how to construct it in fpy2 and its Coq term."""
    def __init__(self, kind, args, term, ctor, nbits=None):
        self.kind, self.args, self.term, self.ctor, self.nbits = kind, args, term, ctor, nbits
        self.obj = None
        self.err = None
        try:
            self.obj = ctor()
        except Exception as e:  # noqa
            self.err = e

    def __repr__(self):
        return f'{self.kind}{self.args}'


def enumerate_formats(thorough, rng):
    from fpy2.number import RealFloat
    from fpy2.number.context.efloat import EFloatFormat, EFloatNanKind as K
    from fpy2.number.context.ieee754 import IEEEFormat
    from fpy2.number.context.fixed import FixedFormat
    from fpy2.number.context.sm_fixed import SMFixedFormat
    from fpy2.number.context.exponential import ExpFormat
    from fpy2.number.context.mps_float import MPSFloatFormat
    from fpy2.number.context.mpb_float import MPBFloatFormat
    from fpy2.number.context.mp_fixed import MPFixedFormat
    from fpy2.number.context.mpb_fixed import MPBFixedFormat
    kinds = [(K.IEEE_754, 'NK_IEEE'), (K.MAX_VAL, 'NK_MAXVAL'), (K.NEG_ZERO, 'NK_NEGZERO'), (K.NONE, 'NK_NONE')]
    nmax = 8 if thorough else 6
    out = []
    for nbits in range(0, nmax + 1):
        for es in range(-1, nbits + 2):
            for inf in (False, True):
                for k, kn in kinds:
                    eos = [0]
                    if nbits <= (6 if thorough else 4):
                        eos += [-3, 5]
                    elif nbits == 5 and not thorough:
                        eos += [rng.choice([-7, -1, 1, 9])]
                    for eo in eos:
                        out.append(Fmt('EFloat', (es, nbits, inf, kn, eo),
                                       f'(FmE (EF {z(es)} {z(nbits)} {b(inf)} {kn} {z(eo)}))',
                                       lambda es=es, nbits=nbits, inf=inf, k=k, eo=eo: EFloatFormat(es, nbits, inf, k, eo), nbits))
    for es, nbits in [(2, 4), (3, 6), (4, 8), (5, 16), (8, 32), (11, 64), (0, 4), (4, 4), (3, 4)]:
        out.append(Fmt('IEEE', (es, nbits), f'(FmE (EF {es} {nbits} true NK_IEEE 0))',
                       lambda es=es, nbits=nbits: IEEEFormat(es, nbits), nbits))
    for nbits in range(0, nmax + 1):
        for scale in (-3, 0, 2):
            for sg in (False, True):
                out.append(Fmt('Fixed', (sg, scale, nbits), f'(FmFix (FIXF {b(sg)} {z(scale)} {z(nbits)}))',
                               lambda sg=sg, scale=scale, nbits=nbits: FixedFormat(sg, scale, nbits), nbits))
            out.append(Fmt('SMFixed', (scale, nbits), f'(FmSM (SMF {z(scale)} {z(nbits)}))',
                           lambda scale=scale, nbits=nbits: SMFixedFormat(scale, nbits), nbits))
        for eo in (0, -2, 7):
            out.append(Fmt('Exp', (nbits, eo), f'(FmExp (EXPF {z(nbits)} {z(eo)}))',
                           lambda nbits=nbits, eo=eo: ExpFormat(nbits, eo), nbits))
    for pmax in range(0, 5 if thorough else 4):
        for emin in (-3, 0, 2):
            for nan, inf in ((True, True), (False, False), (True, False)):
                out.append(Fmt('MPS', (pmax, emin, nan, inf), f'(FmMPS (MPSF {z(pmax)} {z(emin)} {b(nan)} {b(inf)}))',
                               lambda pmax=pmax, emin=emin, nan=nan, inf=inf: MPSFloatFormat(pmax, emin, nan, inf)))
            if pmax < 1:
                continue
            maxes = [(bitmask(pmax), emin + 2 - pmax + 1), (1, emin + 1), (bitmask(pmax) >> 1 or 1, emin - pmax + 1), (0, emin)]
            for (c, e) in maxes:
                for (nc, ne) in [(c, e), (1, emin)]:
                    for nan, inf in ((True, True), (False, False)):
                        pos = RealFloat(False, e, c)
                        neg = RealFloat(True, ne, nc)
                        out.append(Fmt('MPB', (pmax, emin, (c, e), (nc, ne), nan, inf),
                                       f'(FmMPB (MPBF {z(pmax)} {z(emin)} {rf_term(pos)} {rf_term(neg)} {b(nan)} {b(inf)}))',
                                       lambda pmax=pmax, emin=emin, pos=pos, neg=neg, nan=nan, inf=inf:
                                       MPBFloatFormat(pmax, emin, pos, neg, nan, inf)))
    for nmin in (-3, -1, 2):
        for nan, inf, nz in ((False, False, True), (True, True, True), (False, False, False), (True, False, False)):
            out.append(Fmt('MPF', (nmin, nan, inf, nz), f'(FmMPF (MPFF {z(nmin)} {b(nan)} {b(inf)} {b(nz)}))',
                           lambda nmin=nmin, nan=nan, inf=inf, nz=nz: MPFixedFormat(nmin, nan, inf, nz)))
            for (pc, pe), (ns, nc, ne) in [((7, nmin + 1), (True, 7, nmin + 1)), ((5, nmin + 2), (True, 9, nmin + 1)),
                                           ((12, nmin + 1), (False, 0, 0)), ((0, 0), (True, 3, nmin + 1)),
                                           ((3, nmin), (True, 3, nmin + 1)), ((3, nmin + 1), (False, 2, nmin + 1))]:
                pos = RealFloat(False, pe, pc)
                neg = RealFloat(ns, ne, nc)
                out.append(Fmt('MPBF', (nmin, (pc, pe), (ns, nc, ne), nan, inf, nz),
                               f'(FmMPBF (MPBFF {z(nmin)} {rf_term(pos)} {rf_term(neg)} {b(nan)} {b(inf)} {b(nz)}))',
                               lambda nmin=nmin, pos=pos, neg=neg, nan=nan, inf=inf, nz=nz:
                               MPBFixedFormat(nmin, pos, neg, nan, inf, nz)))
    return out


def bitmask(k):
    return (1 << k) - 1


# ---------------------------------------------------------------- implementation side of the tables
def value_ops(f, x):
    F = f.obj
    enc = g(lambda: F.encode(x), oz) if hasattr(F, 'encode') else 'oN'
    items = [g(lambda: F.representable_in(x), ob), enc,
             g(lambda: F.to_ordinal(x, False), oz), g(lambda: F.to_ordinal(x, True), oz),
             g(lambda: F.normalize(x), fl_out), g(lambda: F.canonical_under(x), ob)]
    for nm in ('next_up', 'next_down', 'next_towards_zero', 'next_away_zero'):
        for allow in (False, True):
            items.append(g(lambda: getattr(F, nm)(x, allow), fl_out))
    return ol(items)


def cand_ops(f, x):
    F = f.obj
    if not F.representable_in(x):
        return 'oN'
    enc = g(lambda: F.encode(x), oz) if hasattr(F, 'encode') else 'oN'
    return ol([enc, g(lambda: F.to_ordinal(x, False), oz), g(lambda: F.normalize(x), fl_out),
               g(lambda: F.canonical_under(x), ob)])


def decode1(f, bits):
    try:
        x = f.obj.decode(bits)
    except Exception:  # noqa
        return 'eR', None
    return f'(oP {fl_out(x)} {value_ops(f, x)})', x


def candidates(lo, hi, cmax):
    from fpy2.number import Float
    xs = [Float(s=s, exp=e, c=c) for s in (False, True) for e in range(lo, hi + 1) for c in range(cmax)]
    xs += [Float(isinf=True, s=False), Float(isinf=True, s=True), Float(isnan=True, s=False), Float(isnan=True, s=True)]
    return xs


def from_ord1(f, o):
    return f'(oP {g(lambda: f.obj.from_ordinal(o, False), fl_out)} {g(lambda: f.obj.from_ordinal(o, True), fl_out)})'


def rfp(x):
    return [1 if x.s else 0, x.exp, x.c]


def queries(f):
    F = f.obj
    k = f.kind

    def two(nm):
        return [g(lambda: getattr(F, nm)(False), fl_out), g(lambda: getattr(F, nm)(True), fl_out)]

    def zl(xs):
        return '(zL [' + ';'.join(z(v) for v in xs) + '])'
    if k in ('EFloat', 'IEEE'):
        m = F._mpb_fmt
        items = [zl([F.pmax, F.emin, F.emax, F.expmin, F.expmax, F.nmin, F.m, F.ebias] + rfp(m.pos_maxval) + rfp(m.neg_maxval)
                    + [m._pos_maxval_ord, m._neg_maxval_ord]), ob(F.has_nonzero())]
        for nm in ('zero', 'minval', 'max_subnormal', 'min_normal', 'maxval', 'infval'):
            items += two(nm)
        items += [g(F.largest, fl_out), g(F.smallest, fl_out)]
    elif k in ('Fixed', 'SMFixed', 'MPBF'):
        items = [zl([F.nmin] + rfp(F.pos_maxval) + rfp(F.neg_maxval) + [F._pos_maxval_ord, F._neg_maxval_ord])]
        for nm in ('minval', 'maxval', 'infval'):
            items += two(nm)
        items += [g(F.largest, fl_out), g(F.smallest, fl_out)]
    elif k == 'Exp':
        items = [zl([F.emin, F.emax, F.ebias])]
        for nm in ('minval', 'maxval', 'infval'):
            items += two(nm)
        items += [g(F.largest, fl_out), g(F.smallest, fl_out)]
    elif k == 'MPS':
        items = [zl([F.expmin, F.nmin])]
        for nm in ('zero', 'minval', 'max_subnormal', 'min_normal'):
            items += two(nm)
    elif k == 'MPB':
        items = [zl([F.expmin, F.nmin, F.emax, F.expmax, F._pos_maxval_ord, F._neg_maxval_ord])]
        for nm in ('maxval', 'infval'):
            items += two(nm)
    elif k == 'MPF':
        items = [zl([F.expmin])] + two('minval')
    else:
        raise AssertionError(k)
    return ol(items)


def cand_range(f):
    """(lo, hi, cmax) of the candidate grid of a format: every encoding with up to one redundant
    significand bit and exponents two below / above the format's range."""
    F, k = f.obj, f.kind
    if k in ('EFloat', 'IEEE'):
        p = F.pmax
        return F.expmin - 2, F.emax + 2, min(1 << (p + 1), 160)
    if k in ('Fixed', 'SMFixed'):
        return F.scale - 2, F.scale + f.nbits + 1, min(1 << (f.nbits + 1), 160)
    if k == 'Exp':
        return F.emin - 3, F.emax + 2, 6
    if k == 'MPS':
        return F.expmin - 2, F.emin + 3, 1 << (F.pmax + 1)
    if k == 'MPB':
        return F.expmin - 2, max(F.emax, F.emin) + 3, 1 << (F.pmax + 1)
    if k == 'MPF':
        return F.nmin - 1, F.nmin + 4, 12
    if k == 'MPBF':
        return F.nmin - 1, F.nmin + 5, 20
    raise AssertionError(k)


def ord_range(f):
    F, k = f.obj, f.kind
    if k in ('EFloat', 'IEEE'):
        m = F._mpb_fmt
        return m._neg_maxval_ord - 2, m._pos_maxval_ord + 2
    if k in ('Fixed', 'SMFixed', 'MPBF', 'MPB'):
        return F._neg_maxval_ord - 2, F._pos_maxval_ord + 2
    if k == 'Exp':
        return -2, (1 << f.nbits) + 1
    if k == 'MPS':
        return -(1 << (F.pmax + 2)), 1 << (F.pmax + 2)
    return -9, 9


# ---------------------------------------------------------------- the property itself, on the implementation
def value_key(x):
    if x.isnan:
        return ('nan',)
    if x.isinf:
        return ('inf', x.s)
    v = x.as_rational()
    return ('fin', v, x.s if v == 0 else None)


def direct_property(ck, f, dec, cands, report):
    """Evaluates the statement of C16 on fpy2 for one encodable format.
    `dec` maps pattern -> decoded Float, `cands` is the candidate grid."""
    F = f.obj
    n = 0
    keys = {}
    for bits, x in dec.items():
        keys.setdefault(value_key(x), bits)
    fin = [x for x in dec.values() if not x.is_nar()]
    for bits, x in dec.items():
        n += 1
        if not F.representable_in(x):
            report('a bit pattern decodes to a value the format calls unrepresentable', f, {'pattern': bits, 'decoded': repr(x)},
                   KEY_REPR if (f.kind in ('EFloat', 'IEEE') and x.is_nar() and not F.has_nonzero()) else None)
            continue
        try:
            b2 = F.encode(x)
        except Exception as e:  # noqa
            report('encode raises on a decoded value', f, {'pattern': bits, 'error': repr(e)}, None)
            continue
        if x.isnan:
            if not F.decode(b2).isnan:
                report('encode(NaN) does not decode to NaN', f, {'pattern': bits, 'encoded': b2, 'decoded': repr(F.decode(b2))},
                       KEY_ENC_NAN if (f.kind in ('EFloat', 'IEEE') and F.nan_kind.name == 'NEG_ZERO' and not x.s) else None)
        elif b2 != bits:
            report('encode(decode(b)) != b', f, {'pattern': bits, 'encoded': b2, 'decoded': repr(x)},
                   KEY_ENC_INF if (f.kind in ('EFloat', 'IEEE') and x.isinf and F.pmax == 1 and F.nan_kind.name == 'MAX_VAL') else None)
    for x in cands:
        n += 1
        r = F.representable_in(x)
        ins = value_key(x) in keys
        if r != ins:
            report('representable_in disagrees with the decoded value set', f, {'value': repr(x), 'representable_in': r},
                   KEY_REPR if (f.kind in ('EFloat', 'IEEE') and x.is_nar() and not F.has_nonzero()) else None)
        if not r:
            continue
        try:
            y = F.decode(F.encode(x))
            if value_key(y) != value_key(x):
                report('decode(encode(x)) != x', f, {'value': repr(x), 'encoded': F.encode(x), 'decoded': repr(y)},
                       KEY_ENC_NAN if (x.isnan and f.kind in ('EFloat', 'IEEE') and F.nan_kind.name == 'NEG_ZERO' and not x.s) else
                       KEY_ENC_INF if (x.isinf and f.kind in ('EFloat', 'IEEE') and F.pmax == 1 and F.nan_kind.name == 'MAX_VAL') else None)
        except Exception as e:  # noqa
            report('encode/decode raises on a representable value', f, {'value': repr(x), 'error': repr(e)}, None)
        try:
            y = F.normalize(x)
            if value_key(y) != value_key(x):
                report('normalize changes the value', f, {'value': repr(x), 'normalized': repr(y)},
                       KEY_NORM if f.kind in ('Fixed', 'SMFixed') else None)
            elif not F.canonical_under(y):
                report('normalize result is not canonical', f, {'value': repr(x), 'normalized': repr(y)}, None)
        except Exception as e:  # noqa
            report('normalize raises on a representable value', f, {'value': repr(x), 'error': repr(e)}, None)
    # ordinals: strictly increasing bijection onto a contiguous range
    srt = sorted(set(x.as_rational() for x in fin))
    byv = {}
    for x in fin:
        n += 1
        try:
            o = F.to_ordinal(x)
            byv.setdefault(x.as_rational(), set()).add(o)
            y = F.from_ordinal(o)
            if y.is_nar() or y.as_rational() != x.as_rational():
                report('from_ordinal(to_ordinal(x)) != x', f, {'value': repr(x), 'ordinal': o, 'back': repr(y)}, None)
        except Exception as e:  # noqa
            report('to_ordinal/from_ordinal raises on a decoded finite value', f, {'value': repr(x), 'error': repr(e)}, None)
    ords = [min(byv[v]) for v in srt if v in byv]
    if any(len(s) != 1 for s in byv.values()) or any(b2 != a + 1 for a, b2 in zip(ords, ords[1:])):
        report('ordinals of the sorted decoded values are not consecutive', f, {'ordinals': ords[:40]}, None)
    if ords:
        for o in (ords[0] - 1, ords[-1] + 1):
            try:
                y = F.from_ordinal(o)
                report('from_ordinal accepts an ordinal outside the range of the format', f, {'ordinal': o, 'value': repr(y)}, None)
            except ValueError:
                pass
    for x in fin:
        i = srt.index(x.as_rational())
        for nm, j in (('next_up', i + 1), ('next_down', i - 1)):
            n += 1
            try:
                y = getattr(F, nm)(x)
                if not (0 <= j < len(srt)) or y.is_nar() or y.as_rational() != srt[j]:
                    report(f'{nm} is not the neighbouring decoded value', f, {'value': repr(x), 'got': repr(y)}, None)
            except ValueError as e:
                if 0 <= j < len(srt):
                    report(f'{nm} raises although a neighbour exists', f, {'value': repr(x), 'error': repr(e)}, None)
    pos = [v for v in srt if v > 0]
    neg = [v for v in srt if v < 0]

    def q(nm, exp, *a):
        try:
            y = getattr(F, nm)(*a)
            if exp is not None and (y.is_nar() or y.as_rational() != exp):
                report(f'{nm}{a} disagrees with the decoded value set', f, {'got': repr(y), 'expected': str(exp)}, None)
        except Exception as e:  # noqa
            if exp is not None:
                report(f'{nm}{a} raises', f, {'expected': str(exp), 'error': repr(e)}, None)
    if srt:
        q('maxval', max(pos) if pos else None, False)
        q('maxval', min(neg) if neg else None, True)
        q('minval', min(pos) if pos else None, False)
        q('minval', max(neg) if neg else None, True)
        q('largest', srt[-1])
        q('smallest', srt[0])
    return n + 6


# ---------------------------------------------------------------- main
def probe_fixes():
    """Which of the four recorded defects the implementation under test still has."""
    from fpy2.number import Float
    from fpy2.number.context.efloat import EFloatFormat, EFloatNanKind as K
    from fpy2.number.context.fixed import FixedFormat

    def safe(fn):
        try:
            return bool(fn())
        except Exception:  # noqa: a broken implementation is reported by the correspondence, not here
            return False
    fx_repr = safe(lambda: EFloatFormat(0, 1, False, K.NEG_ZERO, 0).representable_in(Float(isnan=True, s=True)))
    fx_inf = safe(lambda: EFloatFormat(2, 3, True, K.MAX_VAL, 0).encode(Float(isinf=True)) == 2)
    fx_nan = safe(lambda: EFloatFormat(2, 4, False, K.NEG_ZERO, 0).encode(Float(isnan=True, s=False)) == 8)
    fx_norm = safe(lambda: FixedFormat(True, 0, 8).normalize(Float(c=1, exp=2)).as_rational() == 4)
    return fx_repr, fx_inf, fx_nan, fx_norm


def run(ck):
    thorough = ck.tier == 'thorough'
    ck.trusted += [
        'Coq 8.16.1 kernel (coqc); vm_compute for the bounded theorems and for evaluating the model on correspondence cases; no native_compute',
        'Flocq 4 (IEEE754.Bits.binary_float_of_bits_aux, Core) as the independent definition of the IEEE 754 interchange layout',
        'coq/Num/Layout.v: the declarative layout of the extended formats (sign | exponent | mantissa, special codes per NaN kind) written from the format description',
        'correspondence harness harness/props/c16.py + coq/Cases/C16Cases.v (hand-written model coq/Num/Formats.v of the format classes, tied by exhaustive differential execution)',
        'CPython int/Fraction arithmetic and struct (binary16/32/64 of the platform)',
    ]
    ck.assumptions += [
        'the model of the format classes is hand-written; its tie to /repo is the exhaustive correspondence run below (all formats with nbits <= %d)' % (8 if thorough else 6),
        'the extended-float encode / representable_in / normalize / min-max theorems are bounded (nbits <= 8 resp. 6, |eoffset| <= 3); decode, IEEE-vs-Flocq, fixed-point, exponential and all ordinal theorems are unbounded',
        'the four recorded defects are modelled as coded (variant selected by probing the implementation) and proved absent from the patched variant',
    ]
    ok, _ = ck.build_static(['Props/C16.v', 'Cases/C16Cases.v'])
    if ok:
        ck.props('Props/C16.v')

    rng = Rng(ck.seed, 'c16')
    fx = probe_fixes()
    fxt = '(FX ' + ' '.join(b(v) for v in fx) + ')'
    ck.extra['defects_present'] = {'representable_nar': not fx[0], 'encode_inf_p1_maxval': not fx[1],
                                   'encode_nan_negzero': not fx[2], 'mpfixed_normalize': not fx[3]}
    fmts = enumerate_formats(thorough, rng)
    ck.log(f'{len(fmts)} parameter tuples ({sum(1 for f in fmts if f.obj is not None)} valid); fixes present in implementation: {fx}')

    cases = []      # (term, format, kind-of-table, payload for drill-down)

    def add(term, f, what, payload=None, n=1):
        cases.append((term, f, what, payload))
        ck.evaluations += n
        ck.count(f'{f.kind}:{what}', n)

    reported = {}

    def report(what, f, detail, key):
        # at most 25 replay files per kind of failure (a broken decoder fails on thousands of inputs)
        k = (what, key)
        reported[k] = reported.get(k, 0) + 1
        if reported[k] > 25 and not (key is not None and key in ck.known):
            ck.count('further failing inputs (not written): ' + what)
            return
        d = {'format': repr(f), 'coq_format': f.term}
        d.update(detail)
        ck.violation(what, d, key=key)

    nprop = 0
    for f in fmts:
        add(f'(OValid {f.term}, {ob(f.obj is not None)})', f, 'valid')
        if f.obj is None:
            add(f'(OQueries {f.term}, eR)', f, 'invalid-rejected')
            continue
        ck.nontriv(('fmt', f.term))
        add(f'(OQueries {f.term}, {queries(f)})', f, 'queries')
        big = f.nbits is not None and f.nbits > 8     # binary16/32/64: sampled below, not tabulated
        dec = {}
        if f.nbits is not None and not big:
            items = []
            for bits in range(1 << f.nbits):
                t, x = decode1(f, bits)
                items.append(t)
                if x is not None:
                    dec[bits] = x
                ck.nontriv((f.term, 'b', bits))
            add(f'(OPatterns {f.term}, {ol(items)})', f, 'patterns', None, len(items))
            for bits in (-1, 1 << f.nbits):
                add(f'(ODecode1 {f.term} {z(bits)}, {decode1(f, bits)[0]})', f, 'decode-out-of-range')
        if not big:
            lo, hi, cmax = cand_range(f)
            cands = candidates(lo, hi, cmax)
            add(f'(OCands {f.term} {z(lo)} {z(hi)} {z(cmax)}, {ol([cand_ops(f, x) for x in cands])})', f, 'candidates',
                (lo, hi, cmax), len(cands))
            olo, ohi = ord_range(f)
            add(f'(OOrds {f.term} {z(olo)} {z(ohi)}, {ol([from_ord1(f, o) for o in range(olo, ohi + 1)])})', f, 'ordinals',
                (olo, ohi), ohi - olo + 1)
            if f.nbits is None:
                # formats without an encoding: everything observable about a sample of candidate values
                for x in cands[::19] + cands[-4:]:
                    add(f'(OValue1 {f.term} {fl_val(x)}, {value_ops(f, x)})', f, 'value')
            if dec:
                try:
                    nprop += direct_property(ck, f, dec, cands, report)
                except Exception as e:  # noqa
                    report('evaluating the property on the implementation raised', f, {'error': repr(e)}, None)
        else:
            # wide IEEE formats: random and boundary patterns, item by item
            pats = [0, 1, (1 << f.nbits) - 1, 1 << (f.nbits - 1), (1 << (f.nbits - 1)) - 1]
            m = f.nbits - f.args[0] - 1
            for e in (0, 1, (1 << f.args[0]) - 2, (1 << f.args[0]) - 1):
                for mm in (0, 1, (1 << m) - 1, 1 << (m - 1)):
                    for s in (0, 1):
                        pats.append((s << (f.nbits - 1)) | (e << m) | mm)
            pats += [rng.getrandbits(f.nbits) for _ in range(60 if thorough else 25)]
            for bits in pats:
                add(f'(ODecode1 {f.term} {z(bits)}, {decode1(f, bits)[0]})', f, 'decode1')
                ck.nontriv((f.term, 'b', bits))
    ck.evaluations += nprop
    ck.count('direct-property-instances(on fpy2)', nprop)

    # ---- binary16/32/64 against the platform
    nplat = platform_check(ck, rng, 4000 if thorough else 1200)
    ck.evaluations += nplat
    ck.count('platform-decode(struct)', nplat)

    ck.rule = ('exhaustive: every parameter tuple (valid or not) of EFloat (4 NaN kinds x inf x es x eoffset in {0,-3,5}), Fixed, SMFixed, Exp with '
               'nbits <= %d, small MPS/MPB/MPF/MPBF formats; non-trivial = distinct (format, bit pattern) pairs and distinct formats' % (8 if thorough else 6))
    ck.exhaustive = True
    for t, _, _, _ in cases[:2] + cases[len(cases) // 2:len(cases) // 2 + 2]:
        ck.sample(t[:400])
    ck.log(f'{len(cases)} table cases covering {ck.evaluations} evaluations; {nprop} direct property instances; {nplat} platform decodes')
    header = HEADER + f'Definition chk := check16 {fxt}.\n'
    bad, err = coq_eval_tables(ck, header, [c[0] for c in cases], 'chk')
    if err:
        ck.broken.append('correspondence evaluation failed: ' + err[:500])
    if bad:
        drill(ck, header, [cases[i] for i in bad])


def drill(ck, header, failing):
    """Pins each failing table down to single inputs (second Coq pass)."""
    fine = []
    budget = 40
    for term, f, what, payload in failing[:budget]:
        if what == 'patterns':
            for bits in range(1 << f.nbits):
                fine.append((f'(ODecode1 {f.term} {z(bits)}, {decode1(f, bits)[0]})', f, f'pattern {bits}'))
        elif what == 'candidates':
            for x in candidates(*payload):
                fine.append((f'(OCand1 {f.term} {fl_val(x)}, {cand_ops(f, x)})', f, f'value {x!r}'))
        elif what == 'ordinals':
            for o in range(payload[0], payload[1] + 1):
                fine.append((f'(OFromOrd1 {f.term} {z(o)}, {from_ord1(f, o)})', f, f'ordinal {o}'))
        else:
            fine.append((term, f, what))
    bad, err = coq_eval_tables(ck, header, [c[0] for c in fine], 'chk', tag='drill', shards=32)
    if err:
        ck.broken.append('correspondence drill-down failed: ' + err[:300])
    seen = {}
    for i in bad:
        term, f, what = fine[i]
        k = (f.kind, what.split(' ')[0])
        seen[k] = seen.get(k, 0) + 1
        if seen[k] > 5:
            continue
        ck.violation(f'implementation and model disagree on {f.kind} {what.split(" ")[0]}',
                     {'format': repr(f), 'input': what, 'case': term[:1500],
                      'note': 'first component: operation; second: what fpy2 returned; the model (theorems in Props/C16.v) returns something else'})
    if not bad:
        for term, f, what, _ in failing[:5]:
            ck.violation(f'implementation and model disagree on {f.kind} {what} table', {'format': repr(f), 'case': term[:1500]})
    if len(failing) > budget:
        ck.log(f'{len(failing)} failing tables; the first {budget} were examined')


def platform_check(ck, rng, count):
    from fpy2.number.context.ieee754 import IEEEFormat
    n = 0
    for es, nbits, code, icode in ((5, 16, '<e', '<H'), (8, 32, '<f', '<I'), (11, 64, '<d', '<Q')):
        F = IEEEFormat(es, nbits)
        m = nbits - es - 1
        pats = [0, 1, (1 << nbits) - 1, 1 << (nbits - 1), ((1 << es) - 1) << m, (((1 << es) - 1) << m) | 1, ((1 << es) - 2) << m | ((1 << m) - 1)]
        pats += [rng.getrandbits(nbits) for _ in range(count // 3)]
        for bits in pats:
            n += 1
            v = struct.unpack(code, struct.pack(icode, bits))[0]
            x = F.decode(bits)
            sign = bool(bits >> (nbits - 1))
            if math.isnan(v):
                okv = x.isnan
            elif math.isinf(v):
                okv = x.isinf and x.s == (v < 0)
            else:
                okv = (not x.is_nar()) and x.as_rational() == Fraction(v) and x.s == sign
            if not okv:
                ck.violation('IEEEFormat.decode disagrees with the platform encoding', {'format': repr(F), 'pattern': bits, 'platform': repr(v), 'decoded': repr(x)})
                continue
            if not x.isnan:
                try:
                    if F.encode(x) != bits:
                        ck.violation('IEEEFormat.encode(decode(b)) != b', {'format': repr(F), 'pattern': bits})
                except Exception as e:  # noqa
                    ck.violation('IEEEFormat.encode raises on a decoded value', {'format': repr(F), 'pattern': bits, 'error': repr(e)})
    return n
