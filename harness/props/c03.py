"""C03 — elementary functions and constants are correctly rounded.

Proof: coq/Num/ElemProofs.v (N3: truncation + sticky = round to odd; elem_once:
for ANY real target value, the evaluate-toward-zero-at-prec+2 / sticky /
context-round mechanism is one rounding of the true value, float and
fixed-point two-pass shapes; exact results stay exact), on top of N2.
MPFR is an oracle (hypothesis named in the theorem); it is supported per run by
(1) Coq-certified instances: `interval` (CoqInterval) proves that the true
value lies in the rounding cell of what fpy2 returned, and (2) a Ziv-style
differential against directed MPFR evaluations at higher precision.
The shape of every `_constant_exprs` entry is regenerated from the source.
"""
import ast
import itertools
from fractions import Fraction

from ..common import REPO, Rng, sh
from ..numenc import RM, mk_ctx

MANIFEST = {
    'text': 'Coq proof of the mechanism for all functions/constants, unbounded in precision and format: RTZ+sticky is Flocq round-to-odd '
            '(N3) and re-rounding it (>= 2 extra digits, incl. the fixed-point two-pass precision selection) is one rounding of the true '
            'value for all 8 modes (N2); exact results are returned exactly. MPFR\'s own correctness is an explicit oracle hypothesis, '
            'supported on every run by CoqInterval-certified rounding-cell membership of sampled results (proved in Coq) and a Ziv-style '
            'high-precision differential; the single-call/composed shape of each constant is regenerated from gmp.py.',
    'technique': 'machine-checked proof in Coq (round-to-odd mechanism) + CoqInterval certificates per instance + high-precision differential (testing)',
}

# functions CoqInterval can express: name -> (arity, coq expression template, domain predicate)
COQ_FN = {
    'exp': lambda x: f'exp ({x})',
    'log': lambda x: f'ln ({x})',
    'sin': lambda x: f'sin ({x})',
    'cos': lambda x: f'cos ({x})',
    'tan': lambda x: f'tan ({x})',
    'atan': lambda x: f'atan ({x})',
    'exp2': lambda x: f'exp (({x}) * ln 2)',
    'log2': lambda x: f'(ln ({x}) / ln 2)',
    'log10': lambda x: f'(ln ({x}) / ln 10)',
    'expm1': lambda x: f'(exp ({x}) - 1)',
    'log1p': lambda x: f'ln (1 + ({x}))',
    'sinh': lambda x: f'((exp ({x}) - exp (- ({x}))) / 2)',
    'cosh': lambda x: f'((exp ({x}) + exp (- ({x}))) / 2)',
    'tanh': lambda x: f'((exp ({x}) - exp (- ({x}))) / (exp ({x}) + exp (- ({x}))))',
    'sqrt': lambda x: f'sqrt ({x})',
}
COQ_CONST = {
    'const_pi': 'PI', 'const_e': 'exp 1', 'const_ln2': 'ln 2', 'const_log2e': '(1 / ln 2)', 'const_log10e': '(1 / ln 10)',
    'const_pi_2': '(PI / 2)', 'const_pi_4': '(PI / 4)', 'const_1_pi': '(1 / PI)', 'const_2_pi': '(2 / PI)',
    'const_2_sqrt_pi': '(2 / sqrt PI)', 'const_sqrt2': 'sqrt 2', 'const_sqrt1_2': 'sqrt (1 / 2)',
}
CONST_ENUM = {'const_pi': 'PI', 'const_e': 'E', 'const_ln2': 'LN2', 'const_log2e': 'LOG2E', 'const_log10e': 'LOG10E',
              'const_pi_2': 'PI_2', 'const_pi_4': 'PI_4', 'const_1_pi': 'M_1_PI', 'const_2_pi': 'M_2_PI',
              'const_2_sqrt_pi': 'M_2_SQRTPI', 'const_sqrt2': 'SQRT2', 'const_sqrt1_2': 'SQRT1_2'}
EXPECTED_SINGLE = ['E', 'LN2', 'LN10', 'PI', 'SQRT2']          # entries that are one MPFR call on literals


def const_shapes():
    """Regenerate the shape of gmp._constant_exprs from the source: name -> 'single' | 'composed'."""
    src = (REPO / 'fpy2/number/engine/gmp.py').read_text()
    tree = ast.parse(src)
    shapes = {}
    for node in ast.walk(tree):
        if isinstance(node, ast.AnnAssign) and isinstance(node.target, ast.Name) and node.target.id == '_constant_exprs':
            d = node.value
            if not isinstance(d, ast.Dict):
                raise RuntimeError('_constant_exprs is no longer a dict literal')
            for k, v in zip(d.keys, d.values):
                name = k.attr
                if isinstance(v, ast.Attribute):            # gmp.const_pi
                    shapes[name] = 'single'
                elif isinstance(v, ast.Lambda):
                    b = v.body
                    single = (isinstance(b, ast.Call) and isinstance(b.func, ast.Attribute) and
                              all(isinstance(a, ast.Constant) for a in b.args) and not b.keywords)
                    shapes[name] = 'single' if single else 'composed'
                else:
                    raise RuntimeError(f'unexpected _constant_exprs entry for {name}')
    if not shapes:
        raise RuntimeError('_constant_exprs not found in gmp.py')
    return shapes


def q_coq(q: Fraction):
    n, d = q.numerator, q.denominator
    s = f'({abs(n)} / {d})' if d != 1 else f'{abs(n)}'
    return f'(- {s})' if n < 0 else s


def neighbours_flx(r: Fraction, p: int):
    """pred and succ of the non-zero value r in the precision-p float format (unbounded exponent)."""
    a = abs(r)
    e = a.numerator.bit_length() - a.denominator.bit_length()
    if Fraction(2) ** e > a:
        e -= 1
    ulp = Fraction(2) ** (e - p + 1)
    succ = a + ulp
    pred = a - (ulp / 2 if a == Fraction(2) ** e else ulp)
    return (pred, succ) if r > 0 else (-succ, -pred)


def run(ck):
    import gmpy2
    import fpy2 as fp
    from fpy2 import ops
    from fpy2.number import Float
    thorough = ck.tier == 'thorough'
    rng = Rng(ck.seed, 'c03')
    ck.trusted += [
        'Coq 8.16.1 kernel; Flocq; CoqInterval (interval tactic, i_prec set per goal) for the per-instance certificates',
        'ORACLE (modelled, not verified): MPFR via gmpy2 returns the value truncated toward zero at the requested precision with a truthful ternary value; '
        'supported by the Coq-certified instances and the high-precision differential of this run',
        'the high-precision differential itself uses MPFR (directed rounding at larger precision): testing, not proof',
        'erf, erfc, tgamma, lgamma, asinh, acosh, atanh, asin, acos, atan2, pow, cbrt, hypot are not expressible/used in CoqInterval goals here: differential only',
        'Python ast-based regeneration of the shape of gmp._constant_exprs',
    ]
    ok, _ = ck.build_static(['Props/C03.v'])
    if ok:
        ck.props('Props/C03.v')

    # ---------------------------------------------------------------- regenerated constant-shape table
    try:
        shapes = const_shapes()
        names = sorted(shapes)
        tbl = '; '.join(f'("{n}", {"true" if shapes[n] == "single" else "false"})' for n in names)
        exp_single = '; '.join(f'"{n}"' for n in sorted(EXPECTED_SINGLE))
        text = ('From Coq Require Import List String Bool.\nImport ListNotations.\nOpen Scope string_scope.\n'
                '(* regenerated from fpy2/number/engine/gmp.py: is the entry one MPFR call on literals? *)\n'
                f'Definition const_shapes : list (string * bool) := [{tbl}].\n'
                f'Lemma single_call_constants : map fst (filter snd const_shapes) = [{exp_single}].\n'
                'Proof. vm_compute. reflexivity. Qed.\n')
        okd, out = ck.dyn_theory('ConstShapes', text=text)
        ck.extra['constant_shapes'] = shapes
    except Exception as e:  # noqa
        ck.broken.append(f'constant-shape regeneration failed: {e}')
        shapes = {}

    def attempt(f):
        try:
            return f()
        except Exception as e:  # noqa
            return e

    def to_mpfr(x: Fraction, prec):
        return gmpy2.mpfr(gmpy2.mpq(x.numerator, x.denominator), prec)

    def from_mpfr(m):
        if gmpy2.is_nan(m) or gmpy2.is_infinite(m):
            return None
        n, d = m.as_integer_ratio()
        return Fraction(int(n), int(d))

    GM = {'exp': gmpy2.exp, 'exp2': gmpy2.exp2, 'exp10': gmpy2.exp10, 'expm1': gmpy2.expm1, 'log': gmpy2.log, 'log2': gmpy2.log2,
          'log10': gmpy2.log10, 'log1p': gmpy2.log1p, 'sin': gmpy2.sin, 'cos': gmpy2.cos, 'tan': gmpy2.tan, 'asin': gmpy2.asin,
          'acos': gmpy2.acos, 'atan': gmpy2.atan, 'sinh': gmpy2.sinh, 'cosh': gmpy2.cosh, 'tanh': gmpy2.tanh, 'asinh': gmpy2.asinh,
          'acosh': gmpy2.acosh, 'atanh': gmpy2.atanh, 'erf': gmpy2.erf, 'erfc': gmpy2.erfc, 'tgamma': gmpy2.gamma,
          'lgamma': lambda x: gmpy2.lgamma(x)[0], 'cbrt': gmpy2.cbrt, 'sqrt': gmpy2.sqrt}
    GM2 = {'atan2': gmpy2.atan2, 'pow': lambda x, y: x ** y, 'hypot': gmpy2.hypot}
    GC = {'const_pi': lambda: gmpy2.const_pi(), 'const_e': lambda: gmpy2.exp(1), 'const_ln2': lambda: gmpy2.const_log2(),
          'const_log2e': lambda: 1 / gmpy2.const_log2(), 'const_log10e': lambda: 1 / gmpy2.log(10),
          'const_pi_2': lambda: gmpy2.const_pi() / 2, 'const_pi_4': lambda: gmpy2.const_pi() / 4,
          'const_1_pi': lambda: 1 / gmpy2.const_pi(), 'const_2_pi': lambda: 2 / gmpy2.const_pi(),
          'const_2_sqrt_pi': lambda: 2 / gmpy2.sqrt(gmpy2.const_pi()), 'const_sqrt2': lambda: gmpy2.sqrt(2),
          'const_sqrt1_2': lambda: gmpy2.sqrt(gmpy2.mpfr(1) / 2)}

    def bracket(fn, args, prec):
        """(lo, hi) rationals with lo <= true value <= hi, from directed evaluations (inner ops rounded outward crudely
        by evaluating the whole expression at a much larger precision first)."""
        with gmpy2.context(precision=prec + 64, round=gmpy2.RoundToNearest, emin=gmpy2.get_emin_min(), emax=gmpy2.get_emax_max()):
            v = fn(*[to_mpfr(a, prec + 64) if isinstance(a, Fraction) else a for a in args])
        if gmpy2.is_nan(v) or gmpy2.is_infinite(v):
            return None
        vq = from_mpfr(v)
        if vq == 0:
            return (Fraction(0), Fraction(0))
        err = abs(vq) * Fraction(1, 2 ** (prec + 40))      # far above the final-rounding error at prec+64, single or composed
        return (vq - err, vq + err)

    def quantum_pos(ctx):
        """absolute position of the last kept digit for fixed-point style contexts, else None"""
        mp, mn = ctx.round_params()
        return mn if mp is None else None

    def expected(ctx, fn, args, p):
        qp = quantum_pos(ctx)
        for extra in (40, 160, 600):
            need = p
            if qp is not None:
                # fixed-point target: the bracket must be much narrower than the quantum, whatever the magnitude
                b0 = bracket(fn, args, 64)
                if b0 is None:
                    return None
                mag = max(abs(b0[0]), abs(b0[1]))
                if mag != 0:
                    ev = mag.numerator.bit_length() - mag.denominator.bit_length()
                    need = max(p, ev - qp + 8)
            b = bracket(fn, args, need + extra)
            if b is None:
                return None
            lo, hi = b
            rlo, rhi = attempt(lambda: ctx.round(lo)), attempt(lambda: ctx.round(hi))
            if isinstance(rlo, BaseException) or isinstance(rhi, BaseException):
                return None
            if rlo.is_nar() or rhi.is_nar():
                if rlo.isnan == rhi.isnan and rlo.isinf == rhi.isinf and rlo.s == rhi.s:
                    return rlo
                continue
            if rlo.as_rational() == rhi.as_rational() and rlo.s == rhi.s:
                return rlo
        return None

    certs = []        # (goal text, description, expect_true)
    undecided = 0

    def compare(name, desc, got, want, key=None, p=None):
        if want is None:
            return 'undecided'
        ck.evaluations += 1
        ck.count(name)
        ck.nontriv((name, desc))
        if isinstance(got, BaseException):
            ck.violation(f'{name} raised where a correctly rounded result exists', {'case': desc, 'exc': repr(got), 'expected': repr(want)}, key=key)
            return 'bad'
        same = (got.isnan == want.isnan and got.isinf == want.isinf and
                (got.is_nar() or (got.as_rational() == want.as_rational())))
        if not same:
            ck.violation(f'{name} is not the true value rounded once', {'case': desc, 'got': repr(got), 'expected': repr(want)}, key=key)
            return 'bad'
        return 'ok'

    def add_cert(coq_expr, r: Fraction, ctxd, p, rm, desc, expect_true=True):
        """certificate: the true value lies in the open rounding cell of r under MPFloat(p, rm)"""
        if r == 0:
            return
        ctx = mk_ctx(ctxd)
        pred, succ = neighbours_flx(r, p)
        pts = [pred, (pred + r) / 2, r, (r + succ) / 2, succ]
        lo = hi = None
        for a, b in zip(pts, pts[1:]):
            m = (a + b) / 2
            if ctx.round(m).as_rational() == r:
                lo = a if lo is None else lo
                hi = b
        if lo is None:
            return
        certs.append((f'({q_coq(lo)} < {coq_expr} /\\ {coq_expr} < {q_coq(hi)})', p, desc, expect_true))

    # ---------------------------------------------------------------- constants: every precision, every mode
    plist = (list(range(1, 33)) + [53, 113]) if not thorough else list(range(1, 401))
    cert_p = {8, 24, 53} if not thorough else {1, 2, 3, 5, 8, 11, 16, 24, 32, 53, 64, 113}
    for cname in COQ_CONST:
        key = f'const_{CONST_ENUM[cname]}_composed' if shapes.get(CONST_ENUM[cname]) == 'composed' else None
        for p in plist:
            for rm in RM:
                d = {'kind': 'mpfloat', 'p': p, 'rm': rm}
                ctx = mk_ctx(d)
                got = attempt(lambda: getattr(ops, cname)(ctx=ctx))
                want = expected(ctx, GC[cname], (), p)
                st = compare(cname, f'{cname} under MPFloatContext({p}, {rm})', got, want, key=key, p=p)
                if st == 'undecided':
                    undecided += 1
                if p in cert_p and rm in (('RNE', 'RTZ', 'RAZ', 'RTO') if thorough else ('RNE', 'RTZ')) and want is not None and not want.is_nar():
                    # certify the correct cell; if fpy2 disagrees the violation above carries the proof of misrounding
                    add_cert(COQ_CONST[cname], want.as_rational(), d, p, rm, f'{cname} p={p} {rm}')
        # fixed-point and subnormal targets
        for d in [{'kind': 'mpfixed', 'nmin': -20, 'rm': 'RNE'}, {'kind': 'mpfixed', 'nmin': -3, 'rm': 'RTP'},
                  {'kind': 'mpsfloat', 'p': 10, 'emin': 0, 'rm': 'RNE'}, {'kind': 'efloat', 'es': 3, 'nbits': 8, 'enable_inf': True,
                                                                           'nk': 'IEEE_754', 'eoffset': 0, 'rm': 'RTN', 'ov': 'OVERFLOW'}]:
            ctx = mk_ctx(d)
            got = attempt(lambda: getattr(ops, cname)(ctx=ctx))
            want = expected(ctx, GC[cname], (), 64)
            compare(cname, f'{cname} under {d}', got, want, key=key)

    # ---------------------------------------------------------------- functions
    xs = [Fraction(1), Fraction(1, 2), Fraction(3, 4), Fraction(5, 4), Fraction(-3, 8), Fraction(7), Fraction(1, 16), Fraction(-9, 2),
          Fraction(11, 8), Fraction(1, 1024), Fraction(25, 2)]
    xs += [Fraction(rng.randint(-2000, 2000), 2 ** rng.randint(0, 12)) for _ in range(10 if not thorough else 60)]
    fps = [1, 2, 3, 5, 8, 11, 24, 53, 100] if not thorough else [1, 2, 3, 4, 5, 8, 11, 16, 24, 32, 53, 64, 113, 200, 400]
    fctx = []
    for p in fps:
        for rm in (RM if p <= 8 or thorough else ('RNE', 'RTZ', 'RTP')):
            fctx.append(({'kind': 'mpfloat', 'p': p, 'rm': rm}, p))
    fctx += [({'kind': 'mpsfloat', 'p': 8, 'emin': -4, 'rm': 'RNE'}, 8), ({'kind': 'mpfixed', 'nmin': -12, 'rm': 'RNE'}, 40),
             ({'kind': 'mpfixed', 'nmin': -2, 'rm': 'RTZ'}, 40), ({'kind': 'mpfixed', 'nmin': 3, 'rm': 'RAZ'}, 40),
             ({'kind': 'efloat', 'es': 5, 'nbits': 16, 'enable_inf': True, 'nk': 'IEEE_754', 'eoffset': 0, 'rm': 'RNE', 'ov': 'OVERFLOW'}, 11),
             # results far outside the range of a wrapping format: every digit down to the quantum matters
             ({'kind': 'fixed', 'signed': True, 'scale': 0, 'nbits': 8, 'rm': 'RNE', 'ov': 'WRAP'}, 60),
             ({'kind': 'fixed', 'signed': False, 'scale': -1, 'nbits': 4, 'rm': 'RTZ', 'ov': 'WRAP'}, 60),
             ({'kind': 'smfixed', 'scale': 0, 'nbits': 6, 'rm': 'RNA', 'ov': 'WRAP'}, 60)]
    ncert = 0
    for fname, g in GM.items():
        for x in xs:
            fx = Float.from_rational(x)
            for d, p in fctx:
                ctx = mk_ctx(d)
                got = attempt(lambda: getattr(ops, fname)(fx, ctx=ctx))
                want = expected(ctx, g, (x,), p)
                st = compare(fname, f'{fname}({x}) under {d}', got, want)
                if st == 'undecided':
                    undecided += 1
                if d is fctx[0][0] and want is not None and not want.is_nar() and want.as_rational() != 0:
                    # fixed-point targets placed relative to the magnitude of THIS result: the result has 1, 2 or 3
                    # digits above the quantum (the two-pass precision selection's boundary cases)
                    tv = abs(bracket(g, (x,), 80)[0])
                    ev = tv.numerator.bit_length() - tv.denominator.bit_length()
                    if Fraction(2) ** ev > tv:
                        ev -= 1
                    for j in (0, 1, 2, 3):
                        for rmq in ('RNE', 'RNA', 'RTZ', 'RTP'):
                            dq = {'kind': 'mpfixed', 'nmin': ev - 1 - j, 'rm': rmq}
                            cq = mk_ctx(dq)
                            gq = attempt(lambda: getattr(ops, fname)(fx, ctx=cq))
                            wq = expected(cq, g, (x,), 40)
                            compare(fname + '(quantum-relative)', f'{fname}({x}) under {dq}', gq, wq)
                if (st == 'ok' and fname in COQ_FN and d['kind'] == 'mpfloat' and p in (3, 8, 24, 53) and d['rm'] in ('RNE', 'RTZ', 'RTP')
                        and not want.is_nar() and want.inexact and abs(x) <= 16 and ncert < (30 if not thorough else 900)
                        and rng.random() < (0.25 if not thorough else 0.6)):
                    add_cert(COQ_FN[fname](q_coq(x)), got.as_rational(), d, p, d['rm'], f'{fname}({x}) p={p} {d["rm"]}')
                    ncert += 1
    for fname, g in GM2.items():
        for x, y in itertools.product(xs[:7], xs[:6]):
            fx, fy = Float.from_rational(x), Float.from_rational(y)
            for d, p in fctx[::3]:
                ctx = mk_ctx(d)
                got = attempt(lambda: getattr(ops, fname)(fx, fy, ctx=ctx))
                want = expected(ctx, g, (x, y), p)
                if compare(fname, f'{fname}({x},{y}) under {d}', got, want) == 'undecided':
                    undecided += 1
    ck.count('undecided by the differential (skipped)', undecided)

    # ---------------------------------------------------------------- true results outside MPFR's own exponent range
    # |f(x)| is non-zero but below 2^emin_min (or above 2^emax_max): MPFR itself under/overflows and the wrapper substitutes a
    # stand-in.  Under a context with a bounded quantum / range every value that small (large) with the same sign rounds
    # alike, so the expectation is ctx.round(sign * 2^-+100000); sign of the result, sign of a zero and the inexact flag count.
    E62 = 2 ** 62
    far = [('pow', (Fraction(-1, 2), Fraction(E62 + 1)), -1, 'tiny'), ('pow', (Fraction(1, 2), Fraction(E62)), 1, 'tiny'),
           ('pow', (Fraction(-3, 2 ** 20), Fraction(2 ** 60 + 1)), -1, 'tiny'), ('pow', (Fraction(-3, 2 ** 20), Fraction(2 ** 60 + 2)), 1, 'tiny'),
           ('exp', (Fraction(-2 ** 63),), 1, 'tiny'), ('exp2', (Fraction(-E62 - 5),), 1, 'tiny'), ('exp10', (Fraction(-E62),), 1, 'tiny'),
           ('erfc', (Fraction(2 ** 32),), 1, 'tiny'), ('pow', (Fraction(-2), Fraction(E62 + 1)), -1, 'huge'),
           ('pow', (Fraction(-2), Fraction(E62 + 2)), 1, 'huge'), ('exp', (Fraction(2 ** 63),), 1, 'huge'),
           ('sinh', (Fraction(-2 ** 63),), -1, 'huge'), ('cosh', (Fraction(-2 ** 63),), 1, 'huge'), ('expm1', (Fraction(2 ** 63),), 1, 'huge')]
    far_ctx = [{'kind': 'efloat', 'es': 11, 'nbits': 64, 'enable_inf': True, 'nk': 'IEEE_754', 'eoffset': 0, 'rm': rm, 'ov': 'OVERFLOW'} for rm in RM] + \
              [{'kind': 'mpsfloat', 'p': 8, 'emin': -4, 'rm': rm} for rm in ('RNE', 'RTP', 'RTN', 'RAZ', 'RTO')] + \
              [{'kind': 'mpfixed', 'nmin': -12, 'rm': rm} for rm in RM] + \
              [{'kind': 'efloat', 'es': 5, 'nbits': 16, 'enable_inf': True, 'nk': 'IEEE_754', 'eoffset': 0, 'rm': rm, 'ov': 'OVERFLOW'} for rm in ('RNE', 'RTZ', 'RAZ', 'RTN')]
    for fname, args, sgn, kind in far:
        standin = sgn * (Fraction(1, 2 ** 100000) if kind == 'tiny' else Fraction(2 ** 100000))
        for d in far_ctx:
            if kind == 'huge' and d['kind'] in ('mpsfloat', 'mpfixed'):
                continue                                   # no upper bound: the true result is out of reach of any stand-in
            ctx = mk_ctx(d)
            got = attempt(lambda: getattr(ops, fname)(*[Float.from_rational(a) for a in args], ctx=ctx))
            want = attempt(lambda: ctx.round(standin))
            ck.evaluations += 1
            ck.count('beyond-MPFR-range')
            ck.nontriv(('far', fname, str(args), str(d)))
            if isinstance(want, BaseException):
                continue
            if (isinstance(got, BaseException) or got.isnan != want.isnan or got.isinf != want.isinf or got.s != want.s
                    or (not got.is_nar() and got.as_rational() != want.as_rational()) or not got.inexact):
                ck.violation(f'{fname}: a true result outside MPFR\'s exponent range is not rounded like the true value (value, sign or inexact flag)',
                             {'fn': fname, 'args': [str(a) for a in args], 'ctx': d, 'true result': f'{"-" if sgn < 0 else "+"}{kind}',
                              'got': repr(got), 'expected': repr(want)})

    # ---------------------------------------------------------------- exact results are exact and unflagged
    exact = [('exp', (0,), 1), ('log', (1,), 0), ('pow', (2, 10), 1024), ('sqrt', (4,), 2), ('sin', (0,), 0), ('cos', (0,), 1),
             ('atan', (0,), 0), ('exp2', (3,), 8), ('log2', (8,), 3), ('log10', (1000,), 3), ('exp10', (2,), 100), ('cbrt', (27,), 3),
             ('hypot', (3, 4), 5), ('expm1', (0,), 0), ('log1p', (0,), 0), ('tgamma', (5,), 24), ('lgamma', (1,), 0), ('pow', (Fraction(9, 4), Fraction(1, 2)), Fraction(3, 2)),
             ('cosh', (0,), 1), ('tanh', (0,), 0), ('asin', (0,), 0), ('acos', (1,), 0), ('erf', (0,), 0), ('erfc', (0,), 1)]
    for fname, args, val in exact:
        for d in [{'kind': 'mpfloat', 'p': 12, 'rm': rm} for rm in RM] + [{'kind': 'mpfixed', 'nmin': -4, 'rm': 'RNE'}, {'kind': 'mpsfloat', 'p': 11, 'emin': -14, 'rm': 'RTO'}]:
            ctx = mk_ctx(d)
            r = attempt(lambda: getattr(ops, fname)(*[Float.from_rational(Fraction(a)) for a in args], ctx=ctx))
            ck.evaluations += 1
            ck.count('exact-result')
            ck.nontriv(('exact', fname, str(args), str(d)))
            if isinstance(r, BaseException) or r.is_nar() or r.as_rational() != Fraction(val) or r.inexact:
                ck.violation('an exactly representable true result is not returned exactly and unflagged',
                             {'fn': fname, 'args': [str(a) for a in args], 'ctx': d, 'got': repr(r)})

    # ---------------------------------------------------------------- Coq certificates (CoqInterval)
    ck.log(f'{len(certs)} CoqInterval certificates')
    batches = [certs[i::12] for i in range(12)]
    names = []
    for bi, batch in enumerate(batches):
        if not batch:
            continue
        body = ['From Coq Require Import Reals.', 'From Interval Require Import Tactic.', 'Open Scope R_scope.']
        for gi, (goal, p, desc, _) in enumerate(batch):
            body.append(f'(* {desc} *)\nLemma cert_{bi}_{gi} : {goal}.\nProof. split; interval with (i_prec {p + 50}). Qed.')
        names.append((f'Cert{bi}', '\n'.join(body) + '\n', batch))
    # compile batches in parallel
    for nm, text, _ in names:
        (ck.dir / f'{nm}.v').write_text(text)
    sh("ls Cert*.v | xargs -P12 -I{} sh -c 'timeout 900 coqc {} > {}.log 2>&1 || echo FAILED >> {}.log'", cwd=ck.dir, timeout=1000)
    proved = 0
    for nm, text, batch in names:
        log = (ck.dir / f'{nm}.v.log').read_text()
        ck.obligations += len(batch)
        if 'FAILED' not in log and 'Error' not in log:
            proved += len(batch)
            ck.discharged += len(batch)
        else:
            ck.broken.append(f'CoqInterval certificate batch {nm} failed: {log[-400:]}')
    ck.checker_cmds.append('coqc build/C03/Cert*.v  # From Interval Require Import Tactic; interval with (i_prec p+50)')
    ck.extra['certificates'] = {'emitted': len(certs), 'proved': proved}
    for c in certs[:3]:
        ck.sample({'certificate': c[0], 'for': c[2]})
    ck.rule = ('constants: every precision in the list x 8 modes (+ fixed/subnormal targets); functions: %d operands x %d contexts; '
               'expected value from bracketing at growing precision; a sample is certified in Coq by interval arithmetic; '
               'non-trivial = distinct (function, operand, context)' % (len(xs), len(fctx)))
